#!/bin/sh
# Offline setup: hypothesis into /venv (no-op when present), then harness self-tests.
/venv/bin/python -c "import hypothesis" 2>/dev/null || \
  /venv/bin/pip install --no-index --find-links /opt/veriftools/wheels hypothesis
cd /verif && /venv/bin/python -c "
import sys; sys.path.insert(0, '/verif')
from vlib import wire
wire.selftest()
print('setup ok')
"
