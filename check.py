#!/venv/bin/python
"""Entry point: check.py <ID> quick|thorough   |   check.py <ID> --replay f

Exit 0: property held on everything explored; 1: violation (always with a
VIOLATION line); 2: harness/environment error (inconclusive).  Anything that
escapes - including failures while importing the harness, e.g. MemoryError on
a starved machine - is mapped to 2 so that Python's default exit status 1 for
uncaught exceptions can never be mistaken for a violation."""
import os
import sys

sys.path.insert(0, os.path.dirname(os.path.abspath(__file__)))
sys.dont_write_bytecode = True

if __name__ == '__main__':
    try:
        from vlib import runner  # noqa: E402
        rc = runner.main(sys.argv[1:])
    except SystemExit:
        raise
    except BaseException as e:  # noqa
        try:
            import traceback
            traceback.print_exc()
            print('HARNESS-ERROR: %r' % (e,), file=sys.stderr)
        except BaseException:  # noqa
            pass
        os._exit(2)
    sys.exit(rc)
