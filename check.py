#!/venv/bin/python
"""Entry point: check.py <ID> quick|thorough   |   check.py <ID> --replay f"""
import os
import sys

sys.path.insert(0, os.path.dirname(os.path.abspath(__file__)))
sys.dont_write_bytecode = True

from vlib import runner  # noqa: E402

if __name__ == '__main__':
    sys.exit(runner.main(sys.argv[1:]))
