#!/venv/bin/python
"""atheris (libFuzzer) targets with the semantic oracle inside the target.

usage: fuzz_targets.py <target> [libFuzzer args...]
targets:
  varint  - C03: VarInt/VarLong.read against the reference lenient decoder
  stream  - C01/C15: arbitrary server byte stream (+ mode, cipher, cut plan)
            through the real PacketReactor.read_packet on the fake file:
            delivered packets == complete well-formed frames of the
            reference parse, then an exception; never a spin or a block.
An oracle failure raises, which libFuzzer records as a crash input under
-artifact_prefix; the parent check converts it into a JSON replay."""
import os
import sys

HERE = os.path.dirname(os.path.abspath(__file__))
VERIF = os.path.dirname(HERE)
sys.path.insert(0, VERIF)
sys.path.insert(0, os.path.join(VERIF, '.deps'))
sys.path.insert(0, os.environ.get('VERIF_REPO', '/repo'))
sys.dont_write_bytecode = True
import warnings  # noqa: E402
warnings.filterwarnings('ignore')
import atheris  # noqa: E402

with atheris.instrument_imports(include=['minecraft']):
    import minecraft  # noqa: F401
    import minecraft.networking.connection  # noqa: F401
    import minecraft.networking.types  # noqa: F401

from vlib.core import Ctx  # noqa: E402


class OracleFailure(Exception):
    pass


def run_component(prop_mod, comp, case):
    ctx = Ctx(prop_mod.PROPERTY, 'thorough', 1, 'fuzz')
    prop_mod.COMPONENTS[comp](ctx, case)
    if ctx.failures:
        f = list(ctx.failures.values())[0]
        raise OracleFailure('%s: %s / %s' % (f.clause, f.observed,
                                             f.expected))


def target_varint(data):
    from props import c03_varint as m
    if not data:
        return
    run_component(m, 'fuzz_decode', {'input': bytes(data)})


def target_stream(data):
    from props import c01_framing as m
    if len(data) < 3:
        return
    run_component(m, 'fuzz_stream', {'input': bytes(data)})


def main():
    name = sys.argv[1]
    argv = [sys.argv[0]] + sys.argv[2:]
    fn = {'varint': target_varint, 'stream': target_stream}[name]
    atheris.Setup(argv, fn)
    atheris.Fuzz()


if __name__ == '__main__':
    main()
