#!/usr/bin/env python3
"""cost_table.py <thorough logs...>: prints the DESIGN 10.5 table from the committed quick
evidence (evidence/*.json) and the rc/wall lines of selftest/thorough_all.sh logs (later logs win)."""
import json, re, sys
th = {}
for p in sys.argv[1:]:
    for l in open(p):
        m = re.match(r'^(C\d\d) rc=(\d+) (\d+)s', l)
        if m and m.group(2) == '0':
            th[m.group(1)] = int(m.group(3))
print('| ID | quick wall (s) | quick evaluations | quick distinct non-trivial | thorough wall (s) |')
print('|---|---|---|---|---|')
tq = tt = 0
for i in range(1, 21):
    pid = 'C%02d' % i
    e = json.load(open('/verif/evidence/%s.json' % pid))
    assert e['tier'] == 'quick' and e['seed'] == 1 and e['violations'] == 0, pid
    c = e['coverage']
    print('| %s | %.1f | %d | %d | %s |' % (pid, e['wall_s'], c['evaluations'], c['distinct_nontrivial'], th.get(pid, '?')))
    tq += e['wall_s']; tt += th.get(pid, 0)
print()
print('Quick tiers total about %.1f minutes; thorough tiers about %d minutes.' % (tq / 60, round(tt / 60)))
