#!/bin/bash
# ingest_round.sh <worktree-prefix> <suffix> [ids]: ingest every finished seed of a round (worktrees /tmp/<prefix>_Cxx ->
# seeded/Cxx<suffix>) that is not ingested yet, then run the property's check (with replay verification) against each new one.
P=$1; SUF=$2; shift 2
IDS=${*:-C01 C02 C03 C04 C05 C06 C07 C08 C09 C10 C11 C12 C13 C14 C15 C16 C17 C18 C19 C20}
new=""
for id in $IDS; do
  [ -d /verif/seeded/$id$SUF ] && continue
  [ -s /tmp/${P}_$id/NOTES.md ] && [ -s /tmp/${P}_$id/demo.py ] || continue
  /verif/selftest/ingest_seed.sh $id /tmp/${P}_$id $id$SUF 2>&1 | tail -2
  [ -d /verif/seeded/$id$SUF ] && new="$new /verif/seeded/$id$SUF/patch.diff"
done
[ -n "$new" ] && MUT_PAR=${MUT_PAR:-2} /verif/selftest/mutate.py --replay $new | cut -c1-400
