#!/bin/bash
# runs every thorough check sequentially, evidence into a scratch dir (not /verif/evidence)
mkdir -p /tmp/thorough_ev
for id in ${1:-C01 C02 C03 C04 C05 C06 C07 C08 C09 C10 C11 C12 C13 C14 C15 C16 C17 C18 C19 C20}; do
  t0=$(date +%s)
  out=$(VERIF_EVIDENCE_DIR=/tmp/thorough_ev VERIF_REPLAY_DIR=/tmp/thorough_ev/replays /venv/bin/python /verif/check.py $id thorough 2>&1); rc=$?
  echo "$id rc=$rc $(( $(date +%s) - t0 ))s $(echo "$out" | grep -v KNOWN-FINDING | tail -3 | tr '\n' ' ' | cut -c1-600)"
done
