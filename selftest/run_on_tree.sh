#!/bin/bash
# run_on_tree.sh <tree> [ids]: every quick check against another source tree (false-alarm / sensitivity runs)
T=$1; shift
IDS=${*:-C01 C02 C03 C04 C05 C06 C07 C08 C09 C10 C11 C12 C13 C14 C15 C16 C17 C18 C19 C20}
E=$(mktemp -d /tmp/ontree_XXXX)
for id in $IDS; do
  out=$(VERIF_REPO=$T VERIF_EVIDENCE_DIR=$E VERIF_REPLAY_DIR=$E/rp VERIF_NO_SHRINK=1 /venv/bin/python /verif/check.py $id quick 2>&1); rc=$?
  echo "$id rc=$rc $(echo "$out" | grep -E "clause=|HARNESS" | head -3 | cut -c1-260 | tr '\n' ' ')"
done
rm -rf $E
