#!/bin/bash
# run_refactors.sh [names]: false-alarm test. Applies each behaviour-preserving refactor in
# selftest/refactors/*.diff (written by independent sub-agents that never saw /verif) to a scratch copy
# of /repo and runs every quick check against it.  Expected: rc=0 everywhere (rc=2 = wiring drift,
# rc=1 = false alarm -> fix the machinery).
cd /verif
NAMES=${*:-$(ls selftest/refactors/*.diff | xargs -n1 basename | sed 's/.diff$//')}
bad=0
for n in $NAMES; do
  S=$(mktemp -d /tmp/rfx_XXXX)
  cp -r /repo/minecraft /repo/tests $S/
  if ! (cd $S && patch -p1 -s < /verif/selftest/refactors/$n.diff); then echo "$n PATCH-FAILED (refactor is stale w.r.t. /repo)"; rm -rf $S; continue; fi
  out=$(selftest/run_on_tree.sh $S ${IDS})
  nz=$(echo "$out" | grep -v "rc=0" )
  if [ -z "$nz" ] && [ $(echo "$out" | wc -l) -ge 1 ] && echo "$out" | grep -q "rc=0"; then echo "$n QUIET ($(echo "$out" | wc -l) checks)"; else echo "$n NOT-QUIET:"; echo "$nz"; bad=1; fi
  rm -rf $S
done
exit $bad
