#!/venv/bin/python
"""mkmut.py <ID> <name> <file relative to /repo> <old> <new> [count]
Creates selftest/mutants/<ID>_<name>.patch replacing old by new in file."""
import os, subprocess, sys, tempfile, shutil
pid, name, rel, old, new = sys.argv[1:6]
count = int(sys.argv[6]) if len(sys.argv) > 6 else 1
src = open(os.path.join('/repo', rel)).read()
if src.count(old) < 1:
    sys.exit('old string not found')
if src.count(old) > 1 and len(sys.argv) <= 6:
    sys.exit('old string found %d times; pass count' % src.count(old))
d = tempfile.mkdtemp(prefix='mkmut')
try:
    for side, text in (('a', src), ('b', src.replace(old, new, count))):
        p = os.path.join(d, side, rel)
        os.makedirs(os.path.dirname(p))
        open(p, 'w').write(text)
    out = subprocess.run(['diff', '-u', os.path.join('a', rel), os.path.join('b', rel)], cwd=d, capture_output=True, text=True).stdout
    dst = os.path.join(os.path.dirname(os.path.abspath(__file__)), 'mutants', '%s_%s.patch' % (pid, name))
    os.makedirs(os.path.dirname(dst), exist_ok=True)
    open(dst, 'w').write(out)
    print(dst)
finally:
    shutil.rmtree(d)
