#!/bin/bash
# Runs the pinned baseline suite on a tree (default /repo) and checks that all 87 stable tests pass.
# usage: repo_tests.sh [tree]
T=${1:-/repo}
OUT=$(mktemp /tmp/junit.XXXXXX.xml)
cd "$T" && /venv/bin/python -m pytest -ra -q -p no:cacheprovider --timeout=900 --continue-on-collection-errors --junitxml=$OUT >/dev/null 2>&1
/venv/bin/python - "$OUT" <<'PY'
import json, sys, xml.etree.ElementTree as ET
base = json.load(open('/root/.vp/BASELINE.json'))
want = set(base['stable_pass'])
ok = set()
for tc in ET.parse(sys.argv[1]).getroot().iter('testcase'):
    name = '%s::%s' % (tc.get('classname'), tc.get('name'))
    if not any(c.tag in ('failure', 'error', 'skipped') for c in tc):
        ok.add(name)
missing = sorted(want - ok)
print('baseline: %d/%d stable tests pass' % (len(want & ok), len(want)))
for m in missing:
    print('  NOT PASSING:', m)
sys.exit(1 if missing else 0)
PY
rc=$?
rm -f $OUT
exit $rc
