#!/bin/bash
# regenerates selftest/RESULTS.md: every mutant and seeded change against its property's quick check
cd /verif/selftest
{ echo "# Mutation / seeded-change results (quick tier, VERIF_SEED=${VERIF_SEED:-1})"; echo; echo '```'; MUT_PAR=${MUT_PAR:-3} MUT_NPROC=${MUT_NPROC:-5} ./mutate.py ${TESTS:+--tests} --all 2>&1; echo '```'; } > RESULTS.md.tmp
mv RESULTS.md.tmp RESULTS.md
grep -c CAUGHT RESULTS.md; grep -v CAUGHT RESULTS.md | grep -E "MISSED|HARNESS|PATCH" | head
