#!/venv/bin/python
"""mutate.py [--tests] [--tier quick] <patch>...   (or --all [ID])
For each patch: copy /repo (minecraft + tests) to a scratch dir, apply the
patch, run the property's check with VERIF_REPO pointing at the copy and
expect exit 1.  With --tests also run the baseline suite on the mutant.
Patch names start with the property id (C03_xxx.patch); seeded changes live
in seeded/<name>/patch.diff with meta.json {"property": id}."""
import glob, json, os, shutil, subprocess, sys, tempfile, time
from concurrent.futures import ThreadPoolExecutor
V = os.path.dirname(os.path.dirname(os.path.abspath(__file__)))
REPLAY = False

def props_for(patch):
    b = os.path.basename(patch)
    if b == 'patch.diff':
        meta = json.load(open(os.path.join(os.path.dirname(patch), 'meta.json')))
        p = meta.get('checked_by') or meta['property']
        return p if isinstance(p, list) else [p]
    return [b.split('_')[0]]

def run_one(patch, tests, tier, only=None):
    d = tempfile.mkdtemp(prefix='mut_')
    try:
        subprocess.run(['git', '-C', '/repo', 'worktree', 'list'], capture_output=True)
        for sub in ('minecraft', 'tests'):
            shutil.copytree(os.path.join('/repo', sub), os.path.join(d, sub), ignore=shutil.ignore_patterns('__pycache__'))
        for f in ('setup.py', 'README.rst', 'tox.ini', 'requirements.txt'):
            if os.path.exists('/repo/' + f):
                shutil.copy('/repo/' + f, d)
        r = subprocess.run(['patch', '-p1', '-s', '-i', os.path.abspath(patch)], cwd=d, capture_output=True, text=True)
        if r.returncode:
            return patch, 'PATCH-FAILED ' + r.stdout + r.stderr, []
        res = []
        for pid in (only or props_for(patch)):
            env = dict(os.environ, VERIF_REPO=d, VERIF_EVIDENCE_DIR=os.path.join(d, 'ev'), VERIF_REPLAY_DIR=os.path.join(d, 'rp'),
                       VERIF_NPROC=os.environ.get('MUT_NPROC', '8'), VERIF_NO_SHRINK='1', VERIF_NO_REPLAY_CHECK='1')
            t0 = time.time()
            r = subprocess.run(['/venv/bin/python', os.path.join(V, 'check.py'), pid, tier], env=env, capture_output=True, text=True)
            clauses = sorted(set(l.split('clause=')[1].split()[0] for l in r.stdout.splitlines() if 'clause=' in l))
            err = r.stderr[-500:] if r.returncode == 2 else ''
            if REPLAY and r.returncode == 1:
                # every replay file must reproduce on the mutant and pass on /repo
                rps = [l.split('replay=')[1].strip() for l in r.stdout.splitlines() if l.startswith('VIOLATION')][:4]
                rep = cln = 0
                for rp in rps:
                    a = subprocess.run(['/venv/bin/python', os.path.join(V, 'check.py'), pid, '--replay', rp], env=env, capture_output=True, text=True)
                    env2 = dict(env); env2.pop('VERIF_REPO'); env2['VERIF_REPLAY_DIR'] = os.path.join(d, 'rp2')
                    b = subprocess.run(['/venv/bin/python', os.path.join(V, 'check.py'), pid, '--replay', rp], env=env2, capture_output=True, text=True)
                    rep += a.returncode == 1
                    cln += b.returncode == 0
                    if a.returncode != 1 or b.returncode != 0:
                        err += ' REPLAY-MISMATCH %s mutant_rc=%d clean_rc=%d' % (os.path.basename(rp), a.returncode, b.returncode)
                clauses.append('[replay %d/%d reproduce, %d/%d clean-pass]' % (rep, len(rps), cln, len(rps)))
            res.append((pid, r.returncode, round(time.time() - t0, 1), clauses, err))
        tmsg = ''
        if tests:
            r = subprocess.run([os.path.join(V, 'selftest', 'repo_tests.sh'), d], capture_output=True, text=True)
            tmsg = r.stdout.strip().splitlines()[0] if r.stdout.strip() else 'tests: ?'
            if r.returncode:
                tmsg += ' (BASELINE BROKEN: ' + ' '.join(r.stdout.split('NOT PASSING:')[1:3]).strip()[:200] + ')'
        return patch, tmsg, res
    finally:
        shutil.rmtree(d, ignore_errors=True)

def main():
    a = sys.argv[1:]
    tests = '--tests' in a
    global REPLAY
    REPLAY = '--replay' in a
    tier = 'quick'
    if '--tier' in a:
        tier = a[a.index('--tier') + 1]
    only = None
    if '--prop' in a:
        only = a[a.index('--prop') + 1].split(',')
    pats = [x for x in a if x.endswith('.patch') or x.endswith('.diff')]
    if '--all' in a:
        i = a.index('--all')
        pre = a[i + 1] if len(a) > i + 1 and a[i + 1].startswith('C') else ''
        pats = sorted(glob.glob(os.path.join(V, 'selftest', 'mutants', pre + '*.patch')))
        pats += [p for p in sorted(glob.glob(os.path.join(V, 'seeded', '*', 'patch.diff')))
                 if (not pre or pre in props_for(p)) and 'superseded' not in json.load(open(os.path.join(os.path.dirname(p), 'meta.json')))]
    par = int(os.environ.get('MUT_PAR', '2'))
    missed = 0
    with ThreadPoolExecutor(par) as ex:
        for patch, tmsg, res in ex.map(lambda p: run_one(p, tests, tier, only), pats):
            name = os.path.relpath(patch, V)
            if isinstance(tmsg, str) and tmsg.startswith('PATCH-FAILED'):
                print('%-55s %s' % (name, tmsg)); missed += 1; continue
            meta = {}
            mp = os.path.join(os.path.dirname(patch), 'meta.json')
            if os.path.exists(mp):
                meta = json.load(open(mp))
            for pid, rc, t, clauses, err in res:
                verdict = {1: 'CAUGHT', 0: 'MISSED', 2: 'HARNESS-ERROR'}.get(rc, 'rc=%s' % rc)
                if rc == 0 and meta.get('not_detected'):
                    # recorded in DESIGN.md as outside what the checks decide
                    verdict = 'NOT-DETECTED(recorded)'
                elif rc != 1: missed += 1
                print('%-55s %s %-8s %5.1fs %s %s %s' % (name, pid, verdict, t, ','.join(clauses), tmsg, err))
            sys.stdout.flush()
    sys.exit(1 if missed else 0)

main()
