#!/bin/sh
# validates MANIFEST.json and all evidence files against the schemas (uses the tooling venv's jsonschema)
python3-vt - <<'PY'
import json, jsonschema, glob
jsonschema.validate(json.load(open('/verif/MANIFEST.json')), json.load(open('/root/.vp/MANIFEST.schema.json')))
es = json.load(open('/root/.vp/EVIDENCE.schema.json'))
for p in sorted(glob.glob('/verif/evidence/*.json')):
    jsonschema.validate(json.load(open(p)), es)
    print('ok', p)
print('manifest ok')
PY
