#!/bin/bash
# quiet.sh "<ids>" "<seeds>" [tier]: every check must exit 0 on the unchanged tree at each seed
rc=0
for id in $1; do for s in $2; do
  out=$(VERIF_SEED=$s VERIF_EVIDENCE_DIR=/tmp/quiet_ev /venv/bin/python /verif/check.py $id ${3:-quick} 2>&1); r=$?
  echo "$id seed=$s rc=$r $(echo "$out" | tail -1)"
  [ $r -ne 0 ] && { rc=1; echo "$out" | tail -5; }
done; done
rm -rf /tmp/quiet_ev
exit $rc
