#!/bin/bash
# ingest_seed.sh <ID> <worktree>: verify an independently written breaking change and store it under /verif/seeded/<ID>/
# - demo passes on the unchanged tree, fails with the patch; baseline suite still passes with the patch
ID=$1; WT=${2:-/tmp/wt_$1}; NAME=${3:-$ID}; DST=/verif/seeded/$NAME
[ -s $WT/seeded_patch.diff ] || git -C $WT diff -- minecraft > $WT/seeded_patch.diff
[ -s $WT/seeded_patch.diff ] || { echo "no patch in $WT"; exit 2; }
S=$(mktemp -d /tmp/ingest_XXXX)
cp -r /repo/minecraft /repo/tests $S/; cp /repo/setup.py /repo/README.rst /repo/requirements.txt $S/ 2>/dev/null
cp $WT/demo.py $S/demo.py
sed -i "s#$WT#$S#g" $S/demo.py
cd $S
PYTHONPATH=$S timeout 600 /venv/bin/python demo.py >$S/demo_clean.log 2>&1; rc_clean=$?
patch -p1 -s < $WT/seeded_patch.diff || { echo "patch does not apply"; rm -rf $S; exit 2; }
PYTHONPATH=$S timeout 600 /venv/bin/python demo.py >$S/demo_patched.log 2>&1; rc_patched=$?
tests=$(/verif/selftest/repo_tests.sh $S | head -3 | tr '\n' ' ')
echo "$ID demo_clean_rc=$rc_clean demo_patched_rc=$rc_patched tests: $tests"
ok=1; [ $rc_clean -eq 0 ] || ok=0; [ $rc_patched -ne 0 ] || ok=0; echo "$tests" | grep -q "87/87" || ok=0
if [ $ok -eq 1 ]; then
  mkdir -p $DST
  cp $WT/seeded_patch.diff $DST/patch.diff; cp $WT/demo.py $DST/demo.py; [ -f $WT/NOTES.md ] && cp $WT/NOTES.md $DST/NOTES.md
  tail -3 $S/demo_patched.log > $DST/demo_patched_tail.txt
  /venv/bin/python - "$ID" "$rc_clean" "$rc_patched" "$tests" "$NAME" <<'PY'
import json, sys
pid, rc0, rc1, tests, name = sys.argv[1:6]
json.dump({"property": pid, "origin": "independent sub-agent given only the property text and a scratch worktree",
           "needs_to_manifest": "see NOTES.md",
           "verified": {"demo_on_unchanged_tree_rc": int(rc0), "demo_with_patch_rc": int(rc1), "baseline_with_patch": tests.strip(),
                        "how": "selftest/ingest_seed.sh: scratch copy of /repo, demo.py before and after `patch -p1`, pinned baseline suite on the patched copy"}},
          open('/verif/seeded/%s/meta.json' % name, 'w'), indent=1)
PY
  echo "stored in $DST"
else
  echo "NOT KEPT (verification failed)"; tail -5 $S/demo_clean.log; tail -5 $S/demo_patched.log
fi
rm -rf $S
