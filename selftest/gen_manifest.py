#!/venv/bin/python
"""Regenerates /verif/MANIFEST.json from the property modules' metadata."""
import glob
import json
import os
import sys

V = os.path.dirname(os.path.dirname(os.path.abspath(__file__)))
sys.path.insert(0, V)
sys.path.insert(0, '/repo')
import importlib  # noqa

ALL = ['C%02d' % i for i in range(1, 21)]
PENDING_REASON = {}

checks = []
have = set()
for p in sorted(glob.glob(os.path.join(V, 'props', 'c[0-9][0-9]_*.py'))):
    m = importlib.import_module('props.' + os.path.basename(p)[:-3])
    pid = m.PROPERTY
    have.add(pid)
    checks.append({
        'property_id': pid,
        'quick_cmd': '/venv/bin/python /verif/check.py %s quick' % pid,
        'thorough_cmd': '/venv/bin/python /verif/check.py %s thorough' % pid,
        'evidence_file': '/verif/evidence/%s.json' % pid,
        'replay_cmd_template':
            '/venv/bin/python /verif/check.py %s --replay {path}' % pid,
        'engine': 'pbt',
        'level_claimed': {'category': m.LEVEL, 'text': m.LEVEL_TEXT,
                          'design_ref': 'DESIGN.md section 3, ' + pid},
        'level_note': m.LEVEL_NOTE,
        'technique': m.TECHNIQUE,
    })

man = {
    'version': 1,
    'setup_cmd': '/bin/sh /verif/setup.sh',
    'hooks': {
        'guard': 'PYCRAFT_VERIF',
        'enable': 'no hooks are needed: checks import /repo as it is and '
                  'observe it through public API, harness-side subclasses '
                  'and temporary replacement of names in module namespaces',
        'baseline_off_cmd': 'cd /repo && /venv/bin/python -m pytest -ra -q '
                            '-p no:cacheprovider --timeout=900 '
                            '--continue-on-collection-errors',
        'source_commits': [],
        'add_only': True,
    },
    'engines': [{
        'name': 'pbt', 'path': '/verif/check.py',
        'serves_properties': sorted(have),
        'kind_free_text': 'Hypothesis property-based testing, exhaustive '
                          'enumeration of finite sub-domains, stateful '
                          'machines, harness-owned thread schedules and '
                          'in-memory network; explicit reference oracles in '
                          '/verif/vlib sharing no code with pyCraft',
    }],
    'checks': checks,
    'not_applicable': [
        {'property_id': p,
         'reason': PENDING_REASON.get(
             p, 'check not built yet in this round (planned in DESIGN.md); '
                'not claimed until its check is registered')}
        for p in ALL if p not in have],
    'notes': 'Exit codes: 0 held, 1 VIOLATION, 2 harness error / '
             'inconclusive. VERIF_SEED selects the seed. Known findings: '
             '/verif/known_findings.json.',
}
with open(os.path.join(V, 'MANIFEST.json'), 'w') as f:
    json.dump(man, f, indent=1)
print('claimed:', sorted(have))
