"""C16 - connection lifecycle: one active thread, clean refusal, always
reusable.  Call histories under the harness-owned scheduler."""
import json

from hypothesis import strategies as st

from vlib import vnet, servers, sched as S
from vlib.runner import hyp

PROPERTY = 'C16'
LEVEL = 'exploration'
RULE = ('Also (free-running threads): disconnect() while the networking '
        'thread is blocked inside a length prefix / a frame body of a '
        'stalled server: the thread ends, the object connects again. '
'A history = 1-6 (quick) / 1-10 (thorough) calls over {connect, '
        'status, disconnect, disconnect(immediate)} issued by one or two '
        'user threads, an optional behaviour (reconnect from a play '
        'listener, reconnect from an exception handler, disconnect-then-'
        'connect from a login-disconnect handler, connect() straight from '
        'an exception handler), and a server kind per '
        'TCP connection in {refuse, accept and stay silent in play, accept '
        'then play-disconnect, login-disconnect, close mid-stream, '
        'garbage, each of the accepting kinds also with a set-compression '
        'step}; the schedule (Hypothesis-drawn, or all schedules with '
        '<= 1/2 preemptions for the small histories) decides how far the '
        'networking thread(s) get between and during the calls. A finaliser '
        'then calls disconnect(), waits for every networking thread and '
        'connects once more. Oracle: never two threads inside the I/O loop '
        'of one connection (S1); each connect/status returns (exactly one '
        'new TCP connection), raises InvalidState (no TCP connection, '
        'nothing sent) or the refusal error; InvalidState is required when '
        'the connection is definitely active and forbidden when it has '
        'definitely ended (S2); disconnect never raises (S3); after the '
        'final disconnect every networking thread terminates within the '
        'step budget (S4); the final connect succeeds and reaches play, '
        'and every connection the object made was well-formed from its '
        'first byte (S5). Non-trivial: a connect after a non-clean ending or '
        'overlapping calls; distinct by (history, servers, schedule).')
RULE += (' ' +
         'Added in later rounds: servers that close inside a frame; '
         'reconnects from handlers without a disconnect first; disconnect '
         'while the thread is blocked inside a frame of a stalled server; '
         '1100 (thorough 3000) sessions each started from a listener of the '
         'previous one; component refused: connect()/status() on a quiescent '
         'active session (5 protocols x negotiated or pinned x spawned or '
         'not x 4 call sequences) must raise InvalidState and leave spawned, '
         'connected, context version, reactor, socket, stream, thread and '
         'queue unchanged. Round 12: component status_poller - status() '
         're-issued 1-5 times from the latency callback, then connect() or '
         'disconnect()+connect() from it. Round 15: component dead_peer - '
         'disconnect() with 0/1/3 packets queued after the peer reset, the '
         'networking thread parked in a listener (found the defect repaired '
         'by 265c040); component exit_reconnect - the exit callback '
         'reconnects after each of 1-4 kicks, a user connect()/status() on '
         'the resulting session is refused and disturbs nothing. Round 16: '
         'component thread_start - the OS refuses to start the networking '
         'thread of one or two connect()/status() calls (RuntimeError), '
         'disconnect(), then a session that must be served. ')
LEVEL_TEXT = ('Exploration of call histories x server behaviours x thread '
              'schedules under a deterministic scheduler, with a '
              'three-valued model (definitely active / definitely ended / '
              'in transition) so that races the statement does not decide '
              'are not judged.')
LEVEL_NOTE = ('Scheduler yield points as in C12. Survival of a connect() '
              'that overlaps the dying thread\'s clean-up is not asserted '
              '(labelled reconnect_torn_down). Real OS scheduling is not '
              'explored.')
TECHNIQUE = ('stateful history generation + schedule exploration under a '
             'harness-owned scheduler against a three-valued lifecycle model')
ASSUMPTIONS = ['yield points at I/O, lock, queue, thread start/join']

KINDS = ['refuse', 'silent', 'play_disconnect', 'login_disconnect',
         'close_mid', 'garbage',
         # the same with a set-compression step first (per-connection state
         # that must not survive into the next connection of the object)
         'silent_z', 'play_disconnect_z', 'close_mid_z', 'garbage_z']
STATUS_JSON = json.dumps({'version': {'name': 'x', 'protocol': 757},
                          'description': 'x'})


def make_server(kind):
    if kind == 'refuse':
        return 'refuse'
    base = {'version': 757, 'status': {'reply': STATUS_JSON}}
    z = [('compress', 64)] if kind.endswith('_z') else []
    if z:
        kind = kind[:-2]
    srv = _make_server(kind, base)
    if z:
        srv.steps[:0] = z
    return srv


def _make_server(kind, base):
    if kind == 'silent':
        base.update(login=[('success',)], play={'bursts': [], 'end': 'silent'})
    elif kind == 'play_disconnect':
        base.update(login=[('success',)], play={
            'bursts': [[('keep_alive', {'keep_alive_id': 3})]],
            'mode': 'all', 'end': 'disconnect'})
    elif kind == 'login_disconnect':
        base.update(login=[('disconnect', '{"text":"no"}')])
    elif kind == 'close_mid':
        base.update(login=[('success',)], play={
            'bursts': [[('keep_alive', {'keep_alive_id': 3})]],
            'mode': 'all', 'end': 'silent'}, cut=25)
    elif kind == 'garbage':
        base.update(login=[('raw', 0x02, b'\xff' * 40), ('close',)])
    elif kind == 'tagged':      # for reconnect-from-listener
        base.update(login=[('success',)], play={
            'bursts': [[('keep_alive', {'keep_alive_id': 4242})]],
            'mode': 'all', 'end': 'silent'})
    return servers.Server(base)


def run_history(case, schedule):
    from minecraft.networking import connection as C
    from minecraft.exceptions import InvalidState
    from minecraft.networking.packets import clientbound as cb
    programs = case['programs']
    kinds = list(case['servers'])
    behaviour = case.get('behaviour')
    sc = S.Scheduler(schedule, step_budget=case.get('budget', 60000),
                     fine=bool(case.get('fine')))
    made = []

    world = vnet.World(default=None)
    # World.accept consults servers/default; wrap to support refusal kinds
    orig_accept = world.accept

    def accept(addr):
        k = kinds.pop(0) if kinds else 'play_disconnect'
        made.append(k)
        world.servers.insert(0, make_server(k))
        return orig_accept(addr)
    world.accept = accept
    world.scheduler = sc
    res = {'calls': [], 'in_loop_max': 0, 'behaviour_calls': []}
    in_loop = [0]
    saved_deque = C.deque
    exits = []
    with vnet.installed(world):
        SNT = S.install_thread_hooks(world, sc, C)
        base_run = SNT._run

        def _run(self):
            in_loop[0] += 1
            res['in_loop_max'] = max(res['in_loop_max'], in_loop[0])
            try:
                return base_run(self)
            finally:
                in_loop[0] -= 1
        SNT._run = _run
        C.deque = S.make_deque(sc)
        # every lock the library creates from now on is scheduler-aware too
        # (a lock made behind the harness's back would block outside the
        # scheduler's control)
        saved_locks = {n: getattr(C, n) for n in ('RLock', 'Lock')
                       if hasattr(C, n)}
        for n in saved_locks:
            setattr(C, n, lambda *a, **k: S.SchedRLock(sc))
        try:
            conn = C.Connection('localhost', 25565, username='u',
                                allowed_versions={757},
                                handle_exception=False,
                                handle_exit=lambda: exits.append(
                                    world.next_seq()))
            conn._write_lock = S.SchedRLock(sc)
            did = []
            if behaviour == 'listener_reconnect':
                def on_ka(p):
                    if p.keep_alive_id == 4242 and not did:
                        did.append(1)
                        s0 = world.next_seq()
                        try:
                            conn.disconnect()
                            conn.connect()
                            res['behaviour_calls'].append(
                                ('listener', s0, world.next_seq(), None))
                        except Exception as e:
                            res['behaviour_calls'].append(
                                ('listener', s0, world.next_seq(),
                                 type(e).__name__))
                conn.register_packet_listener(on_ka,
                                              cb.play.KeepAlivePacket)
            elif behaviour == 'handler_reconnect':
                def on_exc(exc, info):
                    if not did:
                        did.append(1)
                        s0 = world.next_seq()
                        try:
                            conn.disconnect(immediate=True)
                            conn.connect()
                            res['behaviour_calls'].append(
                                ('handler', s0, world.next_seq(), None))
                        except Exception as e:
                            res['behaviour_calls'].append(
                                ('handler', s0, world.next_seq(),
                                 type(e).__name__))
                conn.register_exception_handler(on_exc)
            elif behaviour == 'handler_reconnect_direct':
                # connect() straight from the handler, without disconnect()
                # (the failed thread is already interrupted;
                # _handle_exception skips its own disconnect then)
                def on_exc2(exc, info):
                    if not did:
                        did.append(1)
                        s0 = world.next_seq()
                        try:
                            conn.connect()
                            res['behaviour_calls'].append(
                                ('handler', s0, world.next_seq(), None))
                        except Exception as e:
                            res['behaviour_calls'].append(
                                ('handler', s0, world.next_seq(),
                                 type(e).__name__))
                conn.register_exception_handler(on_exc2)

            def net_alive():
                return [s.name for s in sc.states
                        if s.name.startswith('net') and s.status != 'done']

            def do_call(ti, op):
                s0 = world.next_seq()
                alive0 = net_alive()
                pending0 = conn.new_networking_thread is not None
                nthreads0 = len(world.threads)
                err = None
                try:
                    if op == 'connect':
                        conn.connect()
                    elif op == 'status':
                        conn.status(handle_status=False)
                    elif op == 'disconnect':
                        conn.disconnect()
                    elif op == 'disconnect_now':
                        if ti == 0:
                            conn.disconnect(True)       # by position
                        else:
                            conn.disconnect(immediate=True)
                except InvalidState:
                    err = 'InvalidState'
                except ConnectionRefusedError:
                    err = 'refused'
                except Exception as e:
                    err = 'other:%s: %s' % (type(e).__name__, e)
                res['calls'].append({
                    'thread': ti, 'op': op, 'enter': s0,
                    'exit': world.next_seq(), 'err': err,
                    'alive_at_enter': alive0, 'pending_at_enter': pending0,
                    'new_threads': len(world.threads) - nthreads0})

            user_states = []

            def settle():
                # let the networking thread(s) run until they only poll
                for _ in range(30):
                    nets = [s_ for s_ in sc.states
                            if s_.name.startswith('net') and
                            s_.status != 'done']
                    if not nets or all(s_.idle_run >= 3 for s_ in nets):
                        break
                    sc.yield_point('idle')
                me = sc._me()
                if me is not None:
                    me.idle_run = 0

            def make(ti, prog):
                def body():
                    for op in prog:
                        if op == 'settle':
                            settle()
                        elif op == 'step':
                            # give the other threads one turn
                            sc.yield_point('idle')
                            me = sc._me()
                            if me is not None:
                                me.idle_run = 0
                        else:
                            do_call(ti, op)
                        sc.yield_point('op')
                return body
            for ti, prog in enumerate(programs):
                user_states.append(sc.spawn(make(ti, prog), 'user%d' % ti))

            def fin():
                for st_ in user_states:
                    sc.join_state(st_)
                do_call('fin', 'disconnect')
                # S4: every networking thread must now terminate
                for t in list(world.threads):
                    t.join()
                res['fin_disconnect_done'] = True
                del kinds[:]        # the final server accepts and ends
                do_call('fin', 'connect')          # S5
                for t in list(world.threads):
                    t.join()
                res['fin_connect_done'] = True
            sc.spawn(fin, 'fin')
            res['outcome'] = sc.run(90.0)
            res['alive'] = sc.join_all(5.0)
        finally:
            C.deque = saved_deque
            for n, v in saved_locks.items():
                setattr(C, n, v)
            SNT._run = base_run
            world.scheduler = None
    res['decisions'] = sc.decisions
    res['timeout_diag'] = sc.timeout_diag
    res['preemptions'] = sc.preemptions
    res['deadlock'] = sc.deadlock
    res['steps'] = sc.steps
    res['made'] = made
    res['connect_log'] = list(world.connect_log)
    res['links'] = world.links
    res['thread_excs'] = [(s.name, repr(s.exc)) for s in sc.states
                          if s.exc is not None]
    res['exits'] = exits
    res['nthreads'] = len(world.threads)
    return res


def check(ctx, case, schedule, r):
    sub = dict(case, schedule=list(schedule))
    if r['outcome'] == 'timeout':
        from vlib.core import HarnessError
        raise HarnessError('C16 history hit the harness wall-clock guard: %r' % (r.get('timeout_diag'),))
    calls = r['calls']
    # S3
    for c in calls:
        if c['op'].startswith('disconnect') and c['err'] is not None:
            ctx.fail('history', 'S3-disconnect-raised', sub,
                     {k: c[k] for k in ('thread', 'op', 'err')})
            return
    user_excs = [e for e in r['thread_excs'] if not e[0].startswith('net')]
    if user_excs:
        ctx.fail('history', 'S-user-thread-crashed', sub, user_excs)
        return
    # S1
    if r['in_loop_max'] > 1:
        ctx.fail('history', 'S1-two-threads-in-io-loop', sub,
                 r['in_loop_max'], 1)
        return
    # S4
    if r['outcome'] == 'deadlock':
        ctx.fail('history', 'S4-deadlock', sub, r['deadlock'])
        return
    if r['outcome'] in ('budget', 'quiescent') and \
            not r.get('fin_connect_done'):
        if not r.get('fin_disconnect_done'):
            ctx.fail('history', 'S4-thread-never-terminates-after-'
                     'disconnect', sub, r['outcome'])
        else:
            ctx.fail('history', 'S5-final-connect-never-finishes', sub,
                     r['outcome'])
        return
    # S2
    conns = [c for c in calls if c['op'] in ('connect', 'status')]
    beh = r['behaviour_calls']
    for c in conns:
        others = [o for o in calls if o is not c]
        overlap = any(o['enter'] < c['exit'] and o['exit'] > c['enter']
                      for o in others if o['thread'] != c['thread'])
        overlap = overlap or any(b[1] < c['exit'] and b[2] > c['enter']
                                 for b in beh)
        mine = [x for x in r['connect_log']
                if c['enter'] < x[0] < c['exit'] and
                x[2] == ('user%s' % c['thread'] if c['thread'] != 'fin'
                         else 'fin')]
        if c['err'] is None:
            if len([x for x in mine if x[1] == 'accepted']) != 1:
                ctx.fail('history', 'S2-returned-without-one-connection',
                         sub, mine)
                return
            if not overlap and c['new_threads'] != 1:
                ctx.fail('history', 'S2-thread-count', sub,
                         c['new_threads'], 1)
                return
        elif c['err'] == 'InvalidState':
            if mine:
                ctx.fail('history', 'S2-invalid-state-but-connected', sub,
                         mine)
                return
            if not overlap and c['new_threads'] != 0:
                ctx.fail('history', 'S2-invalid-state-started-thread', sub)
                return
        elif c['err'] == 'refused':
            if not overlap and c['new_threads'] != 0:
                ctx.fail('history', 'S2-refused-started-thread', sub)
                return
        else:
            ctx.fail('history', 'S2-unexpected-error', sub, c['err'])
            return
        # three-valued activity model (only without behaviours/overlap)
        if overlap or beh or case.get('behaviour'):
            ctx.label('s2_not_judged_overlap_or_behaviour')
            continue
        before = [o for o in calls if o['exit'] < c['enter']]
        last_conn = None
        for o in before:
            if o['op'] in ('connect', 'status') and o['err'] is None:
                last_conn = o
        ended = None
        if last_conn is None:
            ended = True            # never connected (or only refused)
        else:
            discs = [o for o in before if o['op'].startswith('disconnect')
                     and o['enter'] > last_conn['exit']]
            # a disconnect that overlapped the connect may have run before
            # or after it took effect: undecided
            overl = [o for o in calls if o['op'].startswith('disconnect')
                     and o['enter'] < last_conn['exit'] and
                     o['exit'] > last_conn['enter'] and
                     o['enter'] < c['enter']]
            if discs:
                ended = True
            elif overl:
                ended = None
            elif not c['alive_at_enter']:
                ended = True
            else:
                # which server did the last successful connect reach?
                idx = [x for x in r['connect_log']
                       if x[1] == 'accepted' and x[0] < last_conn['exit']]
                kind = r['made_accepted'][len(idx) - 1] \
                    if len(idx) - 1 < len(r['made_accepted']) else None
                if kind in ('silent', 'silent_z') and last_conn['op'] == 'connect':
                    ended = False
        if ended is True and c['err'] == 'InvalidState':
            # a successor thread from an earlier disconnect+connect was
            # still pending (it had not yet taken over from its predecessor)
            clause = 'S2-refused-while-successor-pending' \
                if c['pending_at_enter'] else 'S2-refused-although-ended'
            f = ctx.fail('history', clause, sub,
                         {k: c[k] for k in ('thread', 'op', 'enter',
                                            'alive_at_enter',
                                            'pending_at_enter')})
            if f is not None:
                return
            ctx.label('known_successor_pending')
            continue
        if ended is False and c['err'] != 'InvalidState':
            ctx.fail('history', 'S2-accepted-although-active', sub,
                     {k: c[k] for k in ('thread', 'op', 'enter', 'err')})
            return
        ctx.label('s2_%s' % {True: 'ended', False: 'active',
                             None: 'transition'}[ended])
    for b in beh:
        # (a user call that overlaps the callback's own connect may win the
        # race: then the refusal is the correct answer)
        if any(c['enter'] < b[2] and c['exit'] > b[1] for c in calls):
            ctx.label('callback_reconnect_raced_with_user_call')
            continue
        if b[3] == 'InvalidState':
            # may legitimately fail only if torn down; a plain InvalidState
            # from inside the connection's own callback after disconnect()
            # is a violation
            ctx.fail('history', 'S2-reconnect-from-callback-failed', sub, b)
            return
    # S5: every connection the object made spoke well-formed protocol from
    # its first byte (no framing or cipher state left over from an earlier
    # connection of the same object)
    for li, link in enumerate(r['links']):
        errs = getattr(link.script, 'errors', None)
        if errs:
            ctx.fail('history', 'S5-malformed-stream-on-later-connection',
                     sub, {'link': li, 'errors': errs[:3]})
            return
    # S5: the final connect succeeded
    fin_conn = [c for c in calls if c['thread'] == 'fin' and
                c['op'] == 'connect']
    if not fin_conn or fin_conn[0]['err'] is not None:
        ctx.fail('history', 'S5-cannot-connect-again', sub,
                 fin_conn[0]['err'] if fin_conn else 'not reached')
        return
    last_link = r['links'][-1] if r['links'] else None
    if last_link is None or getattr(last_link.script, 'replies', None) != \
            [('keep_alive', 3)]:
        ctx.fail('history', 'S5-final-session-did-not-reach-play', sub,
                 getattr(last_link.script, 'replies', None)
                 if last_link else None, [('keep_alive', 3)])
        return
    nonclean = any(k in ('refuse', 'login_disconnect', 'close_mid',
                         'garbage', 'close_mid_z', 'garbage_z')
                   for k in r['made'][:-1])
    if nonclean or r['preemptions'] >= 1:
        ctx.nt(repr(case), tuple(schedule))
    ctx.label('outcome_' + r['outcome'])


def history_case(ctx, case):
    ctx.ev()
    sch = list(case.get('schedule') or [])
    r = run_history(case, sch)
    r['made_accepted'] = [k for k in r['made'] if k != 'refuse']
    check(ctx, case, sch, r)
    return r


def stalled_case(ctx, case):
    """disconnect() 'always leads to the networking thread terminating' -
    also while that thread is blocked in the middle of a frame that a
    stalled server never completes (free-running threads on the in-memory
    network; the read can only be ended by the client itself).
    case {version, compress, where: 'prefix'|'body'|'idle', immediate}"""
    import time
    from vlib import wire
    version = case['version']
    ctx.ev()
    login = [('compress', case['compress'])] \
        if case.get('compress') is not None else []
    first = servers.Server({'version': version, 'login': login +
                            [('success',)],
                            'play': {'bursts': [], 'end': 'silent'}})
    second = servers.Server({'version': version, 'login': [('success',)],
                             'play': {'bursts': [[('keep_alive',
                                                   {'keep_alive_id': 3})]],
                                      'mode': 'all', 'end': 'disconnect'}})
    world = vnet.World(servers=[first, second])
    world.block_guard = 4.0
    errs = []
    with vnet.installed(world):
        conn, o = servers.make_connection(world, allowed_versions={version})
        try:
            conn.connect()
            for _ in range(3000):
                if world.links and first.play_started:
                    break
                time.sleep(0.001)
            link = world.links[0]
            if not world.wait_idle(link, conn):
                from vlib.core import HarnessError
                raise HarnessError('C16 stalled: login did not settle')
            part = {'prefix': b'\xe4', 'idle': b'',
                    'body': wire.varint(100) + b'\x00' * 10}[case['where']]
            if part:
                r0 = link.reads
                link.emit(part)
                # wait until the client has taken every byte and asked for
                # more (it now sits in a read that only it can end)
                for _ in range(4000):
                    if not link.s2c and link.reads > r0 + (
                            1 if case['where'] == 'prefix' else 1):
                        break
                    time.sleep(0.001)
                time.sleep(0.05)
            t0 = time.monotonic()
            conn.disconnect(immediate=bool(case.get('immediate')))
            state = world.settle(timeout=20.0)
            took = time.monotonic() - t0
        except Exception as e:
            if type(e).__name__ == 'HarnessError':
                raise
            ctx.fail('stalled', 'S3-disconnect-raised', case, exc=e)
            world.kill_all()
            return
        if state != 'done' or world.blocked:
            ctx.fail('stalled', 'S4-thread-never-terminates-after-disconnect',
                     case, 'networking thread still blocked in read %.1fs '
                     'after disconnect() returned (%s)' % (took, state),
                     'terminates')
            world.kill_all()
            return
        try:
            conn.connect()
            state2 = world.settle(timeout=20.0)
        except Exception as e:
            ctx.fail('stalled', 'S5-cannot-connect-again', case, exc=e)
            return
    if state2 != 'done' or second.replies != [('keep_alive', 3)]:
        ctx.fail('stalled', 'S5-final-session-did-not-reach-play', case,
                 (state2, second.replies), ('done', [('keep_alive', 3)]))
        return
    if case['where'] != 'idle':
        ctx.nt('stalled', repr(case))
    ctx.label('stalled_' + case['where'])


def many_reconnects_case(ctx, case):
    """'... the same object can connect again, including from inside its own
    listeners' - not only a few times: n sessions in a row, each started by
    a listener of the previous one (disconnect(); connect()), then one more
    from the user thread.  case {version, n}"""
    import time
    version, n = case['version'], case['n']
    ctx.ev()
    count = [0]

    def factory(addr):
        return servers.Server({
            'version': version, 'login': [('success',)],
            'play': {'bursts': [[('keep_alive', {'keep_alive_id': 7})]],
                     'mode': 'all', 'end': 'silent'}})
    world = vnet.World(default=factory)
    world.max_connects = n + 10
    errs = []
    with vnet.installed(world):
        conn, o = servers.make_connection(world, allowed_versions={version})
        from minecraft.networking.packets import clientbound as cb

        def on_ka(p):
            count[0] += 1
            if count[0] < n:
                try:
                    conn.disconnect()
                    conn.connect()
                except Exception as e:
                    errs.append(e)
        conn.register_packet_listener(on_ka, cb.play.KeepAlivePacket)
        try:
            conn.connect()
            deadline = time.monotonic() + 120
            last = (-1, time.monotonic())
            while count[0] < n and not errs and time.monotonic() < deadline:
                if count[0] != last[0]:
                    last = (count[0], time.monotonic())
                elif time.monotonic() - last[1] > 8:
                    break               # no progress: stuck
                time.sleep(0.005)
            reached = count[0]
            conn.disconnect()
            state = world.settle(timeout=20.0)
            again = None
            if state == 'done':
                count[0] = n            # the listener stays passive now
                conn.connect()
                for _ in range(4000):
                    if world.links[-1].script.replies:
                        break
                    time.sleep(0.001)
                again = list(world.links[-1].script.replies)
                conn.disconnect()
                world.settle(timeout=20.0)
        except Exception as e:
            ctx.fail('many_reconnects', 'S5-cannot-connect-again', case,
                     exc=e)
            world.kill_all()
            return
    if errs or reached < n:
        ctx.fail('many_reconnects', 'S5-cannot-connect-again', case,
                 'stopped after %d of %d sessions started from a listener; '
                 '%r' % (reached, n, errs[:1]), '%d sessions' % n)
        world.kill_all()
        return
    if state != 'done':
        ctx.fail('many_reconnects',
                 'S4-thread-never-terminates-after-disconnect', case, state)
        world.kill_all()
        return
    if again != [('keep_alive', 7)]:
        ctx.fail('many_reconnects', 'S5-final-session-did-not-reach-play',
                 case, again, [('keep_alive', 7)])
        return
    ctx.nt('many', repr(case))
    ctx.label('many_reconnects_%d' % n)


def refused_case(ctx, case):
    """'connect() or status() on a connection that is still active fails
    with an invalid-state error and leaves the active connection
    undisturbed': every public piece of the active session's state is the
    same after the refused call as before it, and the session goes on
    answering.  The session is quiescent while the calls are made (free-
    running threads on the in-memory network), so any difference is the
    refused call's doing.
    case {version, negotiate, pos, compress, ops [connect|status]}"""
    import json
    import time
    from minecraft.exceptions import InvalidState
    version = case['version']
    ctx.ev()
    other = 757 if version != 757 else 578
    login = [('compress', case['compress'])] \
        if case.get('compress') is not None else []
    bursts = [[('keep_alive', {'keep_alive_id': 1})]]
    if case.get('pos'):
        v = {'x': 1.0, 'y': 64.0, 'z': -3.0, 'yaw': 0.0, 'pitch': 0.0,
             'flags': 0}
        lay = dict(servers.packet_info(version, 'pos_look')[1])
        if 'teleport_id' in lay:
            v['teleport_id'] = 7
        if 'dismount_vehicle' in lay:
            v['dismount_vehicle'] = False
        bursts.insert(0, [('pos_look', v)])
    main = servers.Server({'version': version, 'login': login +
                           [('success',)],
                           'play': {'bursts': bursts, 'mode': 'all',
                                    'end': 'silent'}})
    srvs = [main]
    kw = {'allowed_versions': {version}}
    if case.get('negotiate'):
        # negotiated session at a version that is not the default one
        srvs.insert(0, servers.Server({
            'version': version,
            'status': {'reply': json.dumps({
                'version': {'name': 'x', 'protocol': version},
                'description': {'text': 'hi'},
                'players': {'max': 1, 'online': 0}}),
                'close_after_reply': True}}))
        kw = {'allowed_versions': {version, other},
              'initial_version': other}
    extra = []

    def more(addr):
        extra.append(addr)
        return servers.Server({'version': version, 'login': [('success',)],
                               'play': {'bursts': [], 'end': 'disconnect'}})
    world = vnet.World(servers=list(srvs), default=more)

    def snap(conn):
        q = getattr(conn, '_outgoing_packet_queue', None)
        return {'spawned': conn.spawned, 'connected': conn.connected,
                'protocol_version': conn.context.protocol_version,
                'reactor': type(conn.reactor).__name__,
                'socket': id(conn.socket), 'stream': id(conn.file_object),
                'thread': id(conn.networking_thread),
                'pending_thread': id(conn.new_networking_thread)
                if hasattr(conn, 'new_networking_thread') else None,
                'queued': len(q) if q is not None else None}
    with vnet.installed(world):
        conn, o = servers.make_connection(world, **kw)
        try:
            conn.connect()
            for _ in range(5000):
                if main.play_started and main.link is not None and \
                        main.reply_frames >= main.expected_replies > 0:
                    break
                if o.exceptions:
                    break
                time.sleep(0.001)
            link = main.link
            if o.exceptions or link is None or \
                    not world.wait_idle(link, conn):
                if o.exceptions:
                    # not a matter of timing: the client reported an error
                    # in a session with a well-behaved server, so there is
                    # no active session to refuse anything on
                    ctx.fail('refused', 'S2-session-to-refuse-on-failed',
                             case, [repr(e[0]) for e in o.exceptions][:2],
                             'the session before the refused call is up')
                    world.kill_all()
                    return
                from vlib.core import HarnessError
                raise HarnessError('C16 refused: session did not settle')
            if case.get('pos') and not conn.spawned:
                # (C11's business; here it is only the pre-history)
                ctx.label('refused_prehistory_not_spawned')
            for op in case['ops']:
                before = snap(conn)
                err = None
                try:
                    if op == 'connect':
                        conn.connect()
                    else:
                        conn.status(handle_status=False)
                except InvalidState:
                    err = 'InvalidState'
                except Exception as e:
                    err = '%s: %s' % (type(e).__name__, e)
                after = snap(conn)
                if err != 'InvalidState':
                    ctx.fail('refused', 'S2-call-on-active-connection', dict(
                        case, op=op), err, 'InvalidState')
                    break
                if after != before:
                    diff = {k: (before[k], after[k]) for k in before
                            if before[k] != after[k]}
                    ctx.fail('refused', 'S2-refused-call-changed-state',
                             dict(case, op=op), repr(diff), 'no change')
                    break
            # the session goes on undisturbed
            main.send_item(('keep_alive', {'keep_alive_id': 2}))
            world.wait_idle(link, conn)
            if main.replies[-1:] != [('keep_alive', 2)] or main.errors or \
                    extra or o.exceptions:
                ctx.fail('refused', 'S2-active-session-disturbed', case,
                         (main.replies[-2:], main.errors[:2], extra,
                          [repr(e[0]) for e in o.exceptions]),
                         'keep-alive 2 answered, no further connection')
            conn.disconnect()
            state = world.settle(timeout=20.0)
        except Exception as e:
            if type(e).__name__ == 'HarnessError':
                world.kill_all()
                raise
            ctx.fail('refused', 'S2-raised', case, exc=e)
            world.kill_all()
            return
    if state != 'done':
        ctx.fail('refused', 'S4-thread-not-terminated', case, state)
        world.kill_all()
        return
    ctx.nt('refused', repr(case))
    ctx.label('refused')


def status_poller_case(ctx, case):
    """'After a connection ends ... the same object can connect again,
    including from inside its own listeners and handlers': the latency
    callback of a status query is called when that query is over, and a
    poller re-issues status() from it (rounds times) and finally connects
    (or: disconnect(), then connect()) to play.  case {version, rounds,
    then: 'status'|'connect'|'disconnect_connect', hs: bool}"""
    import json
    from minecraft.exceptions import InvalidState
    version, rounds = case['version'], case['rounds']
    ctx.ev()
    reply = json.dumps({'version': {'name': 'x', 'protocol': version},
                        'description': {'text': 'hi'},
                        'players': {'max': 1, 'online': 0}})
    srvs = [servers.Server({'version': version, 'status': {'reply': reply}})
            for _ in range(rounds)]
    play = servers.Server({'version': version, 'login': [('success',)],
                           'play': {'bursts': [[('keep_alive',
                                                 {'keep_alive_id': 9})]],
                                    'mode': 'reactive',
                                    'end': 'disconnect'}})
    final = case['then'] != 'status'
    world = vnet.World(servers=srvs + ([play] if final else []))
    log = []
    with vnet.installed(world):
        conn, o = servers.make_connection(world, allowed_versions={version})

        def on_ping(latency):
            log.append(('ping', len(world.links)))
            try:
                if len(world.links) < rounds:
                    conn.status(handle_status=on_status if case.get('hs')
                                else False, handle_ping=on_ping)
                elif case['then'] == 'connect':
                    conn.connect()
                elif case['then'] == 'disconnect_connect':
                    conn.disconnect()
                    conn.connect()
            except InvalidState as e:
                log.append(('refused', str(e)))
            except Exception as e:
                log.append(('raised', repr(e)))

        def on_status(st_):
            log.append(('status', len(world.links)))
        try:
            conn.status(handle_status=on_status if case.get('hs') else False,
                        handle_ping=on_ping)
        except Exception as e:
            ctx.fail('status_poller', 'S5-status-raised', case, exc=e)
            return
        state = world.settle(timeout=30.0)
    if state == 'timeout':
        from vlib.core import HarnessError
        raise HarnessError('C16 status poller did not settle')
    bad = [x for x in log if x[0] in ('refused', 'raised')]
    if bad:
        ctx.fail('status_poller', 'S5-reconnect-from-callback-refused', case,
                 bad[:2], 'accepted: the status session was over')
        return
    if state != 'done':
        ctx.fail('status_poller', 'S4-thread-not-terminated', case, state)
        world.kill_all()
        return
    want_links = rounds + (1 if final else 0)
    pings = [x for x in log if x[0] == 'ping']
    if len(world.links) != want_links or len(pings) != rounds or \
            any(s_.errors for s_ in srvs) or o.exceptions:
        ctx.fail('status_poller', 'S5-sessions', case,
                 (len(world.links), len(pings),
                  [repr(e[0]) for e in o.exceptions][:2]),
                 (want_links, rounds, []))
        return
    if final and (play.replies != [('keep_alive', 9)] or play.errors):
        ctx.fail('status_poller', 'S5-session-started-from-callback-'
                 'did-not-run', case, (play.replies, play.errors[:2]),
                 [('keep_alive', 9)])
        return
    ctx.nt('status_poller', repr(case))
    ctx.label('status_poller')


def dead_peer_disconnect_case(ctx, case):
    """'disconnect() may be called in any state ... without raising, and
    always leads to the networking thread terminating' - also when packets
    are still queued and the peer is already gone (reset), so that the flush
    inside disconnect() cannot be written.  The networking thread is parked
    in a listener meanwhile (it has not seen the end of the stream yet).
    case {version, compress, queued, immediate, then_connect}"""
    import threading
    import time
    from minecraft.networking.packets import serverbound as sb, Packet
    version = case['version']
    ctx.ev()
    login = [('compress', case['compress'])] \
        if case.get('compress') is not None else []
    first = servers.Server({'version': version, 'login': login +
                            [('success',)],
                            'play': {'bursts': [[('raw', 0x7B, b'go')]],
                                     'mode': 'all', 'end': 'silent'}})
    second = servers.Server({'version': version, 'login': [('success',)],
                             'play': {'bursts': [[('keep_alive',
                                                   {'keep_alive_id': 3})]],
                                      'mode': 'reactive',
                                      'end': 'disconnect'}})
    world = vnet.World(servers=[first, second])
    parked, release = threading.Event(), threading.Event()
    raised = None
    with vnet.installed(world):
        conn, o = servers.make_connection(world, allowed_versions={version})

        def park(p):
            if p.id == 0x7B and not parked.is_set():
                parked.set()
                release.wait(20)
        conn.register_packet_listener(park, Packet)
        late_out = []
        conn.register_packet_listener(
            lambda p: late_out.append(p.message), sb.play.ChatPacket,
            outgoing=True)
        try:
            conn.connect()
            if not parked.wait(20):
                from vlib.core import HarnessError
                raise HarnessError('C16 dead peer: listener never ran')
            first.reset_on_close = True
            first.close()
            for i in range(case['queued']):
                conn.write_packet(sb.play.ChatPacket(message='q%d' % i))
            try:
                conn.disconnect(immediate=case.get('immediate', False))
            except Exception as e:
                raised = e
            release.set()
            state = world.settle(timeout=20.0)
            x5 = None
            if case.get('then_connect') and state == 'done':
                conn.connect()
                x5 = world.settle(timeout=20.0)
        except Exception as e:
            if type(e).__name__ == 'HarnessError':
                world.kill_all()
                raise
            ctx.fail('dead_peer', 'S3-raised', case, exc=e)
            world.kill_all()
            return
    if raised is not None:
        ctx.fail('dead_peer', 'S3-disconnect-raised', case, exc=raised)
        world.kill_all()
        return
    if late_out:
        # (C13: 'ordinary outgoing listeners run after it has been written' -
        # nothing can be written to a peer that is gone)
        ctx.fail('dead_peer', 'D3-late-outgoing-listener-for-unwritten-'
                 'packet', case, late_out[:4], [])
        return
    if state != 'done':
        ctx.fail('dead_peer', 'S4-thread-never-terminates-after-disconnect',
                 case, state)
        world.kill_all()
        return
    if case.get('then_connect') and (
            x5 != 'done' or second.replies != [('keep_alive', 3)]):
        ctx.fail('dead_peer', 'S5-cannot-connect-again', case,
                 (x5, second.replies), ('done', [('keep_alive', 3)]))
        return
    ctx.nt('dead_peer', repr(case))
    ctx.label('dead_peer_disconnect')


def exit_reconnect_case(ctx, case):
    """'... the same object can connect again, including from inside its own
    listeners and handlers': the exit callback (handle_exit) starts the next
    session when the server ended the last one.  That session is then the
    active one: a connect()/status() from the user is refused with
    InvalidState and disturbs nothing, disconnect() ends it, and every
    thread terminates.  case {version, rounds, then: 'connect'|'status'}"""
    import time
    from minecraft.exceptions import InvalidState
    version, rounds = case['version'], case['rounds']
    ctx.ev()
    kicked = [servers.Server({'version': version, 'login': [('success',)],
                              'play': {'bursts': [[('keep_alive',
                                                    {'keep_alive_id': 7})]],
                                       'mode': 'reactive',
                                       'end': 'disconnect'}})
              for _ in range(rounds)]
    last = servers.Server({'version': version, 'login': [('success',)],
                           'play': {'bursts': [[('keep_alive',
                                                 {'keep_alive_id': 8})]],
                                    'mode': 'all', 'end': 'silent'}})
    extra = []

    def more(addr):
        extra.append(addr)
        return servers.Server({'version': version, 'login': [('success',)],
                               'status': {'reply': '{"version":{"protocol":'
                                          '%d}}' % version},
                               'play': {'bursts': [], 'end': 'disconnect'}})
    world = vnet.World(servers=kicked + [last], default=more)
    log = []
    with vnet.installed(world):
        def on_exit():
            log.append(('exit', len(world.links)))
            if len(world.links) <= rounds:
                try:
                    conn.connect()
                except Exception as e:
                    log.append(('raised', repr(e)))
        conn, o = servers.make_connection(world, allowed_versions={version},
                                          handle_exit=on_exit)
        try:
            conn.connect()
            for _ in range(8000):
                if last.play_started and last.replies:
                    break
                time.sleep(0.001)
            if not last.replies:
                ctx.fail('exit_reconnect', 'S5-reconnect-from-exit-callback-'
                         'failed', case, (log[-3:], len(world.links)),
                         '%d sessions' % (rounds + 1))
                world.kill_all()
                return
            world.wait_idle(last.link, conn)
            err = None
            try:
                if case['then'] == 'connect':
                    conn.connect()
                else:
                    conn.status(handle_status=False)
            except InvalidState:
                err = 'InvalidState'
            except Exception as e:
                err = repr(e)
            if err != 'InvalidState':
                ctx.fail('exit_reconnect', 'S2-accepted-although-active',
                         case, err, 'InvalidState')
                world.kill_all()
                return
            last.send_item(('keep_alive', {'keep_alive_id': 9}))
            world.wait_idle(last.link, conn)
            alive = last.replies[-1:] == [('keep_alive', 9)] and \
                not last.errors and not extra
            excs = [repr(e[0]) for e in o.exceptions]
            conn.disconnect()
            state = world.settle(timeout=20.0)
        except Exception as e:
            ctx.fail('exit_reconnect', 'S5-raised', case, exc=e)
            world.kill_all()
            return
    if not alive:
        ctx.fail('exit_reconnect', 'S2-active-session-disturbed', case,
                 (last.replies[-2:], last.errors[:2], extra))
        return
    if state != 'done':
        ctx.fail('exit_reconnect', 'S4-thread-not-terminated', case, state)
        world.kill_all()
        return
    if any(x[0] == 'raised' for x in log) or excs:
        ctx.fail('exit_reconnect', 'S5-reconnect-from-exit-callback-failed',
                 case, ([x for x in log if x[0] == 'raised'][:2], excs[:2]))
        return
    ctx.nt('exit_reconnect', repr(case))
    ctx.label('exit_reconnect')


def thread_start_failure_case(ctx, case):
    """'After a connection ends for any reason ... the same object can
    connect again': the reason here is that the operating system refused to
    start the networking thread of connect() / status() (RuntimeError from
    Thread.start under a thread or memory limit).  The caller sees that
    error; disconnect() then works and the next connect() is served.
    case {version, first: 'connect'|'status', fail: [n..], then}"""
    version = case['version']
    ctx.ev()
    reply = '{"version":{"protocol":%d,"name":"x"},"description":"d"}' \
        % version

    def mk():
        return servers.Server({
            'version': version, 'login': [('success',)],
            'status': {'reply': reply},
            'play': {'bursts': [[('keep_alive', {'keep_alive_id': 4})]],
                     'mode': 'reactive', 'end': 'disconnect'}})
    srvs = []

    def factory(addr):
        srvs.append(mk())
        return srvs[-1]
    world = vnet.World(default=factory)
    world.fail_thread_start = set(case['fail'])
    errs = []
    with vnet.installed(world):
        conn, o = servers.make_connection(world, allowed_versions={version})
        try:
            for k in range(len(case['fail'])):
                try:
                    if case['first'] == 'connect':
                        conn.connect()
                    else:
                        conn.status(handle_status=False)
                    errs.append(None)
                except RuntimeError as e:
                    errs.append(str(e))
                conn.disconnect()
            if errs != ["can't start new thread"] * len(case['fail']):
                from vlib.core import HarnessError
                raise HarnessError('C16 thread start: fault not injected %r'
                                   % (errs,))
            if case.get('then', 'connect') == 'connect':
                conn.connect()
            else:
                conn.status(handle_status=False)
            state = world.settle(timeout=20.0)
        except Exception as e:
            if type(e).__name__ == 'HarnessError':
                world.kill_all()
                raise
            ctx.fail('thread_start', 'S5-cannot-connect-again', case, exc=e)
            world.kill_all()
            return
    last = srvs[-1] if srvs else None
    served = last is not None and not last.errors and (
        last.replies == [('keep_alive', 4)]
        if case.get('then', 'connect') == 'connect'
        else last.status_requests == 1)
    if state != 'done' or not served or o.exceptions:
        ctx.fail('thread_start', 'S5-cannot-connect-again', case,
                 (state, last.replies if last else None,
                  [repr(e[0]) for e in o.exceptions][:2]),
                 'the session after the failed start is served')
        world.kill_all()
        return
    ctx.nt('thread_start', repr(case))
    ctx.label('thread_start_failure')


def thread_exit_case(ctx, case):
    """'after a connection ends for any reason ... the same object can
    connect again': the networking thread is ended from inside by something
    that is not an error to be handled - a listener calls sys.exit() (the
    interpreter ends the *thread*, silently), or lets a KeyboardInterrupt /
    GeneratorExit / BaseException of its own through.  No thread performs
    I/O any more, so the next connect()/status() is served, that session is
    the active one (a further connect() is refused, disturbs nothing) and
    disconnect() ends it.
    case {version, exc: name, where: 'listener'|'early'|'outgoing',
          then: 'connect'|'status'}"""
    import time
    from minecraft.exceptions import InvalidState
    from minecraft.networking.packets import clientbound as cb, \
        serverbound as sb
    version = case['version']
    ctx.ev()

    class Leave(BaseException):
        pass
    klass = {'SystemExit': SystemExit, 'KeyboardInterrupt': KeyboardInterrupt,
             'GeneratorExit': GeneratorExit, 'BaseException': Leave}[
                 case['exc']]
    first = servers.Server({'version': version, 'login': [('success',)],
                            'play': {'bursts': [[('keep_alive',
                                                  {'keep_alive_id': 7})]],
                                     'mode': 'all', 'end': 'silent'}})
    second = servers.Server({'version': version, 'login': [('success',)],
                             'status': {'reply': '{"version":{"protocol":'
                                        '%d}}' % version},
                             'play': {'bursts': [[('keep_alive',
                                                   {'keep_alive_id': 8})]],
                                      'mode': 'all', 'end': 'silent'}})
    world = vnet.World(servers=[first, second])
    fired = []
    statuses = []
    with vnet.installed(world):
        conn, o = servers.make_connection(world, allowed_versions={version})

        def leave(p):
            if not fired:
                fired.append(1)
                raise klass()
        if case['where'] == 'outgoing':
            conn.register_packet_listener(leave, sb.play.KeepAlivePacket,
                                          outgoing=True)
        else:
            conn.register_packet_listener(leave, cb.play.KeepAlivePacket,
                                          early=case['where'] == 'early')
        try:
            conn.connect()
            state = world.settle(timeout=20.0)
            if not fired or state != 'done':
                if state == 'timeout' or not fired:
                    from vlib.core import HarnessError
                    raise HarnessError('C16 thread_exit: first session did '
                                       'not end (%s)' % state)
                ctx.fail('thread_exit', 'S4-thread-not-terminated', case,
                         state)
                world.kill_all()
                return
            err = None
            try:
                if case['then'] == 'connect':
                    conn.connect()
                else:
                    conn.status(handle_status=statuses.append,
                                handle_ping=False)
            except Exception as e:
                err = repr(e)
            if err is not None:
                ctx.fail('thread_exit', 'S3-not-reusable-after-thread-exit',
                         case, err, 'a new session')
                world.kill_all()
                return
            if case['then'] == 'status':
                state2 = world.settle(timeout=20.0)
                if statuses != [{'version': {'protocol': version}}] or \
                        state2 != 'done':
                    ctx.fail('thread_exit', 'S3-status-after-thread-exit',
                             case, (statuses, state2))
                    world.kill_all()
                    return
            else:
                for _ in range(8000):
                    if second.replies or o.exceptions:
                        break
                    time.sleep(0.001)
                world.wait_idle(second.link, conn)
                if second.replies != [('keep_alive', 8)] or second.errors:
                    ctx.fail('thread_exit', 'S3-session-after-thread-exit',
                             case, (second.replies, second.errors[:2],
                                    [repr(e[0]) for e in o.exceptions][:2]))
                    world.kill_all()
                    return
                try:
                    conn.connect()
                    err = 'accepted'
                except InvalidState:
                    err = None
                except Exception as e:
                    err = repr(e)
                if err:
                    ctx.fail('thread_exit', 'S2-accepted-although-active',
                             case, err, 'InvalidState')
                    world.kill_all()
                    return
                conn.disconnect()
                conn.disconnect()
                state2 = world.settle(timeout=20.0)
                if state2 != 'done':
                    ctx.fail('thread_exit', 'S4-thread-not-terminated', case,
                             state2)
                    world.kill_all()
                    return
        except Exception as e:
            if type(e).__name__ == 'HarnessError':
                world.kill_all()
                raise
            ctx.fail('thread_exit', 'S-raised', case, exc=e)
            world.kill_all()
            return
    ctx.nt('thread_exit', repr(case))
    ctx.label('thread_ended_by_' + case['exc'])


def t_thread_exit(ctx):
    k = 0
    for v in (757, 47):
        for exc in ('SystemExit', 'KeyboardInterrupt', 'GeneratorExit',
                    'BaseException'):
            for where in ('listener', 'early', 'outgoing'):
                k += 1
                thread_exit_case(ctx, {'version': v, 'exc': exc,
                                       'where': where,
                                       'then': ('connect', 'status')[k % 2]})
    thread_exit_case(ctx, {'version': 340, 'exc': 'SystemExit',
                           'where': 'listener', 'then': 'connect'})
    thread_exit_case(ctx, {'version': 340, 'exc': 'SystemExit',
                           'where': 'listener', 'then': 'status'})
    ctx.sample({'version': 340, 'exc': 'SystemExit', 'where': 'listener',
                'then': 'connect'}, 'thread_exit')
    ctx.exhaustive_done('thread ended by SystemExit / KeyboardInterrupt / '
                        'GeneratorExit / a BaseException from 3 listener '
                        'kinds at 2 protocols, then connect() or status()')


COMPONENTS = {'thread_start': thread_start_failure_case,
              'thread_exit': thread_exit_case,
              'exit_reconnect': exit_reconnect_case,
              'dead_peer': dead_peer_disconnect_case,
              'status_poller': status_poller_case,
              'history': history_case, 'stalled': stalled_case,
              'many_reconnects': many_reconnects_case,
              'refused': refused_case}

OPS = ['connect', 'status', 'disconnect', 'disconnect_now', 'settle',
       'step']

SMALL = [
    {'programs': [['disconnect', 'connect']], 'servers': ['silent']},
    {'programs': [['connect', 'connect', 'disconnect']],
     'servers': ['silent']},
    {'programs': [['connect', 'disconnect', 'connect']],
     'servers': ['refuse', 'silent']},
    {'programs': [['connect'], ['disconnect_now', 'connect']],
     'servers': ['silent', 'silent']},
    {'programs': [['connect', 'disconnect', 'disconnect']],
     'servers': ['play_disconnect']},
    {'programs': [['status', 'connect']], 'servers': ['silent', 'close_mid']},
    {'programs': [['connect'], ['connect']],
     'servers': ['login_disconnect', 'silent']},
    {'programs': [['connect', 'settle']], 'servers': ['tagged', 'silent'],
     'behaviour': 'listener_reconnect'},
    {'programs': [['connect', 'settle', 'disconnect']],
     'servers': ['garbage', 'silent'], 'behaviour': 'handler_reconnect'},
    {'programs': [['connect', 'settle', 'connect', 'disconnect']],
     'servers': ['play_disconnect', 'silent']},
    {'programs': [['connect', 'settle', 'disconnect']],
     'servers': ['garbage_z', 'silent'],
     'behaviour': 'handler_reconnect_direct'},
    {'programs': [['connect', 'settle', 'status', 'settle', 'connect']],
     'servers': ['play_disconnect_z', 'silent', 'silent']},
    {'programs': [['connect', 'settle', 'connect', 'settle', 'connect']],
     'servers': ['login_disconnect', 'close_mid', 'silent']},
    {'programs': [['connect', 'disconnect', 'connect', 'disconnect',
                   'connect', 'disconnect', 'connect']],
     'servers': ['silent', 'silent', 'silent', 'silent']},
    {'programs': [['connect', 'disconnect', 'connect', 'disconnect', 'step',
                   'connect', 'step', 'disconnect']],
     'servers': ['silent', 'silent', 'silent']},
    {'programs': [['connect', 'disconnect', 'connect', 'disconnect',
                   'connect', 'step', 'connect', 'step', 'connect',
                   'disconnect']],
     'servers': ['silent', 'silent', 'silent', 'silent', 'silent']},
    {'programs': [['connect', 'step', 'disconnect', 'step', 'connect',
                   'disconnect', 'step', 'step', 'connect']],
     'servers': ['silent', 'silent', 'silent']},
]


def t_enumerate(ctx, index, maxpre, limit, shard=(0, 1)):
    case = SMALL[index]

    def one(s):
        ctx.ev()
        r = run_history(case, s)
        r['made_accepted'] = [k for k in r['made'] if k != 'refuse']
        check(ctx, case, s, r)
        return r['decisions']
    seen_fail = [None]

    def stop():
        # a violation was found: run 40 more schedules (other root causes),
        # then stop instead of re-finding it thousands of times
        if ctx.failures and seen_fail[0] is None:
            seen_fail[0] = ctx.evaluations
        return seen_fail[0] is not None and \
            ctx.evaluations - seen_fail[0] > 40
    n, complete = S.enumerate_schedules(one, maxpre, limit, tuple(shard),
                                        stop)
    ctx.sample(dict(case, note='%d schedules, <= %d preemptions, '
                    'complete=%s' % (n, maxpre, complete)), 'enumerated')
    if complete:
        ctx.exhaustive_done('history %d: all schedules with <= %d '
                            'preemptions (sharded %d ways)'
                            % (index, maxpre, shard[1]))
    else:
        ctx.notes.append('history %d: enumeration stopped at limit %d'
                         % (index, limit))


def case_strategy(maxcalls, fine):
    prog = st.lists(st.sampled_from(OPS + ['connect']), min_size=1,
                    max_size=maxcalls)

    def build(t):
        p1, p2, two, kinds, beh = t
        progs = [p1] + ([p2[:max(1, maxcalls // 2)]] if two else [])
        kinds = list(kinds)
        if beh == 'listener_reconnect':
            kinds = ['tagged'] + kinds
        return {'programs': progs, 'servers': kinds, 'behaviour': beh,
                'fine': fine}
    return st.tuples(prog, prog, st.booleans(),
                     st.lists(st.sampled_from(KINDS), max_size=8),
                     st.sampled_from([None, None, None,
                                      'listener_reconnect',
                                      'handler_reconnect',
                                      'handler_reconnect_direct'])).map(build)


def t_random(ctx, n, maxcalls, fine):
    strat = st.tuples(case_strategy(maxcalls, fine),
                      st.lists(st.one_of(st.just(0), st.just(0),
                                         st.integers(0, 3)), max_size=300))

    def body(c, t):
        case, sch = t
        case = dict(case, schedule=sch)
        history_case(c, case)
        if c.evaluations % 60 == 1:
            c.sample(dict(case, schedule=sch[:30]), 'random')
    hyp(ctx, 'random_fine' if fine else 'random', strat, body, n)


def t_many_reconnects(ctx, n):
    many_reconnects_case(ctx, {'version': 757, 'n': n})
    ctx.sample({'version': 757, 'n': n}, 'many_reconnects')


def t_stalled(ctx):
    k = 0
    for v in (757, 340, 47):
        for where in ('prefix', 'body', 'idle'):
            for imm in (False, True):
                k += 1
                stalled_case(ctx, {'version': v, 'where': where,
                                   'immediate': imm,
                                   'compress': [None, 64][k % 2]})
    ctx.exhaustive_done('disconnect while the networking thread is blocked '
                        'inside a frame of a stalled server: 3 protocols x '
                        '3 positions x 2 disconnect modes')


def t_refused(ctx, versions=(757, 578, 340, 107, 47)):
    # one shard per protocol: on a tree that breaks the refusal every case
    # runs into its waits, and the check has to finish inside the wall guard
    k = 20 * (757, 578, 340, 107, 47).index(versions[0])
    for v in versions:
        for neg in (False, True):
            for pos in (True, False):
                for ops in (['connect'], ['status'], ['status', 'connect'],
                            ['connect', 'connect', 'status']):
                    k += 1
                    refused_case(ctx, {'version': v, 'negotiate': neg,
                                       'pos': pos, 'ops': ops,
                                       'compress': [None, 64, 0][k % 3]})
    ctx.sample({'version': 340, 'negotiate': True, 'pos': True,
                'ops': ['status', 'connect'], 'compress': None}, 'refused')
    ctx.exhaustive_done('refused connect()/status() on a quiescent active '
                        'session: protocol %s x negotiated or not x spawned '
                        'or not x 4 call sequences'
                        % '/'.join(map(str, versions)))


def t_dead_peer(ctx):
    k = 0
    for v in (757, 340, 47):
        for queued in (0, 1, 3):
            for imm in (False, True, 0):
                k += 1
                dead_peer_disconnect_case(ctx, {
                    'version': v, 'queued': queued, 'immediate': imm,
                    'compress': [None, 64][k % 2],
                    'then_connect': bool(k % 2)})
    ctx.exhaustive_done('disconnect() with 0/1/3 packets queued after the '
                        'peer reset: 3 protocols x 3 disconnect forms')


def t_exit_reconnect(ctx, versions=(757, 340, 47)):
    for v in versions:
        for rounds in (1, 2, 4):
            for then in ('connect', 'status'):
                exit_reconnect_case(ctx, {'version': v, 'rounds': rounds,
                                          'then': then})
    ctx.exhaustive_done('reconnect from the exit callback: protocol %s x '
                        '1, 2, 4 kicked sessions x 2 refused calls'
                        % '/'.join(map(str, versions)))


def t_thread_start(ctx):
    for v in (757, 47):
        for first in ('connect', 'status'):
            for fail in ([1], [1, 2]):
                for then in ('connect', 'status'):
                    thread_start_failure_case(ctx, {
                        'version': v, 'first': first, 'fail': fail,
                        'then': then})
    ctx.exhaustive_done('refused thread start in connect()/status(), once '
                        'or twice, then a served connect()/status()')


def t_status_poller(ctx):
    k = 0
    for v in (757, 340, 47):
        for rounds in (1, 2, 5):
            for then in ('status', 'connect', 'disconnect_connect'):
                k += 1
                status_poller_case(ctx, {'version': v, 'rounds': rounds,
                                         'then': then, 'hs': bool(k % 2)})
    ctx.sample({'version': 340, 'rounds': 2, 'then': 'connect', 'hs': True},
               'status_poller')
    ctx.exhaustive_done('status() re-issued / connect() from the latency '
                        'callback: 3 protocols x 1, 2, 5 rounds x 3 endings')


def tasks(tier):
    q = tier == 'quick'
    tl = [('stalled', t_stalled, {})] + \
        [('refused_%d' % v, t_refused, {'versions': (v,)})
         for v in (757, 578, 340, 107, 47)] + \
        [('exit_reconnect_%d' % v, t_exit_reconnect, {'versions': (v,)})
         for v in (757, 340, 47)]
    tl += [
          ('status_poller', t_status_poller, {}),
          ('dead_peer', t_dead_peer, {}),
          ('thread_start', t_thread_start, {}),
          ('thread_exit', t_thread_exit, {}),
          ('many_reconnects', t_many_reconnects,
           dict(n=1100 if q else 3000))]
    for i in range(len(SMALL)):
        nsh = (3 if len(SMALL[i]['programs']) > 1 else 1) if q else 4
        for k in range(nsh):
            tl.append(('enum_%d_%d' % (i, k), t_enumerate,
                       dict(index=i, maxpre=1 if q else 2,
                            limit=3000 if q else 30000, shard=(k, nsh))))
    for i in range(5 if q else 10):
        tl.append(('random_%d' % i, t_random,
                   dict(n=80 if q else 3000, maxcalls=6 if q else 10,
                        fine=False)))
    for i in range(2 if q else 6):
        tl.append(('random_fine_%d' % i, t_random,
                   dict(n=12 if q else 400, maxcalls=4, fine=True)))
    return tl
