"""C12 - concurrent writers: every packet hits the wire once, whole and in
order.  Schedule exploration with the harness-owned scheduler."""
from hypothesis import strategies as st

from vlib import vnet, servers, sched as S
from vlib.runner import hyp
from props import c01_framing as P1

PROPERTY = 'C12'
LEVEL = 'exploration'
RULE = ('A scenario = 1-4 user threads, each with a short program over '
        '{queued write, forced write, bulk of queued writes, and - for one '
        'thread, as its last operation - disconnect() or '
        'disconnect(immediate=True)} of tagged raw packets with payload '
        'sizes around the compression threshold, mode in {plain, '
        'compression 0/64, cipher, both}, running concurrently with the '
        'real networking thread\'s write loop on the in-memory network. '
        'Schedules: every schedule with <= 2 (quick) / <= 3 (thorough) '
        'preemptions for the small scenarios (yield points at every socket '
        'send/shutdown/close, lock acquire/release, queue append/pop, '
        'select, thread start/join), Hypothesis-drawn schedules for larger '
        'ones, coarse and line-granular. Oracle on the byte stream the '
        'server endpoint received (reference decryption + frame parsing): '
        'parses completely into well-formed frames (A1); no packet twice, '
        'nothing foreign, every forced write that returned and every packet '
        'queued before the disconnect was entered appears exactly once '
        '(A2); queued packets of one thread in program order, forced ones '
        'likewise (A3); non-immediate disconnect: everything queued before '
        'it is on the wire before the close; immediate: nothing is sent '
        'after it returned (A4); no deadlock, termination within the step '
        'budget (A5). Non-trivial: >= 2 threads and >= 1 preemption; '
        'distinct by (scenario, schedule).')
RULE += (' ' +
         'Added in later rounds: two-thread reconnect scenarios with a '
         'recording second link (library locks scheduler-aware); component '
         'route (delegated to C14): an exception handler queues a farewell '
         'and calls the plain disconnect() - 2 origins x 3 versions x 3 '
         'compression modes x 4 finals x 4 chains. Round 11: '
         'disconnect(immediate=...) spelled False / True / 0 / 1 / None. '
         'Round 12: op fx (a forced write that fails to serialise in the '
         'caller); component handoff (user thread queues A1..An while a '
         'listener is parked, the listener then queues B1..Bm, the user C; '
         'both orders; clause A3-order-across-threads). Round 13: every '
         'other payload is compressible (the deflated form is shorter than '
         'the packet). Round 14: net_forced - the peer sends packets and an '
         'incoming listener answers each with a forced write, scheduled '
         'together with the user threads. Round 15: force / immediate passed '
         'by position in half of the calls. Round 16: looking-only early and '
         'late outgoing listeners in the scheduled writer scenarios. ')
LEVEL_TEXT = ('Systematic schedule exploration (bounded-preemption '
              'enumeration, exhaustive for the listed small scenarios and '
              'bound; seeded random schedules beyond) of the real write '
              'paths under a deterministic cooperative scheduler.')
LEVEL_NOTE = ('The scheduler serialises threads at its yield points (I/O, '
              'lock, queue operations; optionally every source line of '
              'connection.py / packet.py); switches inside a single '
              'bytecode-level operation and real OS scheduling are not '
              'explored. The fake socket never returns a short send.')
TECHNIQUE = ('bounded-preemption schedule enumeration + random schedule '
             'walks under a harness-owned scheduler (stateless model '
             'checking style), oracle on the received byte stream')
ASSUMPTIONS = ['yield points at I/O, lock and queue operations (and lines '
               'in fine mode) are the only thread switch points']


class Recorder(servers.Script):
    def on_frame(self, pid, payload, comp):
        self.frames.append((pid, bytes(payload), comp))


def payload(t, k, size):
    head = b'%d:%d:' % (t, k)
    n = max(0, size - len(head))
    if (t + k) % 2:
        # a payload that shrinks when deflated (a frame whose compressed
        # form is shorter than the packet it replaces in the buffer)
        return head + bytes([(t * 31 + k * 7) % 251]) * n
    return head + bytes((t * 31 + k * 7 + i) % 251 for i in range(n))


def _imm(v):
    """the `immediate` argument as the caller spells it: any value is used
    for its truth (False, 0, None: flush first; True, 1: do not)"""
    return None if v == 'none' else v


IMMEDIATES = [False, True, 0, 1, 'none']


def run_scenario(case, schedule):
    """-> result dict (observations only; oracle in check())"""
    from minecraft.networking import connection as C
    from minecraft.networking import encryption
    mode = case.get('mode', 'plain')
    programs = case['programs']
    fine = bool(case.get('fine'))
    rec = Recorder()
    # a second TCP connection (op 'rc': reconnect of the same object) gets a
    # login server that afterwards stays silent
    srv2 = servers.Server({'version': 757, 'login': [('success',)],
                           'play': {'bursts': [], 'end': 'silent'}})
    rec2 = None
    if case.get('rc_concurrent'):
        # other threads write while the object reconnects: where their
        # packets land relative to the new handshake is the user's race, not
        # the library's; what the library owes is whole frames, each once
        rec2 = srv2 = Recorder()
    world = vnet.World(servers=[rec, srv2])
    sc = S.Scheduler(schedule, step_budget=case.get('budget', 80000),
                     fine=fine)
    world.scheduler = sc
    res = {'ops': [], 'errors': []}
    secret = bytes(range(16)) if mode in ('cipher', 'both') else None
    saved_deque = C.deque
    with vnet.installed(world):
        S.install_thread_hooks(world, sc, C)
        C.deque = S.make_deque(sc)
        # every lock the library creates from now on is scheduler-aware too
        # (a lock made behind the harness's back would block outside the
        # scheduler's control)
        saved_locks = {n: getattr(C, n) for n in ('RLock', 'Lock')
                       if hasattr(C, n)}
        for n in saved_locks:
            setattr(C, n, lambda *a, **k: S.SchedRLock(sc))
        try:
            conn = C.Connection('localhost', 25565, username='u',
                                allowed_versions={757},
                                handle_exception=False)
            conn._write_lock = S.SchedRLock(sc)
            conn._connect()
            conn.reactor = C.PlayingReactor(conn)
            if mode in ('c0', 'c64', 'both'):
                t = {'c0': 0, 'c64': 64, 'both': 64}[mode]
                conn.options.compression_enabled = True
                conn.options.compression_threshold = t
                rec.c2s_compressed = True
                rec.s2c_threshold = t
            if secret is not None:
                cipher = encryption.create_AES_cipher(secret)
                e, d = cipher.encryptor(), cipher.decryptor()
                conn.socket = encryption.EncryptedSocketWrapper(
                    conn.socket, e, d)
                conn.file_object = encryption.EncryptedFileObjectWrapper(
                    conn.file_object, d)
                rec.enable_encryption(secret)
            link = world.links[0]
            if case.get('out_listeners'):
                # outgoing listeners that only look (early and late): user
                # code running between taking a packet off the queue and
                # writing it, on whichever thread does the writing
                seen_out = []
                from minecraft.networking.packets import Packet as _P0
                conn.register_packet_listener(
                    lambda p: seen_out.append(0), _P0, early=True,
                    outgoing=True)
                conn.register_packet_listener(
                    lambda p: seen_out.append(1), _P0, outgoing=True)
            nf = list(case.get('net_forced') or ())
            if nf:
                # the peer sends len(nf) packets; an ordinary INCOMING
                # listener answers each at once with a forced write - on the
                # networking thread, in its read phase (write lock not
                # held), while the user threads write too
                tn = len(programs)
                seen_in = []

                def answer(p):
                    if p.id != 0x7B:
                        return
                    k_ = len(seen_in)
                    seen_in.append(1)
                    pk = P1.raw_class(0x05)()
                    pk.data = payload(tn, k_, nf[k_ % len(nf)])
                    s0 = world.next_seq()
                    try:
                        conn.write_packet(pk, force=True)
                        res['ops'].append((tn, 'f', k_, s0,
                                           world.next_seq(), None))
                    except Exception as ex:
                        res['ops'].append((tn, 'f', k_, s0,
                                           world.next_seq(),
                                           type(ex).__name__))
                from minecraft.networking.packets import Packet as _P
                conn.register_packet_listener(answer, _P)
                for _ in nf:
                    rec.send_frame(0x7B, b'go')
            conn._start_network_thread()

            def make(ti, prog):
                def body():
                    k = 0
                    for op in prog:
                        kind = op[0]
                        if kind in ('q', 'f'):
                            pk = P1.raw_class(0x05)()
                            pk.data = payload(ti, k, op[1])
                            s0 = world.next_seq()
                            try:
                                # (flags by keyword or by position)
                                if (ti + k) % 2:
                                    conn.write_packet(pk, kind == 'f')
                                else:
                                    conn.write_packet(pk,
                                                      force=(kind == 'f'))
                                res['ops'].append((ti, kind, k, s0,
                                                   world.next_seq(), None))
                            except Exception as ex:
                                res['ops'].append((ti, kind, k, s0,
                                                   world.next_seq(),
                                                   type(ex).__name__))
                            k += 1
                        elif kind == 'fx':
                            # a forced write that fails in the caller: the
                            # packet cannot be serialised.  Nothing of it
                            # may reach the wire and everybody else's
                            # packets are written as before
                            pk = P1.raw_class(0x05)()
                            pk.data = None
                            s0 = world.next_seq()
                            try:
                                conn.write_packet(pk, force=True)
                                res['ops'].append((ti, 'fx', -1, s0,
                                                   world.next_seq(), None))
                            except Exception as ex:
                                res['ops'].append((ti, 'fx', -1, s0,
                                                   world.next_seq(),
                                                   type(ex).__name__))
                        elif kind == 'qn':
                            for _ in range(op[1]):
                                pk = P1.raw_class(0x05)()
                                pk.data = payload(ti, k, 8)
                                s0 = world.next_seq()
                                try:
                                    conn.write_packet(pk)
                                    res['ops'].append((ti, 'q', k, s0,
                                                       world.next_seq(),
                                                       None))
                                except Exception as ex:
                                    res['ops'].append((ti, 'q', k, s0,
                                                       world.next_seq(),
                                                       type(ex).__name__))
                                k += 1
                        elif kind == 'rc':
                            s0 = world.next_seq()
                            try:
                                conn.connect()
                                res['ops'].append((ti, 'rc', 0, s0,
                                                   world.next_seq(), None))
                            except Exception as ex:
                                res['ops'].append((ti, 'rc', 0, s0,
                                                   world.next_seq(),
                                                   type(ex).__name__))
                        elif kind == 'd':
                            s0 = world.next_seq()
                            try:
                                if ti % 2:
                                    conn.disconnect(_imm(op[1]))
                                else:
                                    conn.disconnect(immediate=_imm(op[1]))
                                res['ops'].append((ti, 'd', op[1], s0,
                                                   world.next_seq(), None))
                            except Exception as ex:
                                res['ops'].append((ti, 'd', op[1], s0,
                                                   world.next_seq(),
                                                   type(ex).__name__))
                        sc.yield_point('op')
                return body
            for ti, prog in enumerate(programs):
                sc.spawn(make(ti, prog), 'user%d' % ti)
            res['outcome'] = sc.run(60.0)
            res['alive'] = sc.join_all(5.0)
        finally:
            C.deque = saved_deque
            for n, v in saved_locks.items():
                setattr(C, n, v)
            world.scheduler = None
    res['decisions'] = sc.decisions
    res['timeout_diag'] = sc.timeout_diag
    res['preemptions'] = sc.preemptions
    res['deadlock'] = sc.deadlock
    res['steps'] = sc.steps
    res['frames'] = list(rec.frames)
    res['script_errors'] = list(rec.errors)
    res['leftover'] = len(rec.buf)
    res['link2'] = None
    if len(world.links) > 1 and rec2 is not None:
        res['link2'] = {'errors': list(rec2.errors) + (
            ['leftover %d bytes' % len(rec2.buf)] if rec2.buf else []),
            'frames': [('play' if f[0] == 0x05 else 'other', f[0], f[1])
                       for f in rec2.frames], 'recorder': True}
    elif len(world.links) > 1:
        res['link2'] = {'errors': list(srv2.errors),
                        'frames': [(f[0], f[1], f[2] if f[1] == 0x05
                                    else f[2][:12]) for f in srv2.frames]}
    res['events'] = list(link.events)
    res['event_thread'] = dict(link.event_thread)
    res['spans'] = list(rec.frame_spans)
    res['thread_excs'] = [(s.name, repr(s.exc)) for s in sc.states
                          if s.exc is not None]
    return res


def check(ctx, case, schedule, r):
    sub = dict(case, schedule=list(schedule))
    if r['outcome'] == 'timeout':
        from vlib.core import HarnessError
        raise HarnessError('C12 scenario hit the harness wall-clock guard: %r' % (r.get('timeout_diag'),))
    if r['outcome'] == 'deadlock':
        ctx.fail('schedule', 'A5-deadlock', sub, r['deadlock'])
        return
    if r['outcome'] == 'budget':
        ctx.fail('schedule', 'A5-non-termination', sub,
                 '%d scheduler steps' % r['steps'])
        return
    # A1
    if r['script_errors'] or r['leftover']:
        ctx.fail('schedule', 'A1-malformed-stream', sub,
                 (r['script_errors'][:2], 'leftover %d bytes'
                  % r['leftover']))
        return
    if any(f[0] != 0x05 for f in r['frames']):
        ctx.fail('schedule', 'A2-foreign-frame', sub,
                 [f[0] for f in r['frames'] if f[0] != 0x05][:3])
        return
    tags = []
    # user packets written after a reconnect travel on the second link
    on_link2 = [(0x05, f[2], None) for f in (r['link2'] or {}).get(
        'frames', []) if f[1] == 0x05 and f[0] == 'play']
    all_frames = list(r['frames']) + on_link2
    for pid, pl, comp in all_frames:
        try:
            a, b, rest = pl.split(b':', 2)
            ti, k = int(a), int(b)
        except ValueError:
            ctx.fail('schedule', 'A2-foreign-frame', sub, pl[:20])
            return
        tags.append((ti, k))
    ops = r['ops']
    written = {(o[0], o[2]): o for o in ops if o[1] in ('q', 'f')}
    disc = [o for o in ops if o[1] == 'd']
    # A2: no duplicates, nothing foreign
    if len(set(tags)) != len(tags):
        ctx.fail('schedule', 'A2-duplicate', sub,
                 [t for t in tags if tags.count(t) > 1][:4])
        return
    for t in tags:
        if t not in written:
            ctx.fail('schedule', 'A2-unwritten-packet-on-wire', sub, t)
            return
        o = written[t]
        exp = payload(o[0], o[2], case_size(case, o[0], o[2]))
        got = all_frames[tags.index(t)][1]
        if got != exp:
            ctx.fail('schedule', 'A1-payload-corrupted', sub, got[:30],
                     exp[:30])
            return
    d_enter = disc[0][3] if disc else None
    d_exit = disc[0][4] if disc else None
    immediate = bool(_imm(disc[0][2])) if disc else False
    for key, o in written.items():
        ti, kind, k, s0, s1, err = o
        must = False
        if err is None:
            if kind == 'f':
                must = d_enter is None or s1 < d_enter
                # a forced write that returned normally is on the wire
                must = True if err is None else must
            elif d_enter is None:
                must = r['outcome'] in ('done', 'quiescent')
            else:
                must = s1 < d_enter and not immediate
        if must and key not in tags:
            ctx.fail('schedule', 'A2-packet-lost', sub,
                     {'thread': ti, 'seq': k, 'kind': kind})
            return
    # A3: per-thread order
    for ti in range(len(case['programs'])):
        for kind in ('q', 'f'):
            seq = [k for (t, k) in tags if t == ti and
                   written[(t, k)][1] == kind]
            if seq != sorted(seq):
                ctx.fail('schedule', 'A3-order', sub,
                         {'thread': ti, 'kind': kind, 'wire_order': seq})
                return
    # A4
    ev = r['events']
    sends = [s for s, k, i in ev if k == 'send']
    closes = [s for s, k, i in ev if k in ('shutdown', 'close')]
    if disc and disc[0][5] is None:
        if not closes:
            ctx.fail('schedule', 'A4-socket-not-closed', sub)
            return
        if sends and max(sends) > min(closes):
            ctx.fail('schedule', 'A4-send-after-close', sub)
            return
        if immediate and sends and max(sends) > d_exit:
            ctx.fail('schedule', 'A4-send-after-immediate-disconnect', sub)
            return
        if immediate:
            # the disconnecting thread itself must not send anything
            # between entering and leaving disconnect(immediate=True)
            who = 'user%d' % disc[0][0]
            own = [s for s in sends if d_enter < s < d_exit and
                   r['event_thread'].get(s) == who]
            if own:
                ctx.fail('schedule', 'A4-immediate-disconnect-sends', sub,
                         '%d send() calls inside disconnect(immediate=True)'
                         % len(own), 0)
                return
    elif disc and disc[0][5] is not None:
        ctx.fail('schedule', 'A4-disconnect-raised', sub, disc[0][5])
        return
    # reconnect of the same object: the new connection starts with its own
    # handshake and login start; nothing queued on the old one leaks into it
    rcs = [o for o in ops if o[1] == 'rc']
    if rcs:
        if rcs[0][5] is not None:
            ctx.fail('schedule', 'A4-reconnect-raised', sub, rcs[0][5])
            return
        l2 = r['link2']
        if l2 is None:
            ctx.fail('schedule', 'A4-reconnect-no-connection', sub)
            return
        if l2.get('recorder'):
            if l2['errors']:
                ctx.fail('schedule', 'A1-malformed-stream', sub,
                         l2['errors'][:2])
                return
            other = [f[1] for f in l2['frames'] if f[1] != 0x05]
            # (the scenario may end before the new networking thread has
            # flushed the queued handshake / login start: a prefix is fine)
            if other not in ([], [0], [0, 0]):
                ctx.fail('schedule', 'A2-foreign-frame', sub, other[:4],
                         'at most handshake and login start (ids 0, 0)')
                return
        heads = [] if l2.get('recorder') else \
            [(f[0], f[1]) for f in l2['frames'][:2]]
        # a user packet on the new connection is stale unless it is a forced
        # write that was still in progress (or started) after the reconnect
        # began; and nothing may precede or split handshake + login start
        stale = []
        for f in l2['frames']:
            if f[1] != 0x05:
                continue
            try:
                a, b, rest = f[2].split(b':', 2)
                o = written.get((int(a), int(b)))
            except ValueError:
                o = None
            if f[0] != 'play' or o is None or o[1] != 'f' or \
                    o[4] < rcs[0][3]:
                stale.append(f[:2])
        if stale or l2['errors'] or (len(heads) == 2 and heads != [
                ('handshake', 0), ('login', 0)]):
            ctx.fail('schedule', 'A4-stale-packets-on-new-connection', sub,
                     (l2['frames'][:4], l2['errors'][:2]),
                     'handshake, login start')
            return
    if (len(case['programs']) >= 2 or rcs) and r['preemptions'] >= 1:
        ctx.nt(repr(case), tuple(schedule))
    ctx.label('outcome_' + r['outcome'])


def case_size(case, ti, k):
    """payload size of packet k of thread ti as the program says"""
    if ti >= len(case['programs']):
        nf = case['net_forced']
        return nf[k % len(nf)]
    n = 0
    for op in case['programs'][ti]:
        if op[0] in ('q', 'f'):
            if n == k:
                return op[1]
            n += 1
        elif op[0] == 'qn':
            if k < n + op[1]:
                return 8
            n += op[1]
    return 8


def schedule_case(ctx, case):
    """replay/generic: case contains its schedule"""
    ctx.ev()
    sch = list(case.get('schedule') or [])
    r = run_scenario(case, sch)
    check(ctx, case, sch, r)
    return r


def route_case(ctx, case):
    """'A non-immediate disconnect sends everything queued before it' also
    when it is called from an exception handler on the networking thread
    (the thread is already marked as stopping then): C14's fault-routing
    scenarios whose handler queues a farewell and calls disconnect()."""
    from props import c14_exceptions as P14
    P14.route_case(ctx, case)


def handoff_case(ctx, case):
    """Order across threads when the writes themselves are ordered in time:
    a listener on the networking thread is parked; the user thread queues
    A1..An (write_packet returns each time); the listener is released and
    queues B1..Bm; the user thread, once the listener is done, queues C.
    All are plain queued writes, so the wire shows A.., B.., C.  Also with
    the listener's packets written first and the user's afterwards.
    case {version, compress, n, m, first: 'user'|'listener'}"""
    import threading
    import time
    from minecraft.networking.packets import clientbound as cb, \
        serverbound as sb
    version = case['version']
    ctx.ev()
    login = [('compress', case['compress'])] \
        if case.get('compress') is not None else []
    srv = servers.Server({
        'version': version, 'login': login + [('success',)],
        'play': {'bursts': [[('raw', 0x7B, b'go')]], 'mode': 'all',
                 'end': 'silent'}})
    world = vnet.World(servers=[srv])
    parked, release, done = (threading.Event(), threading.Event(),
                             threading.Event())
    with vnet.installed(world):
        conn, o = servers.make_connection(world, allowed_versions={version})

        def listener(p):
            if p.id != 0x7B or parked.is_set():
                return
            parked.set()
            release.wait(20)
            for j in range(case['m']):
                conn.write_packet(sb.play.ChatPacket(message='B%d' % j))
            done.set()
        from minecraft.networking.packets import Packet
        conn.register_packet_listener(listener, Packet)
        try:
            conn.connect()
            stuck = None
            for n_ in range(2000):
                if parked.wait(0.01) or o.exceptions:
                    break
                if n_ % 50 == 49 and \
                        world.settle(timeout=0.5) in ('idle', 'done'):
                    # quiescent (the client polls, nothing moves on the
                    # link) or ended, and the listener has not run
                    stuck = not parked.wait(0.2)
                    break
            if not parked.is_set():
                if o.exceptions or stuck:
                    # not timing: the client gave up a session with a
                    # well-behaved server before the first play packet
                    ctx.fail('handoff', 'A0-session-failed', case,
                             ([repr(e[0]) for e in o.exceptions][:2],
                              srv.errors[:2]),
                             'the session reaches play')
                    release.set()
                    world.kill_all()
                    return
                from vlib.core import HarnessError
                raise HarnessError('C12 handoff: listener never ran')
            if case.get('first', 'user') == 'user':
                for i in range(case['n']):
                    conn.write_packet(sb.play.ChatPacket(message='A%d' % i))
                release.set()
                done.wait(20)
                want = ['A%d' % i for i in range(case['n'])] + \
                    ['B%d' % j for j in range(case['m'])] + ['C']
            else:
                release.set()
                done.wait(20)
                for i in range(case['n']):
                    conn.write_packet(sb.play.ChatPacket(message='A%d' % i))
                want = ['B%d' % j for j in range(case['m'])] + \
                    ['A%d' % i for i in range(case['n'])] + ['C']
            conn.write_packet(sb.play.ChatPacket(message='C'))
            ok = world.wait_idle(world.links[0], conn, timeout=30.0)
            excs = [repr(e[0]) for e in o.exceptions]
            conn.disconnect()
            state = world.settle(timeout=30.0)
        except Exception as e:
            if type(e).__name__ == 'HarnessError':
                world.kill_all()
                raise
            ctx.fail('handoff', 'A-raised', case, exc=e)
            world.kill_all()
            return
    if not ok or state != 'done' or srv.errors or excs:
        ctx.fail('handoff', 'A1-malformed-stream', case,
                 (ok, state, srv.errors[:2], excs[:2]))
        world.kill_all()
        return
    chat_id = servers.packet_info(version, 'sb_chat')[0]
    got = [servers.decode(version, 'sb_chat', pl)['message']
           for pid, pl in srv.other_play_frames if pid == chat_id]
    if got != want:
        ctx.fail('handoff', 'A3-order-across-threads', case, got[:12],
                 want[:12])
        return
    ctx.nt('handoff', repr(case))
    ctx.label('handoff')


def broadcast_case(ctx, case):
    """One packet object handed to two connections of the same protocol
    version (a broadcast): each connection sends it exactly once as a frame
    that is well-formed under ITS OWN compression setting, also when the
    object is still queued on the first connection (whose networking thread
    is parked in a listener) while the second one takes and writes it.
    case {version, ca, cb, n, forced_b: bool}"""
    import threading
    import time
    from minecraft.networking.packets import Packet, serverbound as sb
    version = case['version']
    ctx.ev()
    spec = {}
    for k in 'ab':
        comp = case.get('c' + k)
        spec[k] = servers.Server({
            'version': version,
            'login': ([('compress', comp)] if comp is not None else []) +
            [('success',)],
            'play': {'bursts': [[('raw', 0x7B, b'go')]] if k == 'a' else [],
                     'mode': 'all', 'end': 'silent'}})
    world = vnet.World(servers=[spec['a'], spec['b']])
    world.block_guard = 5.0
    parked, release = threading.Event(), threading.Event()
    conns, obs = {}, {}
    texts = ['shared-%d-' % i + 'x' * (i * 37 % 90) for i in range(case['n'])]
    with vnet.installed(world):
        try:
            for k in 'ab':
                conns[k], obs[k] = servers.make_connection(
                    world, allowed_versions={version})

            def listener(p):
                if p.id == 0x7B and not parked.is_set():
                    parked.set()
                    release.wait(20)
            conns['a'].register_packet_listener(listener, Packet)
            conns['a'].connect()
            for n_ in range(3000):
                if parked.wait(0.01) or obs['a'].exceptions:
                    break
            if not parked.is_set():
                release.set()
                world.kill_all()
                if obs['a'].exceptions:
                    ctx.fail('broadcast', 'B0-session-failed', case,
                             repr(obs['a'].exceptions[0][0]))
                    return
                from vlib.core import HarnessError
                raise HarnessError('C12 broadcast: listener never ran')
            conns['b'].connect()
            for _ in range(5000):
                if spec['b'].play_started or obs['b'].exceptions:
                    break
                time.sleep(0.001)
            world.wait_idle(spec['b'].link, conns['b'])
            shared = [sb.play.ChatPacket(message=t) for t in texts]
            for pkt in shared:
                conns['a'].write_packet(pkt)        # stays queued (parked)
                conns['b'].write_packet(pkt, force=bool(case.get('forced_b')))
            okb = world.wait_idle(spec['b'].link, conns['b'], timeout=30.0)
            release.set()
            oka = world.wait_idle(spec['a'].link, conns['a'], timeout=30.0)
            excs = [repr(e[0]) for k in 'ab' for e in obs[k].exceptions]
            for k in 'ab':
                conns[k].disconnect()
            state = world.settle(timeout=30.0)
        except Exception as e:
            release.set()
            if type(e).__name__ == 'HarnessError':
                world.kill_all()
                raise
            ctx.fail('broadcast', 'B-raised', case, exc=e)
            world.kill_all()
            return
    errs = {k: spec[k].errors[:2] for k in 'ab'}
    if not (oka and okb) or state != 'done' or errs['a'] or errs['b'] or excs:
        ctx.fail('broadcast', 'B1-malformed-stream', case,
                 (oka, okb, state, errs, excs[:2]))
        world.kill_all()
        return
    chat_id = servers.packet_info(version, 'sb_chat')[0]
    for k in 'ab':
        try:
            got = [servers.decode(version, 'sb_chat', pl)['message']
                   for pid, pl in spec[k].other_play_frames if pid == chat_id]
        except Exception as e:
            got = ['undecodable: %r' % (e,)]
        if got != texts:
            ctx.fail('broadcast', 'B2-once-each-in-order', dict(case, side=k),
                     [g[:12] for g in got[:12]], [t[:12] for t in texts[:12]])
            return
    ctx.nt('broadcast', repr(case))
    ctx.label('broadcast_one_object_two_connections')


COMPONENTS = {'schedule': schedule_case, 'route': route_case,
              'handoff': handoff_case, 'broadcast': broadcast_case}


SMALL = [
    {'programs': [[('f', 10), ('f', 70)], [('f', 12), ('q', 66)]],
     'mode': 'plain'},
    {'programs': [[('q', 10), ('q', 12)], [('f', 12), ('d', False)]],
     'mode': 'plain'},
    {'programs': [[('q', 10), ('f', 5)], [('q', 7), ('d', True)]],
     'mode': 'plain'},
    {'programs': [[('f', 70), ('q', 5)], [('f', 64), ('d', 0)]],
     'mode': 'c64'},
    {'programs': [[('f', 20), ('f', 21)], [('f', 22), ('q', 23)]],
     'mode': 'cipher'},
    {'programs': [[('q', 70), ('d', 'none')], [('f', 60), ('f', 80)]],
     'mode': 'both'},
    {'programs': [[('q', 8), ('q', 9), ('q', 10), ('d', True), ('rc',)]],
     'mode': 'plain'},
    {'programs': [[('fx',), ('q', 9), ('q', 10)], [('q', 7), ('f', 12)]],
     'mode': 'plain'},
    {'programs': [[('f', 70), ('f', 9)], [('q', 8)]], 'mode': 'plain',
     'net_forced': [12, 66]},
    {'programs': [[('q', 10), ('q', 12)], [('d', False)]], 'mode': 'plain',
     'out_listeners': True},
    {'programs': [[('q', 10), ('f', 12)], [('q', 9), ('d', 0)]],
     'mode': 'c64', 'out_listeners': True},
    {'programs': [[('f', 70), ('d', False)]], 'mode': 'c64',
     'net_forced': [70]},
    {'programs': [[('f', 8), ('q', 9), ('d', 1), ('rc',)]],
     'mode': 'c64'},
    # another thread's forced writes around a reconnect (whoever waits for
    # the write lock during connect() must still be serialised afterwards)
    {'programs': [[('d', True), ('rc',), ('f', 9)], [('f', 10), ('f', 12)]],
     'mode': 'plain', 'rc_concurrent': True},
    {'programs': [[('d', False), ('rc',)], [('f', 30), ('f', 6), ('f', 7)]],
     'mode': 'plain', 'rc_concurrent': True},
]


def t_enumerate(ctx, index, maxpre, limit, shard=(0, 1)):
    case = SMALL[index]

    def one(s):
        ctx.ev()
        r = run_scenario(case, s)
        check(ctx, case, s, r)
        return r['decisions']
    seen_fail = [None]

    def stop():
        # a violation was found: run 40 more schedules (other root causes),
        # then stop instead of re-finding it thousands of times
        if ctx.failures and seen_fail[0] is None:
            seen_fail[0] = ctx.evaluations
        return seen_fail[0] is not None and \
            ctx.evaluations - seen_fail[0] > 40
    n, complete = S.enumerate_schedules(one, maxpre, limit, tuple(shard),
                                        stop)
    ctx.sample(dict(case, note='%d schedules, <= %d preemptions, '
                    'complete=%s' % (n, maxpre, complete)), 'enumerated')
    if complete:
        ctx.exhaustive_done('scenario %d: all schedules with <= %d '
                            'preemptions (sharded %d ways)'
                            % (index, maxpre, shard[1]))
    else:
        ctx.notes.append('scenario %d: enumeration stopped at limit %d'
                         % (index, limit))


def program_strategy(with_disc):
    op = st.one_of(st.just(('fx',)),
                   st.tuples(st.just('q'), st.sampled_from([0, 8, 62, 63, 64,
                                                            65, 200])),
                   st.tuples(st.just('f'), st.sampled_from([0, 8, 62, 63, 64,
                                                            65, 200])))
    base = st.lists(op, min_size=1, max_size=4)
    if with_disc:
        return st.tuples(base, st.sampled_from(IMMEDIATES)).map(
            lambda t: t[0] + [('d', t[1])])
    return base


def case_strategy(fine):
    def build(t):
        progs, disc, mode, bulk = t
        progs = [list(p) for p in progs]
        if bulk:
            progs[0] = [('qn', bulk)] + progs[0]
        if disc is not None:
            progs[-1] = progs[-1] + [('d', disc)]
        return {'programs': progs, 'mode': mode, 'fine': fine}
    return st.tuples(st.tuples(
        st.lists(program_strategy(False), min_size=1, max_size=4),
        st.one_of(st.none(), st.sampled_from(IMMEDIATES)),
        st.sampled_from(['plain', 'c0', 'c64', 'cipher', 'both']),
        st.sampled_from([0, 0, 0, 40, 320])).map(build),
        st.sampled_from([None, None, [9], [70, 8], 'out'])).map(
            lambda t: dict(t[0], out_listeners=True) if t[1] == 'out' else
            dict(t[0], net_forced=t[1]) if t[1] else t[0])


def t_random(ctx, n, fine):
    strat = st.tuples(case_strategy(fine),
                      st.lists(st.one_of(st.just(0), st.just(0),
                                         st.integers(0, 3)),
                               max_size=400))

    def body(c, t):
        case, sch = t
        case = dict(case, schedule=sch)
        schedule_case(c, case)
        if c.evaluations % 100 == 1:
            c.sample(dict(case, schedule=sch[:30]), 'random')
    hyp(ctx, 'random_fine' if fine else 'random', strat, body, n)


def t_farewell(ctx):
    bye = {'filter': [], 'early': False, 'do': 'bye'}
    k = 0
    for origin in ('listener', 'early_listener'):
        for version in (757, 340, 47):
            for comp in (None, 0, 256):
                for final in ('none', 'false', 'return', 'raise'):
                    for chain in ([bye], [dict(bye, early=True)],
                                  [{'filter': ['C'], 'early': False,
                                    'do': 'return'}, bye],
                                  [{'filter': [], 'early': True,
                                    'do': 'reraise'}, bye]):
                        k += 1
                        case = {'origin': origin, 'exc': 'B',
                                'chain': [dict(h) for h in chain],
                                'final': final, 'final_new': 'C',
                                'compress': comp, 'version': version}
                        route_case(ctx, case)
                        ctx.nt('farewell', k)
    ctx.sample(case, 'route')
    ctx.exhaustive_done('handler farewell + disconnect(): 2 origins x 3 '
                        'versions x 3 compression modes x 4 finals x 4 '
                        'chains')


def t_handoff(ctx):
    k = 0
    for v in (757, 340, 47):
        for n, m in ((3, 1), (1, 3), (40, 2), (400, 5)):
            for first in ('user', 'listener'):
                k += 1
                handoff_case(ctx, {'version': v, 'n': n, 'm': m,
                                   'first': first,
                                   'compress': [None, 64, 0][k % 3]})
    ctx.sample({'version': 340, 'n': 3, 'm': 1, 'first': 'user',
                'compress': None}, 'handoff')
    ctx.exhaustive_done('hand-over between the user thread and a listener: '
                        '3 protocols x 4 sizes x 2 orders')


def t_broadcast(ctx):
    k = 0
    for v in (757, 340, 47):
        for ca, cb_ in ((None, 0), (None, 64), (64, None), (0, 256),
                        (256, 16), (None, None)):
            for n in (1, 4):
                k += 1
                broadcast_case(ctx, {'version': v, 'ca': ca, 'cb': cb_,
                                     'n': n, 'forced_b': k % 2 == 0})
    ctx.sample({'version': 340, 'ca': None, 'cb': 64, 'n': 1,
                'forced_b': False}, 'broadcast')
    ctx.exhaustive_done('one packet object on two connections: 3 protocols '
                        'x 6 compression pairs x 2 sizes')


def tasks(tier):
    q = tier == 'quick'
    tl = [('farewell', t_farewell, {}), ('handoff', t_handoff, {}),
          ('broadcast', t_broadcast, {})]
    nsh = 2 if q else 8
    for i in range(len(SMALL)):
        # (the two-thread reconnect scenarios are long: more shards)
        nsh = (8 if SMALL[i].get('rc_concurrent') else 2) if q else 8
        for k in range(nsh):
            tl.append(('enum_%d_%d' % (i, k), t_enumerate,
                       dict(index=i, maxpre=2 if q else 3,
                            limit=(1500 if SMALL[i].get('rc_concurrent')
                                   else 6000) if q else 40000,
                            shard=(k, nsh))))
    for i in range(6 if q else 10):
        tl.append(('random_%d' % i, t_random,
                   dict(n=60 if q else 2500, fine=False)))
    for i in range(4 if q else 8):
        tl.append(('random_fine_%d' % i, t_random,
                   dict(n=15 if q else 500, fine=True)))
    return tl
