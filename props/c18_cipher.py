"""C18 - encrypted channel is AES-128-CFB8 keyed by the secret; secret and
verify token reach the server under RSA PKCS#1 v1.5.  Differential against
vlib.aes (independent CFB8) and raw RSA with fixture keys."""
from hypothesis import strategies as st

from vlib import aes, rsa
from vlib.runner import hyp

PROPERTY = 'C18'
LEVEL = 'exploration'
RULE = ('Streams: secret (16 bytes: random, all-zero, all-FF), outbound '
        'plaintext 0-6 KiB split into send() calls (1-byte, whole, 15/16/17 '
        'byte chunks, random), inbound plaintext split into recv()/read() '
        'calls on the wrappers installed the way the login reactor installs '
        'them (one encryptor; one decryptor shared by socket recv and file '
        'read), with sends and receives interleaved. Oracle: concatenated '
        'ciphertext handed to the socket == reference CFB8(key=iv=secret) of '
        'the plaintext concatenation; every read returns exactly the '
        'reference decryption of the ciphertext bytes it consumed; pure '
        'Python AES cross-check on samples. RSA: verify tokens 1-64 bytes x '
        '1024/2048-bit fixture keys: both outputs have modulus length and '
        'decrypt by pow(c,d,n) to PKCS#1 v1.5 type-2 blocks whose payloads '
        'are exactly (token, secret) in that order; two encryptions differ. '
        'Freshness: K complete logins on the in-memory network, decrypted '
        'secrets 16 bytes, pairwise distinct, distinct from the token. '
        'Non-trivial: stream > 16 bytes split off a block boundary with '
        'both directions interleaved; distinct by (secret, streams, '
        'partitions).')
RULE += (' ' +
         'Round 11: logins after the application seeded the global PRNG '
         'identically each time, and under a frozen wall clock: secrets '
         'still differ. Round 13: component surface - every other '
         'payload-moving method of a socket / file object is absent on the '
         'wrappers or goes through the cipher. Round 14: component '
         'secret_bits - 256 draws of the secret generator, every bit '
         'position takes both values. Round 15: every other encrypted '
         'login has a late outgoing listener raising IgnorePacket for '
         'every packet. Round 16: 1024- and 2048-bit server keys with '
         'public exponents 3, 17, 257 and 65539. ')
LEVEL_TEXT = ('Differential testing of the cipher wrappers and the RSA '
              'envelope against independent implementations over generated '
              'secrets, streams, call partitions and interleavings.')
LEVEL_NOTE = ('Trusted: vlib/aes.py (FIPS-197 and SP 800-38A vectors at '
              'start-up; the fast variant uses the third-party AES-ECB block '
              'primitive and is cross-checked against the pure one), Python '
              'pow for RSA. Freshness of the secret is only observed (length, '
              'distinctness), os.urandom quality is trusted.')
TECHNIQUE = ('property-based differential testing against an independent '
             'CFB8/RSA implementation over call partitions')
ASSUMPTIONS = ['os.urandom quality is not assessed']


class _Under(object):
    """underlying socket + file sharing one inbound ciphertext stream"""

    def __init__(self, inbound, short=None):
        self.sent = []
        self.inbound = bytearray(inbound)
        self.taken = []
        self.short = list(short or [])     # max bytes per underlying read
        self.k = 0

    def send(self, b):
        self.sent.append(bytes(b))
        return len(b)

    def recv(self, n):
        # an unbuffered socket may return fewer bytes than asked for even
        # though more will follow (short read)
        if self.short:
            n = min(n, max(1, self.short[self.k % len(self.short)]))
            self.k += 1
        out = bytes(self.inbound[:n])
        del self.inbound[:n]
        self.taken.append(out)
        return out

    read = recv

    def readinto(self, b):
        data = self.recv(len(b))
        b[:len(data)] = data
        return len(data)

    def fileno(self):
        return 7

    def close(self):
        pass


class _RichUnder(_Under):
    """an underlying object with the rest of the socket / file API, all of
    it raw (what a real socket and its makefile() offer)"""

    def sendall(self, b):
        self.send(b)

    def write(self, b):
        return self.send(b)

    def sendto(self, b, *a):
        return self.send(b)

    def sendmsg(self, bufs, *a):
        return self.send(b''.join(bytes(x) for x in bufs))

    def recv_into(self, b, n=0, *a):
        data = self.recv(n or len(b))
        b[:len(data)] = data
        return len(data)

    def recvfrom(self, n, *a):
        return self.recv(n), None

    def read1(self, n=-1):
        return self.recv(n if n and n > 0 else 4096)

    def readall(self):
        return self.recv(1 << 20)

    def readline(self, n=-1):
        return self.recv(n if n and n > 0 else 16)

    def makefile(self, *a, **k):
        return self


SENDERS = ['sendall', 'write', 'sendto', 'sendmsg']
RECEIVERS = ['recv_into', 'readinto', 'recvfrom', 'read1', 'readall',
             'readline', 'makefile']


def surface_case(ctx, case):
    """'After encryption is enabled, the bytes sent are the encryption of
    the plaintext as one continuous stream, and received bytes decrypt
    likewise': whatever else the two wrappers offer for moving payload
    (sendall, write, recv_into, readinto, makefile ...) either is not there
    or goes through the cipher too - never around it.
    case {secret, before: bytes, probe: bytes, inp: bytes}"""
    from minecraft.networking import encryption
    secret, probe, inp = case['secret'], case['probe'], case['inp']
    ctx.ev()
    for name in SENDERS + RECEIVERS:
        for which in ('socket', 'file'):
            under = _RichUnder(aes.cfb8_encrypt(secret, secret, inp, True))
            cipher = encryption.create_AES_cipher(secret)
            enc, dec = cipher.encryptor(), cipher.decryptor()
            w = encryption.EncryptedSocketWrapper(under, enc, dec) \
                if which == 'socket' else \
                encryption.EncryptedFileObjectWrapper(under, dec)
            fn = getattr(w, name, None)
            if fn is None:
                ctx.label('surface_absent')
                continue
            sub = dict(case, method=name, wrapper=which)
            try:
                if name in SENDERS:
                    if which == 'socket':
                        w.send(case['before'])
                        plain = case['before'] + probe
                    else:
                        plain = probe
                    if name == 'sendmsg':
                        fn([probe])
                    elif name == 'sendto':
                        fn(probe, ('h', 1))
                    else:
                        fn(probe)
                    got = b''.join(under.sent)
                    want = aes.cfb8_encrypt(secret, secret, plain, True)
                    if which == 'file' or got != want:
                        ctx.fail('surface', 'E1-payload-sent-around-the-'
                                 'cipher', sub, got[:24].hex(),
                                 want[:24].hex())
                else:
                    n = min(8, len(inp))
                    if name in ('recv_into', 'readinto'):
                        buf = bytearray(n)
                        k = fn(buf)
                        got = bytes(buf[:k])
                    elif name == 'recvfrom':
                        got = fn(n)[0]
                    elif name == 'makefile':
                        got = fn('rb').read(n)
                    elif name == 'readall':
                        got = fn()
                    else:
                        got = fn(n)
                    if bytes(got) != inp[:len(got)] or not got:
                        ctx.fail('surface', 'E2-payload-received-around-'
                                 'the-cipher', sub, bytes(got)[:24].hex(),
                                 inp[:n].hex())
            except (TypeError, NotImplementedError, AttributeError):
                ctx.label('surface_refuses')
                continue
            ctx.nt('surface', name, which)
            ctx.label('surface_present_' + name)


def stream_case(ctx, case):
    """case {secret, out: bytes, out_cuts [n..], inp: bytes,
             in_ops [(kind, n)..], order [bool..], pure: bool}"""
    from minecraft.networking import encryption
    secret = case['secret']
    out, inp = case['out'], case['inp']
    ctx.ev()
    fast = not case.get('pure')
    in_cipher = aes.cfb8_encrypt(secret, secret, inp, fast)
    under = _Under(in_cipher, case.get('short'))
    cipher = encryption.create_AES_cipher(secret)
    enc, dec = cipher.encryptor(), cipher.decryptor()
    sock = encryption.EncryptedSocketWrapper(under, enc, dec)
    fobj = encryption.EncryptedFileObjectWrapper(under, dec)
    # build the operation sequence
    outs = []
    pos = 0
    cuts = case['out_cuts'] or [len(out) or 1]
    i = 0
    while pos < len(out):
        k = max(1, cuts[i % len(cuts)])
        outs.append(out[pos:pos + k])
        pos += k
        i += 1
    ins = list(case['in_ops'])
    order = list(case['order']) or [True]
    got_in = []
    oi = ii = k = 0
    try:
        while oi < len(outs) or (ii < len(ins) and under.inbound):
            do_out = order[k % len(order)]
            k += 1
            if (do_out and oi < len(outs)) or not (ii < len(ins) and
                                                   under.inbound):
                if oi < len(outs):
                    sock.send(outs[oi])
                    oi += 1
                continue
            kind, n = ins[ii]
            ii += 1
            n = max(1, n)
            r = sock.recv(n) if kind == 'recv' else fobj.read(n)
            got_in.append(r)
        # drain the rest through the file wrapper
        while under.inbound:
            got_in.append(fobj.read(4096))
    except Exception as e:
        ctx.fail('stream', 'E-raises', case, exc=e)
        return
    sent = b''.join(under.sent)
    want = aes.cfb8_encrypt(secret, secret, out, fast)
    if sent != want:
        n = next((j for j in range(min(len(sent), len(want)))
                  if sent[j] != want[j]), min(len(sent), len(want)))
        ctx.fail('stream', 'E1-ciphertext', case,
                 'differs at byte %d of %d' % (n, len(want)))
    if len(under.sent) != len(outs):
        ctx.fail('stream', 'E1-one-send-per-call', case, len(under.sent),
                 len(outs))
    # E2: each read returned the decryption of exactly what it consumed
    ref = aes.CFB8(secret, secret, fast)
    for taken, got in zip(under.taken, got_in):
        w = ref.decrypt(taken)
        if got != w:
            ctx.fail('stream', 'E2-plaintext', case)
            break
    if b''.join(got_in) != inp:
        ctx.fail('stream', 'E2-plaintext-total', case)
    if len(out) > 16 and len(inp) > 0 and any(len(o) % 16 for o in outs):
        ctx.nt(secret, out, inp, repr(case['out_cuts']),
               repr(case['in_ops']), repr(case['order']))
    ctx.label('pure_aes' if not fast else 'fast_aes')


def rsa_case(ctx, case):
    """case {bits, token, secret}"""
    from minecraft.networking import encryption
    k = rsa.key(case['bits'])
    token, secret = case['token'], case['secret']
    ctx.ev()
    try:
        r1 = encryption.encrypt_token_and_secret(k['der'], token, secret)
        r2 = encryption.encrypt_token_and_secret(k['der'], token, secret)
    except Exception as e:
        ctx.fail('rsa', 'E4-raises', case, exc=e)
        return
    if not isinstance(r1, tuple) or len(r1) != 2:
        ctx.fail('rsa', 'E4-shape', case, repr(r1)[:100])
        return
    try:
        t = rsa.decrypt_pkcs1_v15(k, r1[0])
        s = rsa.decrypt_pkcs1_v15(k, r1[1])
    except rsa.PaddingError as e:
        ctx.fail('rsa', 'E4-pkcs1v15', case, str(e))
        return
    if t != token or s != secret:
        ctx.fail('rsa', 'E4-payload-order', case,
                 (t.hex()[:40], s.hex()[:40]),
                 (token.hex()[:40], secret.hex()[:40]))
    if r1[0] == r2[0] or r1[1] == r2[1]:
        ctx.fail('rsa', 'E4-randomised-padding', case)
    ctx.nt(case['bits'], token, secret)


def login_secrets_case(ctx, case):
    """K complete encrypted logins: secrets fresh (E5) - needs servers.py"""
    from vlib import servers
    import random
    from vlib import vnet
    K = case['k']
    seen = []
    env = case.get('env')
    if env:
        ctx.label('logins_env_' + env)
    for i in range(K):
        ctx.ev()
        # env: what an application may have done to the process before each
        # login - 'seeded': it seeds the global PRNG with the same value
        # (reproducible bots, test fixtures); 'frozen_clock': the wall clock
        # reads the same instant.  "Fresh random bytes per login" holds
        # regardless
        state = random.getstate()
        try:
            if env == 'seeded':
                random.seed(20260927)
            with vnet.wall_clock('frozen' if env == 'frozen_clock'
                                 else None):
                r = servers.run_encrypted_login(
                    case.get('version', 757), bits=case.get('bits', 1024),
                    token=bytes([i % 256, 1, 2, 3]), observer=bool(i % 2))
        finally:
            random.setstate(state)
        if r.get('error'):
            ctx.fail('login_secrets', 'E5-login-failed', case, r['error'])
            return
        sec = r['secret']
        if len(sec) != 16:
            ctx.fail('login_secrets', 'E5-secret-length', case, len(sec), 16)
        if sec in seen:
            ctx.fail('login_secrets', 'E5-secret-repeated', case, sec.hex())
        if sec == bytes(16) or sec[:4] == bytes([i % 256, 1, 2, 3]) or \
                len(set(sec)) < 5:     # P < 1e-18 for 16 uniform bytes
            ctx.fail('login_secrets', 'E5-secret-not-random', case, sec.hex())
        seen.append(sec)
        ctx.nt('login', sec)
    ctx.label('logins')


def secret_bits_case(ctx, case):
    """'16 fresh random bytes': every one of the 128 bit positions takes
    both values over n draws of the library's secret generator (n = 256: a
    uniform source fails this with probability 128 x 2^-255), no draw
    repeats, each is 16 bytes of type bytes.  case {n}"""
    from minecraft.networking import encryption
    n = case['n']
    ctx.ev()
    try:
        draws = [encryption.generate_shared_secret() for _ in range(n)]
    except Exception as e:
        ctx.fail('secret_bits', 'E5-generator-raises', case, exc=e)
        return
    if any(type(d) is not bytes or len(d) != 16 for d in draws):
        ctx.fail('secret_bits', 'E5-secret-length', case,
                 sorted({(type(d).__name__, len(d)) for d in draws})[:3])
        return
    if len(set(draws)) != n:
        ctx.fail('secret_bits', 'E5-secret-repeated', case)
        return
    ones = [0] * 128
    for d in draws:
        v = int.from_bytes(d, 'big')
        for b in range(128):
            ones[b] += (v >> (127 - b)) & 1
    stuck = [(b, ones[b] // n) for b in range(128) if ones[b] in (0, n)]
    if stuck:
        ctx.fail('secret_bits', 'E5-secret-bits-constant', case,
                 'bit positions (MSB first) that never varied in %d draws: '
                 '%r' % (n, stuck[:12]), 'all 128 bits vary')
        return
    ctx.nt('secret_bits', n)
    ctx.label('secret_bits')


def installed_case(ctx, case):
    """The wrappers exactly as the library's own login reaction installs
    them: feed an encryption request to the real LoginReactor on a
    connection over the in-memory network, let an independent peer recover
    the secret from the reply (raw RSA), then push ciphertext in both
    directions and consume the inbound stream through BOTH
    connection.socket.recv() and connection.file_object.read() in a drawn
    interleaving.  case {bits, token, inp, in_ops, out, out_cuts, plan}"""
    from vlib import vnet, servers, wire
    from minecraft.networking import connection as C
    from minecraft.networking.packets import clientbound
    ctx.ev()
    k = rsa.key(case.get('bits', 1024))
    token = case.get('token', b'\x01\x02\x03\x04')

    enc_resp_id = servers.packet_info(757, 'encryption_response')[0]
    preface_n = case.get('preface', len(case['out']) % 3 if len(case['inp'])
                         % 2 else 0)

    class Peer(servers.Script):
        secret = None
        plain_in = b''

        def __init__(self):
            servers.Script.__init__(self)
            self.preface = []

        def on_bytes(self, data):
            if self.dec is not None:
                self.plain_in += self.dec.decrypt(data)
                return
            self.buf += data
            while True:
                try:
                    n, p = wire.read_varint(self.buf, 0)
                except wire.WireError:
                    return
                if p + n > len(self.buf):
                    return
                body = bytes(self.buf[p:p + n])
                rest = bytes(self.buf[p + n:])
                del self.buf[:]
                pid, q = wire.read_varint(body, 0)
                if pid == enc_resp_id:
                    break
                # anything the client sends ahead of its reply is still
                # cleartext: the switch comes after the reply, not before
                self.preface.append((pid, body[q:]))
                self.buf += rest
            f = servers.decode(757, 'encryption_response', body[q:])
            self.secret = rsa.decrypt_pkcs1_v15(k, f['shared_secret'])
            self.token_back = rsa.decrypt_pkcs1_v15(k, f['verify_token'])
            self.enable_encryption(self.secret)
            if rest:
                self.plain_in += self.dec.decrypt(rest)
    peer = Peer()
    plan = case.get('plan', 'whole')
    if isinstance(plan, tuple):
        plan = list(plan)
    world = vnet.World(servers=[peer], plan=plan)
    world.block_guard = 0
    inp, out = case['inp'], case['out']
    got = []
    try:
        with vnet.installed(world):
            conn = C.Connection('localhost', 25565, username='u',
                                allowed_versions={757})
            conn._connect()
            conn.reactor = C.LoginReactor(conn)
            if preface_n:
                # an early outgoing listener on the reply that first sends
                # packets of its own (forced, so they precede the reply)
                from minecraft.networking.packets import serverbound as sb_
                ctx.label('packets_forced_ahead_of_encryption_response')

                def ahead(_p):
                    for i_ in range(preface_n):
                        pr = sb_.login.PluginResponsePacket()
                        pr.message_id, pr.successful = 70 + i_, False
                        conn.write_packet(pr, force=True)
                conn.register_packet_listener(
                    ahead, sb_.login.EncryptionResponsePacket,
                    outgoing=True, early=True)
            req = clientbound.login.EncryptionRequestPacket()
            req.context = conn.context
            req.server_id, req.public_key, req.verify_token = \
                '-', k['der'], token
            conn.reactor.react(req)
            if peer.secret is None or peer.token_back != token:
                ctx.fail('installed', 'E4-secret-not-recovered', case)
                return
            if len(peer.preface) != preface_n:
                ctx.fail('installed', 'E4-cleartext-ahead-of-reply', case,
                         len(peer.preface), preface_n)
                return
            # outbound through the installed socket wrapper
            pos = 0
            cuts = case.get('out_cuts') or [len(out) or 1]
            i = 0
            while pos < len(out):
                c = max(1, cuts[i % len(cuts)])
                conn.socket.send(out[pos:pos + c])
                pos += c
                i += 1
            # inbound: ciphertext from the peer, consumed via recv AND read
            peer.raw_emit(inp)
            peer.close()
            ops = list(case.get('in_ops') or [('read', 4096)])
            j = 0
            total = 0
            while total < len(inp):
                kind, n = ops[j % len(ops)]
                j += 1
                r = conn.socket.recv(max(1, n)) if kind == 'recv' \
                    else conn.file_object.read(max(1, n))
                if not r:
                    break
                got.append(r)
                total += len(r)
    except vnet.BlockedForever:
        ctx.fail('installed', 'E2-read-blocks', case)
        return
    except Exception as e:
        ctx.fail('installed', 'E-raises', case, exc=e)
        return
    if b''.join(got) != inp:
        g = b''.join(got)
        n = next((x for x in range(min(len(g), len(inp))) if g[x] != inp[x]),
                 min(len(g), len(inp)))
        ctx.fail('installed', 'E2-plaintext-mixed-recv-read', case,
                 'differs at byte %d of %d' % (n, len(inp)))
    if peer.plain_in != out:
        ctx.fail('installed', 'E1-ciphertext-installed', case)
    kinds = {o[0] for o in (case.get('in_ops') or [])}
    if len(kinds) == 2 and len(inp) > 16:
        ctx.nt('inst', peer.secret, inp, repr(case.get('in_ops')))
    ctx.label('installed_wrappers')


COMPONENTS = {'stream': stream_case, 'rsa': rsa_case,
              'login_secrets': login_secrets_case,
              'surface': surface_case,
              'secret_bits': secret_bits_case,
              'installed': installed_case}


def _stream_strategy(maxlen):
    secret = st.one_of(st.binary(min_size=16, max_size=16),
                       st.sampled_from([bytes(16), b'\xff' * 16,
                                        bytes(range(16))]))
    data = st.one_of(
        st.binary(max_size=80),
        st.integers(0, maxlen).map(lambda n: bytes(n)),
        st.integers(0, maxlen).map(lambda n: bytes(i % 256
                                                   for i in range(n))),
        st.integers(0, maxlen).flatmap(
            lambda n: st.binary(min_size=n, max_size=n)))
    cuts = st.one_of(st.just([1]), st.just([10 ** 6]),
                     st.lists(st.sampled_from([15, 16, 17]), min_size=1,
                              max_size=5),
                     st.lists(st.integers(1, 200), min_size=1, max_size=12))
    ops = st.lists(st.tuples(st.sampled_from(['recv', 'read']),
                             st.one_of(st.integers(1, 64),
                                       st.sampled_from([1, 15, 16, 17,
                                                        4096]))),
                   max_size=25)
    return st.fixed_dictionaries({
        'secret': secret, 'out': data, 'out_cuts': cuts, 'inp': data,
        'in_ops': ops, 'order': st.lists(st.booleans(), max_size=8),
        'short': st.one_of(st.just([]), st.lists(st.integers(1, 40),
                                                 min_size=1, max_size=6))})


def t_streams(ctx, n, maxlen, pure_every):
    def body(c, case):
        if pure_every and c.evaluations % pure_every == 0 and \
                len(case['out']) + len(case['inp']) <= 1200:
            case = dict(case, pure=True)
        stream_case(c, case)
        if c.evaluations % 200 == 1:
            c.sample({k: (v if not isinstance(v, bytes) or len(v) < 40
                          else '%d bytes' % len(v))
                      for k, v in case.items()}, 'stream')
    hyp(ctx, 'streams', _stream_strategy(maxlen), body, n)


def t_fixed(ctx):
    secret_bits_case(ctx, {'n': 256})
    for secret in (bytes(16), b'\xff' * 16, bytes(range(16))):
        surface_case(ctx, {'secret': secret, 'before': b'earlier bytes',
                           'probe': b'PLAINTEXT-PROBE-0123456789',
                           'inp': bytes(range(40, 90))})
    for secret in (bytes(16), b'\xff' * 16, bytes(range(16))):
        for n in (0, 1, 15, 16, 17, 31, 32, 33, 255, 1024):
            data = bytes((i * 7) % 256 for i in range(n))
            for cuts in ([1], [10 ** 6], [15], [16], [17], [3, 16, 5]):
                for pure in (False, True):
                    if pure and n > 300:
                        continue
                    stream_case(ctx, {
                        'secret': secret, 'out': data, 'out_cuts': cuts,
                        'inp': data[::-1],
                        'in_ops': [('recv', c) if j % 2 else ('read', c)
                                   for j, c in enumerate(cuts * 3)],
                        'order': [True, False], 'pure': pure,
                        'short': [] if n % 2 else [5, 16, 3]})
    ctx.exhaustive_done('fixed secrets x lengths around the block size x '
                        'partitions, pure and fast reference')


# (the server's key is whatever RSA key it has: other public exponents than
# F4 are as valid - '<bits>e<e>' names the fixture modulus with exponent e)
KEYS = [1024, 2048, '2048e3', '2048e17', '1024e257', '1024e65539']


def t_rsa(ctx, n):
    for bits in KEYS:
        for tl in (1, 4, 16, 64):
            rsa_case(ctx, {'bits': bits, 'token': bytes(range(tl)),
                           'secret': bytes(16)})
            rsa_case(ctx, {'bits': bits, 'token': b'\x00' * tl,
                           'secret': b'\x00' * 16})
    strat = st.fixed_dictionaries({
        'bits': st.sampled_from(KEYS),
        'token': st.binary(min_size=1, max_size=64),
        'secret': st.binary(min_size=16, max_size=16)})

    def body(c, case):
        rsa_case(c, case)
        if c.evaluations % 100 == 1:
            c.sample(case, 'rsa')
    hyp(ctx, 'rsa', strat, body, n)


def t_installed(ctx, n):
    data = st.one_of(st.binary(max_size=100),
                     st.integers(0, 3000).map(
                         lambda m: bytes(i % 253 for i in range(m))))
    ops = st.lists(st.tuples(st.sampled_from(['recv', 'read']),
                             st.sampled_from([1, 5, 15, 16, 17, 64, 300])),
                   min_size=1, max_size=12)
    strat = st.fixed_dictionaries({
        'bits': st.sampled_from([1024, 1024, 2048]),
        'token': st.binary(min_size=1, max_size=64),
        'inp': data, 'out': data, 'in_ops': ops,
        'out_cuts': st.lists(st.integers(1, 200), min_size=1, max_size=5),
        'plan': st.one_of(st.just('whole'), st.just('one'),
                          st.lists(st.integers(1, 50), min_size=1,
                                   max_size=5))})

    def body(c, case):
        installed_case(c, case)
        if c.evaluations % 50 == 1:
            c.sample({k_: (v if not isinstance(v, bytes) or len(v) < 40
                           else '%d bytes' % len(v))
                      for k_, v in case.items()}, 'installed')
    for ops_ in ([('read', 27)], [('recv', 29)],
                 [('read', 300), ('recv', 300)], [('recv', 1), ('read', 1)]):
        installed_case(ctx, {'inp': bytes(range(256)) * 12,
                             'out': bytes(range(200)) * 15, 'in_ops': ops_,
                             'out_cuts': [100, 1, 17], 'plan': 'whole'})
    hyp(ctx, 'installed', strat, body, n)


def t_logins(ctx, k, version, bits):
    login_secrets_case(ctx, {'k': k, 'version': version, 'bits': bits})
    for env in ('seeded', 'frozen_clock'):
        login_secrets_case(ctx, {'k': max(3, k // 4), 'version': version,
                                 'bits': bits, 'env': env})
    ctx.sample({'k': k, 'version': version, 'bits': bits}, 'logins')


def tasks(tier):
    q = tier == 'quick'
    tl = [('fixed', t_fixed, {})]
    for i in range(5 if q else 12):
        tl.append(('streams_%d' % i, t_streams,
                   dict(n=600 if q else 5000, maxlen=1024 if q else 6144,
                        pure_every=10 if q else 50)))
    for i in range(2 if q else 4):
        tl.append(('rsa_%d' % i, t_rsa, dict(n=150 if q else 1500)))
    for i in range(2 if q else 6):
        tl.append(('installed_%d' % i, t_installed,
                   dict(n=100 if q else 3000)))
    for i, (v, b) in enumerate([(757, 1024), (47, 2048), (340, 1024),
                                (578, 1024), (757, '2048e3'),
                                (340, '1024e257')]):
        tl.append(('logins_%d' % i, t_logins,
                   dict(k=24 if q else 200, version=v, bits=b)))
    return tl
