"""C17 - session server hash equals Java's signed-hex SHA-1 for all inputs.
Differential against a byte-level two's-complement reference."""
import hashlib

from hypothesis import strategies as st

from vlib import rsa
from vlib.runner import hyp

PROPERTY = 'C17'
LEVEL = 'exploration'
RULE = ('Keys also in other valid DER encodings (bare PKCS#1, SPKI '
        'without NULL parameters, BER long-form length). '
'(server id, secret, key) triples: the three published vectors '
        '(Notch, jeb_, simon), ASCII / multi-byte UTF-8 / empty / 20-char '
        'ids, 16-byte and 0-64-byte secrets, fixture DER keys and random '
        'byte strings; searched inputs (a counter appended to the id until '
        'the SHA-1 digest falls into each edge class: top bit set, negative '
        'with leading zero nibbles after negation, positive with leading '
        'zero nibble / zero byte, 0xFF leading byte); crafted 20-byte '
        'digests handed to the digest formatter through a stub hash object '
        '(all zero, 80 00.., ff..ff, 00..01, ...). Oracle: result == '
        'java_hex(sha1(utf8(id) | secret | key)) computed by manual two\'s '
        'complement negation on the byte string; format: lower-case, no '
        'leading zeros, "-" iff top bit set, never "-0". Non-trivial: '
        'digest class other than "positive without leading zero nibble"; '
        'distinct by digest.')
RULE += (' ' +
         'Added in later rounds: four DER encodings of the key; the full '
         'login path (delegated to C10) with non-ASCII and dash-prefixed '
         'server ids and with a session service that refuses the first join '
         'attempts (every join names one hash); two overlapping join() calls '
         'on shared and separate tokens. Round 11: secret and key as '
         'bytearray / memoryview / array / slice of a view. Round 16: server '
         'ids of 127 / 128 / 300 / 16383 / 16384 / 18000 UTF-8 bytes. ')
LEVEL_TEXT = ('Differential testing against an independent Java-BigInteger '
              'hex reference with directed search for every digest edge '
              'class plus crafted digests and seeded random inputs.')
LEVEL_NOTE = ('Trusted: hashlib.sha1, vlib/rsa.py java_hex (checked on the '
              'three published vectors at start). The argument order at the '
              'login call site is checked in C10 (clause L5).')
TECHNIQUE = ('property-based differential testing with directed search for '
             'digest edge classes')
ASSUMPTIONS = ['hashlib.sha1 is correct']

VECTORS = [('Notch', '4ed1f46bbe04bc756bcb17c0c7ce3e4632f06a48'),
           ('jeb_', '-7c9d5b0044c130109a5d7b5fb5c317c02b4e28c1'),
           ('simon', '88e16a1019277b15d58faf0541e11910eb756f6')]


def digest_class(d):
    if d[0] & 0x80:
        h = rsa.java_hex(d)[1:]
        z = 40 - len(h)
        if d[0] == 0xFF:
            return 'neg_ff_lead'
        return 'neg_zero_nibbles_%d' % min(z, 2) if z else 'neg_plain'
    if d[0] == 0:
        return 'pos_zero_byte'
    if d[0] < 0x10:
        return 'pos_zero_nibble'
    return 'pos_plain'


def check_format(ctx, comp, case, got):
    ok = isinstance(got, str) and got == got.lower() and got not in ('-0', '')
    if ok:
        body = got[1:] if got.startswith('-') else got
        ok = all(c in '0123456789abcdef' for c in body) and body != '' and \
            (body == '0' or not body.startswith('0'))
    if not ok:
        ctx.fail(comp, 'J-format', case, got)


BUFFERS = ['bytes', 'bytearray', 'memoryview', 'array', 'view_slice']


def _as(form, b):
    import array
    if form == 'bytearray':
        return bytearray(b)
    if form == 'memoryview':
        return memoryview(b)
    if form == 'array':
        return array.array('B', b)
    if form == 'view_slice':
        return memoryview(b'\x01\x02' + b + b'\x03')[2:-1]
    return b


def triple_case(ctx, case):
    from minecraft.networking import encryption
    sid, secret, key = case['server_id'], case['secret'], case['key']
    ctx.ev()
    d = hashlib.sha1(sid.encode('utf-8') + secret + key).digest()
    want = rsa.java_hex(d)
    # 'as': the same bytes handed over as another buffer type (a slice of a
    # received frame kept as a view, a mutable buffer): same hash
    forms = case.get('as') or ['bytes', 'bytes']
    if forms != ['bytes', 'bytes']:
        ctx.label('triple_buffer_types')
    try:
        got = encryption.generate_verification_hash(
            sid, _as(forms[0], secret), _as(forms[1], key))
    except Exception as e:
        ctx.fail('triple', 'J1-raises', case, exc=e)
        return
    if got != want:
        ctx.fail('triple', 'J1-hash', case, got, want)
    check_format(ctx, 'triple', case, got)
    k = digest_class(d)
    ctx.label('class_' + k)
    if k != 'pos_plain':
        ctx.nt(d)


class _Stub(object):
    def __init__(self, d):
        self._d = d

    def digest(self):
        return self._d


def digest_case(ctx, case):
    from minecraft.networking import encryption
    d = case['digest']
    ctx.ev()
    want = rsa.java_hex(d)
    for kind in ('stub', 'real') if case.get('preimage') is not None \
            else ('stub',):
        h = _Stub(d) if kind == 'stub' else hashlib.sha1(case['preimage'])
        try:
            got = encryption.minecraft_sha1_hash_digest(h)
        except Exception as e:
            ctx.fail('digest', 'J2-raises', case, exc=e)
            return
        if got != want:
            ctx.fail('digest', 'J2-hash', case, got, want)
        check_format(ctx, 'digest', case, got)
    k = digest_class(d)
    ctx.label('class_' + k)
    if k != 'pos_plain':
        ctx.nt(d)


def vector_case(ctx, case):
    from minecraft.networking import encryption
    ctx.ev()
    name, want = case['name'], case['want']
    got = encryption.generate_verification_hash(name, b'', b'')
    if got != want:
        ctx.fail('vector', 'J3-published-vector', case, got, want)
    got2 = encryption.minecraft_sha1_hash_digest(hashlib.sha1(name.encode()))
    if got2 != want:
        ctx.fail('vector', 'J3-published-vector', case, got2, want)
    ctx.nt('vector', name)


def login_case(ctx, case):
    """The hash that actually reaches the session service: a complete
    encrypted login on the in-memory network (C10's scripted server and
    oracle; clause L5-session-join compares the argument of join() with the
    reference hash over the bytes the server sent)."""
    from props import c10_login
    c10_login.login_case(ctx, case)


def join_overlap_case(ctx, case):
    """Two connections that share one auth token reach the session service
    at the same time: each join() posts ITS hash (C19's overlap machinery
    with a local HTTP stand-in; A suspended at its k-th line, B complete in
    between)."""
    from props import c19_auth
    c19_auth.overlap_case(ctx, case)


def repeated_request_case(ctx, case):
    """'... the server id, the shared secret and the server's encoded public
    key': the key (and the id) of the request being answered.  One login
    reaction object is handed several encryption requests that name
    different keys and ids (a server - or whoever sits between - asking
    again); every join() it makes carries the hash over the id and key of
    the request it answers and over the secret sent in that answer.  A
    library that refuses a repeated request (any exception) makes no join
    for it, which is not judged here.
    case {version, requests: [(bits, encoding, server id)]}"""
    from props import c10_login
    from vlib import vnet
    from minecraft.networking import connection as C
    from minecraft.networking.packets import clientbound, \
        serverbound as sb_
    ctx.ev()
    version = case['version']

    class Quiet(servers_mod().Script):
        def on_bytes(self, data):
            pass
    world = vnet.World(servers=[Quiet()])
    world.block_guard = 0
    tok = c10_login.Tok('Name')
    secrets = []
    want, refused = [], 0
    try:
        with vnet.installed(world):
            conn = C.Connection('localhost', 25565, auth_token=tok,
                                allowed_versions={version})
            conn._connect()
            conn.reactor = C.LoginReactor(conn)
            cur = {}

            def grab(p):
                secrets.append(rsa.decrypt_pkcs1_v15(cur['k'],
                                                     bytes(p.shared_secret)))
            conn.register_packet_listener(
                grab, sb_.login.EncryptionResponsePacket, outgoing=True,
                early=True)
            for bits, enc_, sid in case['requests']:
                cur['k'] = rsa.key(bits)
                der = rsa.key_encodings(bits)[enc_]
                req = clientbound.login.EncryptionRequestPacket()
                req.context = conn.context
                req.server_id, req.public_key, req.verify_token = \
                    sid, der, b'\x01\x02\x03\x04'
                n_sec, n_join = len(secrets), len(tok.joins)
                try:
                    conn.reactor.react(req)
                except Exception:
                    if len(tok.joins) == n_join:
                        refused += 1
                        break
                    raise
                if len(secrets) != n_sec + 1:
                    ctx.fail('repeated_request', 'J4-no-reply-to-request',
                             case, len(secrets) - n_sec, 1)
                    return
                if sid != '-':
                    want.append(rsa.java_hex(hashlib.sha1(
                        sid.encode('utf-8') + secrets[-1] + der).digest()))
    except Exception as e:
        ctx.fail('repeated_request', 'J4-raises', case, exc=e)
        return
    if refused:
        ctx.label('repeated_request_refused')
    if tok.joins != want:
        ctx.fail('repeated_request', 'J4-join-hash-of-the-request-answered',
                 case, tok.joins, want)
        return
    if len(want) > 1:
        ctx.nt('repeated_request', repr(case['requests']))
    ctx.label('repeated_encryption_requests')


def servers_mod():
    from vlib import servers
    return servers


def t_repeated_request(ctx):
    combos = [(1024, 'spki'), (2048, 'spki'), (1024, 'pkcs1'),
              (2048, 'spki_no_null')]
    ids = ['srv', '\u00e9', '', 'q' * 130]
    k = 0
    for v in (47, 340, 757):
        for a in combos:
            for b in combos:
                k += 1
                reqs = [a + (ids[k % 4],), b + (ids[(k + 1) % 4],)]
                if k % 3 == 0:
                    reqs.append(combos[k % 4] + (ids[(k + 2) % 4],))
                if k % 5 == 0:
                    reqs.insert(1, (1024, 'spki', '-'))
                repeated_request_case(ctx, {'version': v, 'requests': reqs})
    ctx.sample({'version': 757, 'requests': [(1024, 'spki', 'srv'),
                                             (2048, 'spki', 'srv')]},
               'repeated_request')
    ctx.exhaustive_done('repeated encryption requests on one login '
                        'reaction: 3 protocols x 16 key pairs')


COMPONENTS = {'repeated_request': repeated_request_case,
              'triple': triple_case, 'digest': digest_case,
              'vector': vector_case, 'login': login_case,
              'overlap': join_overlap_case}


def t_fixed(ctx):
    for n, w in VECTORS:
        assert rsa.java_hex(hashlib.sha1(n.encode()).digest()) == w
        vector_case(ctx, {'name': n, 'want': w})
    crafted = [bytes(20), bytes(19) + b'\x01', b'\x80' + bytes(19),
               b'\xff' * 20, b'\xff' * 19 + b'\x00', b'\x7f' + b'\xff' * 19,
               b'\x00' * 10 + b'\x80' + bytes(9), b'\x80' + bytes(18) + b'\x01',
               b'\xff' * 10 + bytes(10), b'\x00\x00\x01' + bytes(17),
               b'\x0f' + b'\xff' * 19, b'\xf0' + bytes(19),
               b'\xff\xf0' + bytes(18), b'\x00\x80' + bytes(18)]
    for k in range(160):
        crafted.append(((1 << k)).to_bytes(20, 'big'))
        crafted.append(((1 << 160) - (1 << k)).to_bytes(20, 'big'))
    for d in crafted:
        digest_case(ctx, {'digest': d})
    ctx.sample({'digest': b'\x80' + bytes(19)}, 'digest')
    ctx.exhaustive_done('published vectors; crafted digests incl. every '
                        'single-bit and every 2^160-2^k pattern')
    from vlib import rsa as R
    ids = ['', '-', 'Notch', 'a' * 20, 'é世\U0001f600', '\x00', ' ',
           # ids around the 1- / 2- / 3-byte length-prefix boundaries of a
           # protocol string (the hash covers the text only)
           'S' * 127, 'S' * 128, 'é' * 64, 'id-' * 100, 'x' * 16383,
           'y' * 16384, '世' * 6000]
    secrets = [b'', bytes(16), b'\xff' * 16, bytes(range(16))]
    keys = [b'', R.key(1024)['der'], R.key(2048)['der'], b'\x00' * 3] + \
        [v for b in (1024, 2048)
         for k_, v in sorted(R.key_encodings(b).items()) if k_ != 'spki']
    for i in ids:
        for s in secrets:
            for k in keys:
                triple_case(ctx, {'server_id': i, 'secret': s, 'key': k})
    n = 0
    for i in ids[:4]:
        for fa in BUFFERS:
            for fb in BUFFERS:
                n += 1
                triple_case(ctx, {'server_id': i, 'secret': secrets[n % 4],
                                  'key': keys[n % len(keys)],
                                  'as': [fa, fb]})


def t_search(ctx, base, budget):
    """append a counter to the id until each edge class has been hit"""
    want = {'neg_plain', 'neg_zero_nibbles_1',
            'pos_zero_nibble', 'pos_zero_byte', 'neg_ff_lead'}
    found = {}
    secret, key = bytes(range(16)), rsa.key(1024)['der']
    i = 0
    while i < budget and (len(found) < len(want) or i < 2000):
        sid = '%s%d' % (base, i)
        d = hashlib.sha1(sid.encode('utf-8') + secret + key).digest()
        k = digest_class(d)
        if k in want and found.get(k, 0) < 4:
            found[k] = found.get(k, 0) + 1
            triple_case(ctx, {'server_id': sid, 'secret': secret,
                              'key': key})
            digest_case(ctx, {'digest': d,
                              'preimage': sid.encode('utf-8') + secret + key})
            if found[k] == 1:
                ctx.sample({'server_id': sid, 'class': k,
                            'digest': d.hex()}, 'searched')
        i += 1
    ctx.label('search_iterations')
    ctx.labels['search_iterations'] += i - 1
    for k in want:
        if k not in found:
            ctx.notes.append('search did not reach class %s within %d tries'
                             % (k, budget))


def t_random(ctx, n):
    strat = st.fixed_dictionaries({
        'server_id': st.one_of(st.text(max_size=20),
                               st.sampled_from([127, 128, 129, 200, 16384]
                                               ).map(lambda n: 's' * n),
                               st.text('0123456789abcdef', min_size=0,
                                       max_size=20), st.just('-')),
        'secret': st.one_of(st.binary(min_size=16, max_size=16),
                            st.binary(max_size=64)),
        'key': st.one_of(st.binary(max_size=300),
                         st.sampled_from(
                             [rsa.key(1024)['der'], rsa.key(2048)['der']] +
                             sorted(rsa.key_encodings(1024).values()) +
                             sorted(rsa.key_encodings(2048).values()))),
        'as': st.one_of(st.none(), st.lists(st.sampled_from(BUFFERS),
                                            min_size=2, max_size=2))})

    def body(c, case):
        triple_case(c, case)
        if c.evaluations % 500 == 1:
            c.sample(case, 'triple')
    hyp(ctx, 'random', strat, body, n)
    dg = st.one_of(st.binary(min_size=20, max_size=20),
                   st.integers(0, 12).flatmap(lambda z: st.binary(
                       min_size=20 - z, max_size=20 - z).map(
                           lambda b: bytes(z) + b)),
                   st.integers(1, 12).flatmap(lambda z: st.binary(
                       min_size=20 - z, max_size=20 - z).map(
                           lambda b: b'\xff' * z + b)))
    hyp(ctx, 'digests', dg.map(lambda d: {'digest': d}),
        lambda c, case: digest_case(c, case), n)


def t_login_path(ctx):
    ids = ['S' * 128, '\u00e9' * 64 + 'z', 'q' * 300] + \
          ['', 'Notch', '0123456789abcdef', 's\u00e9rveur-\u00fcn\u00ef',
           '\u670d\u52a1\u5668-01', 'id\U0001f600', '\x00', ' a ',
           '-5f3a9c0d12e4b7a1', '-1', '--', '-']
    k = 0
    for v in (47, 340, 757):
        for sid in ids:
            for enc_ in ('spki', 'pkcs1', 'spki_no_null'):
                k += 1
                if k % 3 and enc_ != 'spki':
                    continue
                login_case(ctx, {
                    'version': v, 'terminal': ('success',), 'token': True,
                    'takeover': False, 'plan': 'whole', 's2c_compress': [],
                    'steps': [('encrypt', [1024, 2048][k % 2],
                               b'\x01\x02\x03\x04', sid, enc_)]})
    # the session service answers the join with an error (transient 5xx,
    # 403, no status): every join the client sends names the same hash
    for v in (47, 340, 757):
        for sid in ids[:7] + ids[11:14]:
            for fails in ([503], [500], [403], [None], [502, 503]):
                login_case(ctx, {
                    'version': v, 'terminal': ('success',), 'token': True,
                    'takeover': False, 'plan': 'whole', 's2c_compress': [],
                    'join_fails': fails,
                    'steps': [('encrypt', 1024, b'\x01\x02\x03\x04', sid,
                               'spki')]})
    ctx.sample({'version': 757, 'server_id': ids[3], 'key': 'pkcs1'},
               'login')
    ctx.exhaustive_done('login path: 8 server ids x 3 protocols (x key '
                        'encodings, rotating)')


def t_join_overlap(ctx):
    hashes = ['-7c9d5b0044c130109a5d7b5fb5c317c02b4e28c1',
              '4ed1f46bbe04bc756bcb17c0c7ce3e4632f06a48', '0', '-1']
    for i, ha in enumerate(hashes):
        hb = hashes[(i + 1) % len(hashes)]
        for same in (True, False):
            for k in range(1, 60):
                before = ctx.labels.get('overlap_point_beyond_call', 0)
                join_overlap_case(ctx, {'a': ['join', ha], 'b': ['join', hb],
                                        'same_token': same, 'k': k})
                if ctx.labels.get('overlap_point_beyond_call', 0) > before:
                    break
    ctx.exhaustive_done('two overlapping join() calls, shared and separate '
                        'tokens, every suspension point')


def tasks(tier):
    q = tier == 'quick'
    tl = [('fixed', t_fixed, {}), ('login_path', t_login_path, {}),
          ('join_overlap', t_join_overlap, {}),
          ('repeated_request', t_repeated_request, {})]
    for i, base in enumerate(['srv', 'ä', '']):
        tl.append(('search_%d' % i, t_search,
                   dict(base=base, budget=200000 if q else 3000000)))
    for i in range(4 if q else 12):
        tl.append(('random_%d' % i, t_random, dict(n=2500 if q else 80000)))
    return tl
