"""C15 - a server that stops mid-conversation never hangs or spins the
client.  Every prefix length of reference conversations, deterministic
I/O-step budgets."""
import json

from hypothesis import strategies as st

from vlib import wire, vnet, servers
from vlib.runner import hyp

PROPERTY = 'C15'
LEVEL = 'fault_enumeration'
RULE = ('Reference conversations (status exchange; status-then-login with '
        'the crash point in the first and, separately, the second '
        'connection, with the default version inside and outside the '
        'allowed set; login with set-compression 0 / 256 and large frames; '
        'login with encryption; play traffic with keep-alives, an unknown '
        '300-byte frame, chat and a 3 KiB incompressible frame) at protocols '
        '47, 340, 404, 578, 754, 757, produced by scripted servers built on '
        'the reference codec. For every crash point n in 0..N (quick: every '
        'n of short streams, every 7th plus all frame boundaries +-2 of '
        'long ones) the server sends exactly n bytes and then end-of-stream; '
        'read segmentation whole / 1-byte / random. Oracle: reads returning '
        'end-of-stream stay <= 64 per connection (the fake stops a spinning '
        'thread at 3000 and the case fails - deterministic, no timer); the '
        'thread terminates; an error reaches the handlers or (status phase '
        'of a negotiating connect) the documented fallback connection with '
        'the default version is made; for n = N the normal outcome; the '
        'packets seen by an early listener are exactly the frames wholly '
        'contained in the first n bytes. Non-trivial: n strictly inside a '
        'frame; distinct by (conversation, protocol, link, n, plan).')
RULE += (' ' +
         'Added in later rounds: a default version outside the allowed set; '
         'a 1.5 MiB frame cut at 14 offsets; the status / negotiation '
         'conversations on a Connection object whose earlier negotiating '
         "connect() had failed. Round 11: component select - the client's "
         'own select() fails from its n-th call on (descriptor out of range, '
         'EBADF, ENOMEM); the thread must end and report, >300 further calls '
         'is a busy loop. Round 12: conversation negotiate_gone - the status '
         'conversation cut at every offset with every later connection '
         'refused: an error must be reported. Round 16: status conversations '
         'with the default response / ping handlers under truncation '
         '(status_default). ')
LEVEL_TEXT = ('Enumeration of every crash point (byte offset) of reference '
              'server conversations with deterministic step budgets; '
              'exhaustive per stream in the thorough tier, strided with all '
              'frame-boundary neighbourhoods in the quick tier.')
LEVEL_NOTE = ('Trusted: in-memory transport (conformance-tested against a '
              'real socketpair at start-up), scripted servers on the '
              'reference codec. Busy loops are detected by counting reads '
              'that return end-of-stream, not by time; the join timeout is '
              'a harness guard (exit 2).')
TECHNIQUE = ('fault enumeration over every byte offset of scripted '
             'conversations on an in-memory network with step budgets')
ASSUMPTIONS = ['a closed TCP stream reports readable and returns b"" for '
               'ever (as real sockets do)']

PROTOCOLS = [47, 340, 404, 578, 754, 757]
MAX_EOF_READS = 3000
EOF_READ_LIMIT = 64


def _big(n, seed):
    # incompressible-ish deterministic bytes
    import hashlib
    out = bytearray()
    i = 0
    while len(out) < n:
        out += hashlib.sha256(b'%d:%d' % (seed, i)).digest()
        i += 1
    return bytes(out[:n])


def status_json(version):
    return json.dumps({'version': {'name': 'x', 'protocol': version},
                       'description': {'text': 'hi'},
                       'players': {'max': 1, 'online': 0}})


def play_spec(version, heavy):
    ka = [0, 127, 128, 2 ** 31 - 1]
    if servers.keep_alive_is_long(version):
        ka += [2 ** 40, -1]
    b = [[('keep_alive', {'keep_alive_id': k})] for k in ka[:3]]
    b.append([('raw', 0x7A, _big(300, 1))])
    b.append([('chat', _chat(version, '{"text":"hello"}'))])
    if heavy:
        b.append([('raw', 0x79, _big(3000, 2))])
    b.append([('keep_alive', {'keep_alive_id': ka[-1]})])
    return {'bursts': b, 'mode': 'all', 'end': 'disconnect'}


def _chat(version, text):
    lay = dict(servers.packet_info(version, 'chat')[1])
    v = {'json_data': text, 'position': 1}
    if 'sender' in lay:
        v['sender'] = '00000000-0000-0000-0000-000000000000'
    return v


def default_outside(version):
    other = 47 if version != 47 else 340
    return next(v for v in (757, 340, 47, 498) if v not in (version, other))


def conversation(kind, version):
    """-> (server specs per TCP connection, client kwargs, entry)"""
    if kind == 'negotiate_gone':
        # the server stops in the middle of the status conversation and is
        # then gone altogether: the documented fallback connection is
        # refused - that failure is the error to report
        specs, kw, entry = conversation('negotiate', version)
        return specs[:1], kw, entry
    if kind.endswith('+prior'):
        # the same conversation on a Connection object that has already been
        # through a session: a negotiating connect() whose status query was
        # answered with '{}' (error reported, session over) - see run()
        specs, kw, entry = conversation(kind[:-6], version)
        other = 47 if version != 47 else 340
        kw = dict(kw, allowed_versions={version, other})
        return specs, kw, entry
    if kind == 'status':
        return ([{'version': version,
                  'status': {'reply': status_json(version)}}],
                {'allowed_versions': {version}}, 'status')
    if kind == 'status_default':
        # the same conversation asked for with the DEFAULT handlers (they
        # print): status(handle_status=None, handle_ping=None)
        return ([{'version': version,
                  'status': {'reply': status_json(version)}}],
                {'allowed_versions': {version}}, 'status_default')
    if kind == 'negotiate':
        other = 47 if version != 47 else 340
        return ([{'version': version,
                  'status': {'reply': status_json(version),
                             'close_after_reply': True}},
                 {'version': version, 'login': [('success',)],
                  'play': {'bursts': [[('keep_alive', {'keep_alive_id': 5})]],
                           'end': 'disconnect'}}],
                {'allowed_versions': {version, other},
                 'initial_version': version}, 'connect')
    if kind == 'negotiate_out':
        # the default version is NOT one of the allowed ones (nothing says
        # it must be): the fallback after an unanswered status query still
        # uses it
        other = 47 if version != 47 else 340
        return ([{'version': version,
                  'status': {'reply': status_json(version),
                             'close_after_reply': True}},
                 {'version': version, 'adopt_version': True,
                  'login': [('success',)],
                  'play': {'bursts': [[('keep_alive', {'keep_alive_id': 5})]],
                           'end': 'disconnect'}}],
                {'allowed_versions': {version, other},
                 'initial_version': default_outside(version)}, 'connect')
    if kind in ('compress0', 'compress256'):
        t = 0 if kind == 'compress0' else 256
        return ([{'version': version,
                  'login': [('compress', t), ('success',)],
                  'play': play_spec(version, True)}],
                {'allowed_versions': {version}}, 'connect')
    if kind == 'encrypt':
        return ([{'version': version,
                  'login': [('encrypt', 1024, b'\x09\x08\x07\x06', '-'),
                            ('compress', 64), ('success',)],
                  'play': play_spec(version, False)}],
                {'allowed_versions': {version}}, 'connect')
    if kind == 'play':
        return ([{'version': version, 'login': [('success',)],
                  'play': play_spec(version, True)}],
                {'allowed_versions': {version}}, 'connect')
    if kind == 'bigframe':
        # one frame well beyond 1 MiB between two keep-alives
        return ([{'version': version, 'login': [('success',)],
                  'play': {'bursts': [
                      [('keep_alive', {'keep_alive_id': 1})],
                      [('raw', 0x7A, _big(1536 * 1024, 3))],
                      [('keep_alive', {'keep_alive_id': 2})]],
                      'mode': 'all', 'end': 'disconnect'}}],
                {'allowed_versions': {version}}, 'connect')
    raise ValueError(kind)


KINDS = ['status', 'negotiate', 'negotiate_out', 'compress0',
         'compress256', 'encrypt', 'play']


SELECT_ERRORS = {
    'fd_out_of_range': lambda: ValueError(
        'filedescriptor out of range in select()'),
    'ebadf': lambda: OSError(9, 'Bad file descriptor'),
    'enomem': lambda: OSError(12, 'Cannot allocate memory'),
}


def run(kind, version, cut_link, cut_n, plan, select_fail=None):
    """Run one conversation; the server of TCP connection number cut_link
    stops after cut_n bytes (None: no cut).  select_fail [n, name]: from its
    n-th call on, select() raises."""
    specs, kw, entry = conversation(kind, version)
    srvs = []
    for i, sp in enumerate(specs):
        sp = dict(sp)
        if cut_n is not None and i == cut_link:
            sp['cut'] = cut_n
        srvs.append(servers.Server(sp))
    prior = kind.endswith('+prior')
    pre = [servers.Server({'version': version, 'status': {'reply': '{}'}})] \
        if prior else []
    # extra connections (fallback) get a fresh copy of the last spec
    world = vnet.World(servers=pre + list(srvs),
                       default=(lambda addr: _extra(srvs, specs))
                       if kind != 'negotiate_gone' else 'refuse', plan=plan)
    if select_fail:
        world.select_fail = (select_fail[0],
                             SELECT_ERRORS[select_fail[1]]())
    seen = []
    status_calls = []
    off = len(pre)
    with vnet.installed(world):
        conn, o = servers.make_connection(world, **kw)
        if prior:
            conn.connect()
            st0 = world.settle()
            if st0 != 'done' or len(o.exceptions) != 1 or \
                    len(world.links) != 1:
                # judged by C09/C16; here it is only the pre-history
                from vlib.core import HarnessError
                raise HarnessError('C15 prior session: %r %r' % (
                    st0, [repr(e[0]) for e in o.exceptions]))
            del o.exceptions[:]
            o.exits = 0
        from minecraft.networking.packets import Packet
        conn.register_packet_listener(
            lambda p: seen.append((len(world.links) - 1 - off, p.id,
                                   getattr(p, 'keep_alive_id', None))),
            Packet, early=True)
        orig_accept = world.accept

        def accept(addr):
            link = orig_accept(addr)
            link.max_eof_reads = MAX_EOF_READS
            return link
        world.accept = accept
        err = None
        try:
            if entry == 'status_default':
                import contextlib
                import io
                with contextlib.redirect_stdout(io.StringIO()):
                    conn.status(handle_status=None, handle_ping=None)
                    alive = world.settle()
            elif entry == 'status':
                conn.status(handle_status=status_calls.append,
                            handle_ping=status_calls.append)
            else:
                conn.connect()
        except Exception as e:
            err = e
        alive = world.settle()
    return {'world': world, 'servers': srvs, 'o': o, 'seen': seen,
            'status_calls': status_calls, 'alive': alive, 'err': err,
            'conn': conn, 'links': world.links[off:]}


def _extra(srvs, specs):
    s = servers.Server(dict(specs[-1]))
    srvs.append(s)
    return s


_full_cache = {}
def boundaries(kind, version, link_index):
    """cumulative end offsets of the frames the server sends on the given
    link in the uncut conversation, and total N (measured by a full run
    whose emission is recorded per frame)."""
    key = ('b', kind, version, link_index)
    if key in _full_cache:
        return _full_cache[key]
    specs, kw, entry = conversation(kind, version)
    r = run(kind, version, 0, None, 'whole')
    s = r['servers'][link_index]
    link = r['links'][link_index]
    ends = []
    pos = 0
    for seq, k, info in link.events:
        if k == 'emit':
            pos += info
            ends.append(pos)
    _full_cache[key] = (ends, pos, r)
    return _full_cache[key]


def cut_case(ctx, case):
    """case {kind, version, link, n, plan}"""
    kind, version, li, n = (case['kind'], case['version'], case['link'],
                            case['n'])
    plan = case.get('plan', 'whole')
    if isinstance(plan, tuple):
        plan = list(plan)
    ends, N, full = boundaries(kind, version, li)
    ctx.ev()
    r = run(kind, version, li, n, plan)
    world, o = r['world'], r['o']
    if kind.endswith('+prior'):
        ctx.label('after_an_earlier_failed_session')
        kind = kind[:-6]
    inside = n not in ends and 0 < n < N
    if r['alive'] == 'timeout':
        from vlib.core import HarnessError
        raise HarnessError('C15 case did not settle: %r' % (case,))
    if r['alive'] == 'blocked':
        ctx.fail('cut', 'H2-blocked-in-read', case)
        return
    if r['alive'] == 'idle':
        ctx.fail('cut', 'H2-thread-did-not-terminate', case,
                 'thread idles for ever after end-of-stream')
        return
    if world.blocked:
        ctx.fail('cut', 'H2-blocked-in-read', case)
    spin = max((l.eof_reads for l in world.links), default=0)
    if spin > EOF_READ_LIMIT:
        ctx.fail('cut', 'H1-busy-loop-after-eof', case,
                 '%d reads returned end-of-stream' % spin,
                 '<= %d' % EOF_READ_LIMIT)
        return
    if r['err'] is not None:
        ctx.fail('cut', 'H3-entry-call-raised', case, exc=r['err'])
        return
    # H4: complete frames delivered, nothing else (on the cut link)
    complete = sum(1 for e in ends if e <= n)
    got = [s for s in r['seen'] if s[0] == li]
    want_ids = [pid for pid, payload in full['servers'][li].sent_log]
    if [g[1] for g in got] != want_ids[:complete]:
        ctx.fail('cut', 'H4-delivered-packets', case,
                 [g[1] for g in got], want_ids[:complete])
    # H3: outcome
    normal = n >= N
    reported = bool(o.exceptions)
    if kind == 'negotiate_gone':
        # whatever was received, the next connection (fallback or login) is
        # refused: that is reported, never swallowed
        if not reported:
            ctx.fail('cut', 'H3-silent', case,
                     'no error reported although the follow-up connection '
                     'was refused; exits=%d' % o.exits, 'an error')
        ctx.label('outcome_follow_up_connection_refused')
        if inside:
            ctx.nt(kind, version, li, n, repr(plan))
        return
    if normal:
        if reported:
            ctx.fail('cut', 'H3-normal-outcome', case,
                     repr(o.exceptions[0][0]), 'no error')
        if kind == 'status_default':
            pass            # (the default handlers print; nothing to count)
        elif kind == 'status':
            if len(r['status_calls']) != 2:
                ctx.fail('cut', 'H3-normal-outcome', case,
                         r['status_calls'], 'status and latency handlers')
        elif o.exits != 1:
            ctx.fail('cut', 'H3-normal-outcome', case,
                     'exits=%d' % o.exits, 1)
    else:
        fallback = False
        if kind.startswith('negotiate') and li == 0:
            # documented fallback: a further connection with the default
            # version logging in
            dflt = version if kind == 'negotiate' else \
                default_outside(version)
            hs = [s.handshake for s in r['servers'][1:] if s.handshake]
            fallback = any(h['next_state'] == 2 and
                           h['protocol_version'] == dflt for h in hs)
        status_done = kind.startswith('negotiate') and li == 0 and \
            complete >= 1
        if not reported and not fallback and not status_done:
            ctx.fail('cut', 'H3-silent', case,
                     'no error reported, no fallback connection; exits=%d'
                     % o.exits, 'an error or the documented fallback')
        ctx.label('outcome_fallback' if fallback else
                  'outcome_error' if reported else 'outcome_status_complete')
    if inside:
        ctx.nt(kind, version, li, n, repr(plan))
        ctx.label('cut_inside_frame')
    else:
        ctx.label('cut_at_boundary')


def select_case(ctx, case):
    """The conversation goes on undisturbed but the client's own select()
    starts failing at its n-th call (a descriptor number beyond FD_SETSIZE
    in a process with many open files, EBADF, ENOMEM): the networking thread
    must not spin or hang - it terminates and the error is reported.
    case {kind, version, n, error}"""
    kind, version = case['kind'], case['version']
    ctx.ev()
    r = run(kind, version, 0, None, 'whole',
            select_fail=[case['n'], case['error']])
    world, o = r['world'], r['o']
    if world.select_spin:
        ctx.fail('select', 'H1-busy-loop-after-select-error', case,
                 'select() called > 300 more times after it began to fail',
                 'the thread ends')
        return
    if r['alive'] == 'timeout':
        from vlib.core import HarnessError
        raise HarnessError('C15 select case did not settle: %r' % (case,))
    if r['alive'] in ('idle', 'blocked'):
        ctx.fail('select', 'H2-thread-did-not-terminate', case, r['alive'])
        return
    if r['err'] is not None:
        ctx.fail('select', 'H3-entry-call-raised', case, exc=r['err'])
        return
    if world.select_fail_hits == 0:
        ctx.label('select_fault_after_the_session_ended')
        return
    if not o.exceptions:
        ctx.fail('select', 'H3-silent', case,
                 'select() failed %d time(s), no error reported; exits=%d'
                 % (world.select_fail_hits, o.exits), 'an error')
        return
    ctx.nt('select', kind, version, case['n'], case['error'])
    ctx.label('select_fault')


COMPONENTS = {'cut': cut_case, 'select': select_case}


def cut_points(ends, N, quick):
    if not quick or N <= 160:
        return list(range(0, N + 1))
    pts = set(range(0, N + 1, 7)) | {N}
    for e in [0] + ends:
        for d in (-2, -1, 0, 1, 2):
            if 0 <= e + d <= N:
                pts.add(e + d)
    pts |= set(range(0, 40))
    return sorted(pts)


def t_conv(ctx, kind, version, shard, nshards, quick):
    nlinks = 2 if kind.startswith('negotiate') and \
        kind != 'negotiate_gone' else 1
    plans = ['whole', 'one', [3, 1, 7, 2, 50]]
    if kind.endswith('+prior'):
        plans = ['whole']
    work = []
    for li in range(nlinks):
        ends, N, full = boundaries(kind, version, li)
        if full['o'].exceptions and li == 0 and kind != 'negotiate_gone':
            ctx.fail('cut', 'H3-normal-outcome',
                     {'kind': kind, 'version': version, 'link': li, 'n': N},
                     repr(full['o'].exceptions[0][0]), 'no error')
            return
        for n in cut_points(ends, N, quick):
            for pi, plan in enumerate(plans):
                if quick and N > 160 and pi != (n % 3) and n not in ends:
                    continue
                work.append((li, n, plan))
    for k, (li, n, plan) in enumerate(work):
        if k % nshards != shard:
            continue
        case = {'kind': kind, 'version': version, 'link': li, 'n': n,
                'plan': plan}
        cut_case(ctx, case)
        if k % 997 == 0:
            ctx.sample(case, 'cut')
    if not quick or all(boundaries(kind, version, li)[1] <= 160
                        for li in range(nlinks)):
        ctx.exhaustive_done('%s @%d: every byte offset x 3 segmentations'
                            % (kind, version))


def t_select(ctx, version):
    for kind in ('status', 'play', 'compress256', 'encrypt'):
        for err in sorted(SELECT_ERRORS):
            for n in (1, 2, 3, 5, 8):
                select_case(ctx, {'kind': kind, 'version': version, 'n': n,
                                  'error': err})
    ctx.sample({'kind': 'play', 'version': version, 'n': 3,
                'error': 'fd_out_of_range'}, 'select')


def t_bigframe(ctx, version):
    ends, N, full = boundaries('bigframe', version, 0)
    big_end = min(e for e in ends if e > 1024 * 1024)
    big_start = max(e for e in ends if e < big_end)
    MiB = 1024 * 1024
    pts = sorted({big_start, big_start + 1, big_start + 2, big_start + 3,
                  big_start + 4, big_start + 300 * 1024, big_start + MiB,
                  (big_start + big_end) // 2, big_end - MiB - 7,
                  big_end - MiB + 7, big_end - 100 * 1024, big_end - 1,
                  big_end, N})
    for k, n in enumerate(pts):
        cut_case(ctx, {'kind': 'bigframe', 'version': version, 'link': 0,
                       'n': n, 'plan': ['whole', [65536, 1000, 300000]][k % 2]})
    ctx.sample({'kind': 'bigframe', 'version': version, 'cuts': pts[:6]},
               'bigframe')


def t_random(ctx, n):
    strat = st.tuples(st.sampled_from(KINDS + ['status+prior',
                                               'negotiate+prior']),
                      st.sampled_from(PROTOCOLS),
                      st.integers(0, 1), st.integers(0, 10 ** 6),
                      st.one_of(st.just('whole'), st.just('one'),
                                st.lists(st.integers(1, 64), min_size=1,
                                         max_size=8)))

    def body(c, t):
        kind, version, li, n, plan = t
        if not kind.startswith('negotiate'):
            li = 0
        ends, N, full = boundaries(kind, version, li)
        case = {'kind': kind, 'version': version, 'link': li,
                'n': n % (N + 1), 'plan': plan}
        cut_case(c, case)
    hyp(ctx, 'random', strat, body, n)


def tasks(tier):
    q = tier == 'quick'
    tl = []
    for kind in KINDS:
        heavy = kind in ('compress0', 'compress256', 'play', 'encrypt')
        for v in PROTOCOLS:
            ns = (1 if q else 3) if heavy else 1
            for s in range(ns):
                tl.append(('%s_%d_%d' % (kind, v, s), t_conv,
                           dict(kind=kind, version=v, shard=s, nshards=ns,
                                quick=q)))
    for kind in ('status+prior', 'negotiate+prior', 'negotiate_out+prior',
                 'negotiate_gone', 'status_default'):
        for v in (PROTOCOLS[::2] if q else PROTOCOLS):
            tl.append(('%s_%d' % (kind, v), t_conv,
                       dict(kind=kind, version=v, shard=0, nshards=1,
                            quick=q)))
    for v in (PROTOCOLS[::3] if q else PROTOCOLS):
        tl.append(('bigframe_%d' % v, t_bigframe, dict(version=v)))
    for v in (PROTOCOLS[::2] if q else PROTOCOLS):
        tl.append(('select_%d' % v, t_select, dict(version=v)))
    for i in range(2 if q else 8):
        tl.append(('random_%d' % i, t_random, dict(n=60 if q else 1500)))
    return tl
