"""C01 - framed packet stream survives any threshold, cipher and read
segmentation.  Writer and reader are exercised separately against the
reference frame codec (vlib.wire) and reference CFB8 (vlib.aes)."""
from hypothesis import strategies as st

from vlib import wire, aes, vnet
from vlib.runner import hyp

PROPERTY = 'C01'
LEVEL = 'exploration'
RULE = ('A case is (packets, mode, cipher, cuts): 0-12 (quick) / 0-40 '
        '(thorough) (id, payload) pairs with ids from a known and an unknown '
        'pool and payload lengths around the threshold, the 1/2/3-byte '
        'length-prefix boundaries and up to 8 KiB; mode in {disabled, '
        'threshold -1,-2,0,1,2,63,64,256,random,2^31-1,2^32-1}; cipher off '
        'or AES/CFB8 with a drawn secret; cuts = every single cut position '
        '(streams <= 64 bytes), 1-byte reads, whole, or a random partition. '
        'Writer: real Connection._write_packet into a recording socket '
        '(through the real EncryptedSocketWrapper); oracle: reference parse '
        'of the (reference-decrypted) bytes gives exactly the packet list, '
        'ciphertext == reference CFB8 of the plaintext. Reader: stream from '
        'the reference encoder (compress/no-compress drawn per frame) '
        'through the fake unbuffered file with the drawn cuts (and the real '
        'EncryptedFileObjectWrapper) into the real PacketReactor.read_packet; '
        'oracle: same (id, payload) sequence, unknown ids as generic packets, '
        'nothing fabricated after the last frame, EOFError at end of stream; '
        'identical results for every cut plan. Sessions: 2-4 sessions on one '
        'Connection object (play sessions with their own compression / '
        'cipher setting and five ways of ending, status queries in between, '
        'reconnect directly or after disconnect): every session starts from '
        'a clean framing state. Bursts: 1-320 frames sent at once to a real '
        'Connection (beyond the 50-packets-per-pass limit of its loop); an '
        'early listener sees each once, in order. Non-trivial: >= 2 packets and '
        'one of {payload within +-1 of threshold, unknown id followed by a '
        'known one, a cut inside a length prefix or compressed body, cipher '
        'on}; distinct by full case fingerprint.')
RULE += (' ' +
         'Added in later rounds: bursts of n frames through a real '
         'Connection (also with the five self-parsing clientbound play '
         'packets in between, with a play-state compression switch at '
         'protocol 47) whose delivered packet objects are looked at again '
         'after the burst; status sessions; frames of 1.5 MiB '
         '(incompressible) and 3 MiB (compressible) in 6 threshold/cipher '
         'modes. Round 11: the all-zero instance of every registered '
         'clientbound play class inside bursts at 9 versions; floods of 70 '
         '000 / 300 000 queued packets (delegated to C11). Round 12: '
         'hand-over between the user thread and a listener (delegated to '
         'C12): A.., B.., C on the wire in the order written. Round 13: '
         'packets with a trailing-bytes field inside bursts got only their '
         "own frame's bytes. Round 14: status reply frames of every length "
         "(delegated to C09's sweep). ")
LEVEL_TEXT = ('Differential testing of the frame writer and the frame '
              'reader against an independent frame codec and cipher over '
              'generated packet sequences x thresholds x cipher x read '
              'segmentations, with exhaustive single-cut enumeration for '
              'short streams.')
LEVEL_NOTE = ('Trusted: vlib/wire.py frame codec, vlib/aes.py CFB8 '
              '(self-tested on FIPS-197 / SP 800-38A vectors), zlib. Short '
              'send() results and end-of-stream inside a frame (C15) are not '
              'modelled here. Whether a frame is compressed is not asserted.')
TECHNIQUE = ('property-based differential testing against a reference frame '
             'codec and cipher; exhaustive cut enumeration for short streams')
ASSUMPTIONS = ['blocking TCP sockets never return short sends',
               'reference frame codec and CFB8 are correct']

KNOWN = [0x00, 0x05, 0x7F, 0x80, 0x3FFF, 0x4000]
UNKNOWN = [0x01, 0x10, 0x81, 0x1FFFFF, 0x7FFFFFFF]
MODES = [None, -1, -2, 0, 1, 2, 63, 64, 256, 2 ** 31 - 1, 2 ** 32 - 1]

_classes = {}


def raw_class(pid):
    from minecraft.networking.packets import Packet
    from minecraft.networking.types import TrailingByteArray
    if pid not in _classes:
        _classes[pid] = type('Raw_%X' % pid, (Packet,), {
            'id': pid, 'packet_name': 'raw %x' % pid,
            'definition': [{'data': TrailingByteArray}]})
    return _classes[pid]


def make_conn():
    from minecraft.networking.connection import Connection
    return Connection('localhost', 25565, username='u',
                      allowed_versions={757})


class _Null(object):
    def attach(self, link):
        pass

    def on_bytes(self, data):
        pass

    def on_client_close(self):
        pass


class _RecSock(object):
    def __init__(self):
        self.chunks = []

    def send(self, b):
        self.chunks.append(bytes(b))
        return len(b)


def nontrivial(case, cut_inside):
    pk = case['packets']
    if len(pk) < 2:
        return False
    t = case['mode']
    near = t is not None and t >= 0 and any(
        abs(len(wire.varint(i)) + len(p) - t) <= 1 for i, p in pk)
    unk_then_known = any(a[0] in UNKNOWN and b[0] in KNOWN
                         for a, b in zip(pk, pk[1:]))
    return near or unk_then_known or cut_inside or case['secret'] is not None


def writer_case(ctx, case):
    """case {packets [(id, payload)], mode, secret}"""
    from minecraft.networking import encryption
    pk = [(i, bytes(p)) for i, p in case['packets']]
    mode, secret = case['mode'], case['secret']
    ctx.ev()
    conn = make_conn()
    rec = _RecSock()
    if secret is not None:
        cipher = encryption.create_AES_cipher(secret)
        conn.socket = encryption.EncryptedSocketWrapper(
            rec, cipher.encryptor(), cipher.decryptor())
    else:
        conn.socket = rec
    if mode is not None:
        conn.options.compression_enabled = True
        conn.options.compression_threshold = mode
    # how the caller manages its packet objects is its own business: a fresh
    # object per write, or one object per packet id filled in anew and
    # handed over again (variant 1), the latter also with a late outgoing
    # listener of the user's that is done with every packet it has seen
    # (variant 2; IgnorePacket after the write suppresses nothing)
    variant = (len(pk) + sum(len(p) for _i, p in pk[:2])) % 3
    objs = {}
    if variant == 2:
        from minecraft.exceptions import IgnorePacket
        from minecraft.networking.packets import Packet

        def done_with(packet):
            raise IgnorePacket
        conn.register_packet_listener(done_with, Packet, outgoing=True)
    if variant and len({i for i, _p in pk}) < len(pk):
        ctx.label('w_packet_object_rewritten_variant_%d' % variant)
    try:
        with conn._write_lock:
            for i, p in pk:
                pkt = objs.setdefault(i, raw_class(i)()) if variant \
                    else raw_class(i)()
                pkt.context = conn.context
                pkt.data = p
                conn._write_packet(pkt)
    except Exception as e:
        ctx.fail('writer', 'W1-write-raises', case, exc=e)
        return None
    wirebytes = b''.join(rec.chunks)
    plain = wirebytes
    if secret is not None:
        plain = aes.cfb8_decrypt(secret, secret, wirebytes)
    try:
        frames, rest = wire.parse_frames(plain, compressed=mode is not None)
    except wire.WireError as e:
        ctx.fail('writer', 'W1-malformed', case, str(e))
        return None
    got = [(f[0], f[1]) for f in frames]
    if got != pk or rest:
        ctx.fail('writer', 'W1-sequence', case,
                 ([(i, len(p)) for i, p in got], len(rest)),
                 [(i, len(p)) for i, p in pk])
    if secret is not None:
        # W2: one continuous stream: re-encrypting the recovered plaintext
        # with a fresh reference cipher must give the same ciphertext
        if aes.cfb8_encrypt(secret, secret, plain) != wirebytes:
            ctx.fail('writer', 'W2-cipher-stream', case)
    for f in frames:
        ctx.label('w_compressed' if f[2] else 'w_plain')
    if nontrivial(case, False):
        ctx.nt('w', repr(case))
    return plain


def encode_stream(case):
    pk = [(i, bytes(p)) for i, p in case['packets']]
    mode = case['mode']
    ch = case.get('compress') or []
    out = []
    for k, (i, p) in enumerate(pk):
        if mode is None:
            out.append(wire.frame(i, p))
        else:
            c = ch[k % len(ch)] if ch else None
            out.append(wire.frame(i, p, mode=max(mode, 0), compress=c,
                                  level=(k % 9) + 1))
    return out


def read_all(ctx, case, stream, plan, expect_n):
    """Feed `stream` (plaintext frame bytes) through the fake file with
    `plan`, return list of results [(id, kind, payload)] and the outcome
    of one further read and of a read at EOF."""
    from minecraft.networking import encryption, packets
    from minecraft.networking.connection import PacketReactor
    secret, mode = case['secret'], case['mode']
    world = vnet.World(servers=[_Null()], plan=plan)
    world.block_guard = 0       # single-threaded: nothing else can arrive
    with vnet.installed(world):
        conn = make_conn()
        if mode is not None:
            conn.options.compression_enabled = True
            conn.options.compression_threshold = mode

        class R(PacketReactor):
            get_clientbound_packets = staticmethod(
                lambda context: {raw_class(i) for i in KNOWN})
        reactor = R(conn)
        link = world.accept(('h', 1))
        f = vnet.FakeFile(link)
        data = stream
        if secret is not None:
            data = aes.cfb8_encrypt(secret, secret, stream)
            f = encryption.EncryptedFileObjectWrapper(
                f, encryption.create_AES_cipher(secret).decryptor())
        link.emit(data)
        res = []
        err = None
        for _ in range(expect_n + 2):
            try:
                p = reactor.read_packet(f, timeout=0)
            except vnet.BlockedForever:
                err = AssertionError('reader blocks: it wants bytes beyond '
                                     'the end of a complete frame stream')
                link.killed = False
                break
            except Exception as e:
                err = e
                break
            if p is None:
                break
            if type(p) is packets.Packet:
                res.append((p.id, 'generic', None))
            else:
                res.append((p.id, type(p).__name__, getattr(p, 'data', None)))
        after = None
        if err is None:
            link.server_close()
            try:
                p = reactor.read_packet(f, timeout=0)
                after = ('returned', repr(p))
            except vnet.KillThread:
                after = ('spins at end of stream',)
            except EOFError:
                after = ('EOFError',)
            except Exception as e:
                after = ('raised', type(e).__name__)
    return res, err, after, link.s2c_total - len(link.s2c)


def cut_inside(frames, plan):
    """does the plan cut inside a length prefix or a body?"""
    if plan == 'whole':
        return False
    if plan == 'one':
        return any(len(f) > 1 for f in frames)
    bounds = set()
    pos = 0
    for f in frames:
        pos += len(f)
        bounds.add(pos)
    pos = 0
    for k in plan:
        pos += k
        if pos not in bounds and pos < sum(map(len, frames)):
            return True
    return False


def reader_case(ctx, case):
    """case {packets, mode, secret, compress [bool], plans [plan...]}"""
    pk = [(i, bytes(p)) for i, p in case['packets']]
    frames = encode_stream(case)
    stream = b''.join(frames)
    expect = [(i, 'Raw_%X' % i, p) if i in KNOWN else (i, 'generic', None)
              for i, p in pk]
    for plan in case['plans']:
        ctx.ev()
        if isinstance(plan, tuple):
            plan = list(plan)
        res, err, after, consumed = read_all(ctx, case, stream, plan, len(pk))
        sub = dict(case, plans=[plan])
        if err is not None:
            ctx.fail('reader', 'R1-read-raises', sub, exc=err)
            continue
        if res != expect:
            ctx.fail('reader', 'R1-sequence', sub,
                     [(i, k, None if d is None else len(d)) for i, k, d in res],
                     [(i, k, None if d is None else len(d))
                      for i, k, d in expect])
        if consumed != len(stream):
            ctx.fail('reader', 'R1-consumption', sub, consumed, len(stream))
        if after != ('EOFError',):
            ctx.fail('reader', 'R1-after-last-frame', sub, after,
                     'EOFError at end of stream, no fabricated packet')
        inside = cut_inside(frames, plan)
        ctx.label('plan_' + (plan if isinstance(plan, str) else 'cuts'))
        if inside:
            ctx.label('cut_inside_frame')
        if nontrivial(case, inside):
            ctx.nt('r', repr(case['packets']), case['mode'], case['secret'],
                   repr(case.get('compress')), repr(plan))


def loop_case(ctx, case):
    """writer output fed to the reader (both real): metamorphic R2."""
    plain = writer_case(ctx, case)
    if plain is None:
        return
    pk = [(i, bytes(p)) for i, p in case['packets']]
    expect = [(i, 'Raw_%X' % i, p) if i in KNOWN else (i, 'generic', None)
              for i, p in pk]
    for plan in case['plans']:
        ctx.ev()
        if isinstance(plan, tuple):
            plan = list(plan)
        res, err, after, consumed = read_all(ctx, case, plain, plan, len(pk))
        sub = dict(case, plans=[plan])
        if err is not None:
            ctx.fail('loop', 'R2-read-raises', sub, exc=err)
        elif res != expect or after != ('EOFError',):
            ctx.fail('loop', 'R2-sequence', sub,
                     ([(i, k) for i, k, d in res], after),
                     [(i, k) for i, k, d in expect])
        if nontrivial(case, plan != 'whole'):
            ctx.nt('l', repr(case), repr(plan))


def reference_frames(stream, compressed):
    """Tolerant reference parse of an arbitrary byte stream ->
    (list of (id, payload) for the leading well-formed frames, verdict)
    verdict: 'eof' (clean end), 'truncated', 'bad', 'ambiguous' (a shape on
    which implementations may legitimately differ: > 5-byte varints, data
    after the end of a zlib stream, empty zlib output)."""
    import zlib
    out = []
    pos = 0
    n = len(stream)

    def rv(data, p):
        v, q = wire.read_varint(data, p, 6)
        if q - p > 5:
            raise LookupError('ambiguous')
        return v, q
    while True:
        if pos == n:
            return out, 'eof'
        try:
            length, p = rv(stream, pos)
        except wire.EOF:
            return out, 'truncated'
        except wire.Overlong:
            return out, 'bad'
        except LookupError:
            return out, 'ambiguous'
        if p + length > n:
            return out, 'truncated'
        body = stream[p:p + length]
        try:
            if compressed:
                dl, q = rv(body, 0)
                if dl:
                    d = zlib.decompressobj()
                    try:
                        raw = d.decompress(body[q:])
                    except zlib.error:
                        return out, 'bad'
                    if d.unused_data or not d.eof:
                        return out, 'ambiguous'
                    if len(raw) != dl:
                        return out, 'bad'
                    body = raw
                else:
                    body = body[q:]
            pid, q = rv(body, 0)
        except (wire.EOF, wire.Overlong):
            return out, 'bad'
        except LookupError:
            return out, 'ambiguous'
        out.append((pid, bytes(body[q:])))
        pos = p + length


def fuzz_stream_case(ctx, case):
    """raw fuzzer input: byte0 mode, byte1 cipher/plan, byte2 chunk size,
    rest = plaintext server stream (arbitrary bytes)."""
    from minecraft.networking import encryption, packets
    from minecraft.networking.connection import PacketReactor
    b = case['input']
    if len(b) < 3:
        return
    ctx.ev()
    compressed = bool(b[0] & 1)
    secret = bytes(range(16)) if b[1] & 1 else None
    plan = ['whole', 'one', [max(1, b[2])], [max(1, b[2] % 7), 1000]][
        (b[1] >> 1) & 3]
    stream = bytes(b[3:])
    want, verdict = reference_frames(stream, compressed)
    world = vnet.World(servers=[_Null()], plan=plan)
    world.block_guard = 0
    got = []
    err = None
    with vnet.installed(world):
        conn = make_conn()
        if compressed:
            conn.options.compression_enabled = True
            conn.options.compression_threshold = 0

        class R(PacketReactor):
            get_clientbound_packets = staticmethod(
                lambda context: {raw_class(i) for i in KNOWN})
        reactor = R(conn)
        link = world.accept(('h', 1))
        link.max_eof_reads = 200
        f = vnet.FakeFile(link)
        data = stream
        if secret is not None:
            data = aes.cfb8_encrypt(secret, secret, stream)
            f = encryption.EncryptedFileObjectWrapper(
                f, encryption.create_AES_cipher(secret).decryptor())
        link.emit(data)
        link.server_close()
        for _ in range(len(want) + 3):
            try:
                p = reactor.read_packet(f, timeout=0)
            except vnet.KillThread:
                err = 'spin'
                break
            except vnet.BlockedForever:
                err = 'blocked'
                break
            except Exception as e:
                err = e
                break
            if p is None:
                err = 'returned None at end of stream'
                break
            if type(p) is packets.Packet:
                got.append((p.id, None))
            else:
                got.append((p.id, getattr(p, 'data', None)))
    sub = {'input': b}
    if err in ('spin', 'blocked'):
        ctx.fail('fuzz_stream', 'R1-reader-%s' % err, sub)
        return
    exp = [(i, p if i in KNOWN else None) for i, p in want]
    if verdict == 'ambiguous':
        if got[:len(exp)] != exp:
            ctx.fail('fuzz_stream', 'R1-sequence', sub, got[:4], exp[:4])
        ctx.label('fuzz_ambiguous')
        return
    if got != exp:
        ctx.fail('fuzz_stream', 'R1-sequence', sub,
                 (len(got), got[:3]), (len(exp), exp[:3], verdict))
        return
    if err is None or isinstance(err, str):
        ctx.fail('fuzz_stream', 'R1-after-last-frame', sub, err,
                 'an exception at end of stream / defective frame')
    elif verdict == 'eof' and not isinstance(err, EOFError):
        ctx.fail('fuzz_stream', 'R1-after-last-frame', sub, repr(err),
                 'EOFError')
    ctx.label('fuzz_' + verdict)
    if len(exp) >= 2:
        ctx.nt('fz', b)


def sessions_case(ctx, case):
    """Several sessions on ONE Connection object, each with its own
    compression / cipher setting and its own way of ending: every session
    must start from a clean framing state (nothing of the previous session's
    threshold or cipher may be in force until the server announces it).
    case {sessions: [{compress, encrypt, end}], reconnect: 'direct' |
    'disconnect_first'}"""
    from vlib import servers
    sess = case['sessions']
    ctx.ev()
    srvs = []

    def factory(addr):
        i = len(srvs)
        sp = sess[min(i, len(sess) - 1)]
        login = []
        if sp.get('encrypt'):
            login.append(('encrypt', 1024, b'\x01\x02\x03\x04', '-'))
        if sp.get('compress') is not None:
            login.append(('compress', sp['compress']))
        login.append(('success',))
        end = sp['end']
        if sp.get('status'):
            # a status query as this session (never compressed/encrypted)
            s_ = servers.Server({'version': 757, 'status': {
                'reply': '{"version":{"name":"x","protocol":757},'
                         '"description":"x"}'}})
            srvs.append(s_)
            return s_
        spec = {'version': 757, 'login': login, 'play': {
            'bursts': [[('keep_alive', {'keep_alive_id': 77 + i})]],
            'mode': 'reactive',
            'end': {'disconnect': 'disconnect', 'eof': 'eof'}.get(end,
                                                                  'silent')}}
        if end == 'garbage':
            spec['play']['bursts'].append([('raw', 0x21, b'\x80')])
        s_ = servers.Server(spec)
        srvs.append(s_)
        return s_
    world = vnet.World(default=factory)
    from minecraft.networking.connection import Connection
    excs = []
    statuses = []

    def start():
        # begin session number len(srvs)
        if sess[min(len(srvs), len(sess) - 1)].get('status'):
            conn.status(handle_status=statuses.append, handle_ping=False)
        else:
            conn.connect()
    with vnet.installed(world):
        def on_exc(exc, info):
            excs.append(exc)
            if len(srvs) < len(sess):
                if case.get('reconnect') != 'direct':
                    conn.disconnect(immediate=True)
                start()
        conn = Connection('localhost', 25565, username='u',
                          allowed_versions={757}, handle_exception=False)
        conn.register_exception_handler(on_exc)
        start()
        done_user = set()
        for _ in range(4 * len(sess) + 4):
            st_ = world.settle()
            if st_ == 'timeout':
                from vlib.core import HarnessError
                raise HarnessError('C01 sessions case did not settle')
            cur = len(srvs) - 1
            sp = sess[min(cur, len(sess) - 1)]
            if st_ in ('idle', 'blocked'):
                if st_ == 'idle' and cur not in done_user and sp['end'] in (
                        'user_disconnect', 'user_immediate'):
                    done_user.add(cur)
                    conn.disconnect(immediate=sp['end'] == 'user_immediate')
                    continue
                ctx.fail('sessions', 'S-session-stuck',
                         dict(case, session=cur),
                         '%s; server errors %r' % (st_, srvs[cur].errors[:2]))
                return
            # all threads ended
            if len(srvs) >= len(sess):
                break
            try:
                start()             # previous session ended cleanly
            except Exception as e:
                ctx.fail('sessions', 'S-reconnect-raised',
                         dict(case, session=len(srvs)), exc=e)
                return
    if len(srvs) != len(sess):
        ctx.fail('sessions', 'S-session-count', case, len(srvs), len(sess))
        return
    for i, (sp, sv) in enumerate(zip(sess, srvs)):
        if sv.errors:
            ctx.fail('sessions', 'W1-stale-framing-state',
                     dict(case, session=i), sv.errors[:2],
                     'well-formed client stream from a clean state')
            return
        if sp.get('status'):
            if sv.status_requests != 1:
                ctx.fail('sessions', 'R1-status-session-not-understood',
                         dict(case, session=i), sv.status_requests, 1)
                return
            continue
        if sv.replies != [('keep_alive', 77 + i)]:
            ctx.fail('sessions', 'R1-session-not-understood',
                     dict(case, session=i), sv.replies,
                     [('keep_alive', 77 + i)])
            return
    if len(statuses) != sum(1 for x in sess if x.get('status')):
        ctx.fail('sessions', 'R1-status-replies-delivered', case,
                 len(statuses), sum(1 for x in sess if x.get('status')))
        return
    if len(sess) >= 2 and len({(x.get('compress'), bool(x.get('encrypt')))
                               for x in sess}) >= 2:
        ctx.nt('sess', repr(case))
    ctx.label('sessions')


_hand_cache = {}


def _hand_frame(version, name):
    """(id, payload) of a minimal instance of a self-parsing clientbound
    play packet at this version, or None if the class is not registered"""
    key = (version, name)
    if key not in _hand_cache:
        import hypothesis
        from props import c05_roundtrip as P5
        from props import c04_position as P4
        from vlib.budget import Sink
        fr = None
        try:
            cls = P5.find_class('clientbound', 'play', version, name)
            if cls is not None and name in P5.HAND:
                build, strat = P5.HAND[name]
                vals = hypothesis.find(strat(version), lambda v: True)
                K, p, exp, extra = build(version, vals)
                p.context = P4.fresh_ctx(version)
                s_ = Sink()
                p.write(s_)
                fr = P5.frame_split(s_.value)
            elif cls is not None:
                # a definition-described class: the all-zero instance (empty
                # arrays and strings, zero numbers)
                p = cls()
                p.context = P4.fresh_ctx(version)
                for fname, t_, sp in P5.fields_of(cls, version):
                    setattr(p, fname, P5.to_py(
                        sp, P5.boundaries(sp, version)[0]))
                s_ = Sink()
                p.write(s_)
                fr = P5.frame_split(s_.value)
        except Exception:
            fr = None
        _hand_cache[key] = fr
    return _hand_cache[key]


# packets whose built-in reaction would end or re-code the session
_NOT_IN_A_BURST = ('disconnect', 'set compression')


def zero_packet_names(version):
    """every registered clientbound play class that can sit in the middle
    of a burst as its all-zero / minimal instance"""
    from props import c05_roundtrip as P5
    return [c.__name__ for c in P5.table('clientbound', 'play', version)
            if getattr(c, 'packet_name', None) not in _NOT_IN_A_BURST and
            _hand_frame(version, c.__name__) is not None]


def burst_case(ctx, case):
    """'No packet is lost ... or reordered' at the place the statement names
    as observation point: packets handed to listeners by a real Connection.
    The server sends n frames in one burst (more than the networking loop
    handles per pass); an early listener must see every one of them once, in
    order.  case {version, compress, encrypt, n, sizes [..], plan}"""
    from vlib import servers
    from minecraft.networking.packets import Packet
    version, n = case['version'], case['n']
    ctx.ev()
    login = []
    if case.get('encrypt'):
        login.append(('encrypt', 1024, b'\x01\x02\x03\x04', '-'))
    if case.get('compress') is not None:
        login.append(('compress', case['compress']))
    login.append(('success',))
    sizes = case.get('sizes') or [0]
    # ids no table of any version knows; the payload carries the index
    burst = [('raw', 0x7A + (i % 3), i.to_bytes(4, 'big') +
              bytes(sizes[i % len(sizes)])) for i in range(n)]
    hand_ids = []
    for k, hname in enumerate(case.get('hand') or ()):
        # packets of library classes that parse themselves (own read()):
        # built and serialised by the library (C05 checks those bytes),
        # sent as raw frames between the unknown ones
        fr = _hand_frame(version, hname)
        if fr is not None:
            burst.insert(min(len(burst), 1 + 2 * k), ('raw',) + fr)
            hand_ids.append(fr[0])
            ctx.label('burst_self_parsing_packet')
    if case.get('play_compress') is not None and version == 47 and \
            case.get('compress') is None:
        # protocol 47 can switch compression on from the play state
        burst.insert(min(case.get('at', 0), len(burst)),
                     ('play_set_compression',
                      {'threshold': case['play_compress']}))
        ctx.label('burst_play_state_compression')
    srv = servers.Server({'version': version, 'login': login,
                          'play': {'bursts': [burst], 'mode': 'all',
                                   'end': 'disconnect'}})
    plan = case.get('plan', 'whole')
    world = vnet.World(servers=[srv],
                       plan=list(plan) if isinstance(plan, tuple) else plan)
    seen, kept = [], []
    with vnet.installed(world):
        conn, o = servers.make_connection(world, allowed_versions={version})
        conn.register_packet_listener(
            lambda p: (seen.append(p.id), kept.append(p)), Packet,
            early=True)
        try:
            conn.connect()
        except Exception as e:
            ctx.fail('burst', 'R1-connect-raised', case, exc=e)
            return
        state = world.settle()
    if state == 'timeout':
        from vlib.core import HarnessError
        raise HarnessError('C01 burst case did not settle')
    if state != 'done':
        ctx.fail('burst', 'R1-client-%s' % state, case)
        return
    if o.exceptions:
        ctx.fail('burst', 'R1-read-raises', case, repr(o.exceptions[0][0]))
        return
    keep = {0x7A, 0x7B, 0x7C} | set(hand_ids)
    k0 = next((j for j, i in enumerate(seen) if i in (0x7A, 0x7B, 0x7C)),
              len(seen))
    got = [i for i in seen[k0:] if i in keep]
    want = [it[1] for it in burst if it[0] == 'raw']
    want = want[next((j for j, i in enumerate(want)
                      if i in (0x7A, 0x7B, 0x7C)), 0):]
    if got != want:
        k = next((j for j, (a, b) in enumerate(zip(got, want)) if a != b),
                 min(len(got), len(want)))
        ctx.fail('burst', 'R1-sequence', case,
                 '%d packets handed over, first difference at %d'
                 % (len(got), k), '%d packets' % n)
        return
    # the recovered sequence is the packets the listener was handed: a
    # caller that queues them and looks later must find the same sequence
    # a packet whose last field takes 'all remaining bytes' got exactly the
    # bytes of its own frame (nothing of the compressed form or of a
    # neighbour left behind them)
    for p in kept:
        if type(p).__name__ == 'PluginMessagePacket' and \
                p.id in hand_ids and bytes(getattr(p, 'data', b'')) != b'':
            ctx.fail('burst', 'R1-foreign-bytes-in-packet', case,
                     bytes(p.data)[:24].hex(), 'empty data')
            return
    later = [p.id for p in kept]
    if later != seen:
        k = next(j for j, (a, b) in enumerate(zip(later, seen)) if a != b)
        ctx.fail('burst', 'R1-delivered-packet-changed-later', case,
                 'packet %d has id %r after the burst' % (k, later[k]),
                 'id %r as when it was delivered' % (seen[k],))
        return
    if n > 50:
        ctx.nt('burst', repr(case))
    ctx.label('burst')


def flood_case(ctx, case):
    """'Any sequence of packets written to a connection is recovered ...
    no packet is lost': also a sequence far longer than any everyday
    backlog, written in one go (C11's flood scenario: 70 000 / 300 000
    queued packets behind a keep-alive reply)."""
    from props import c11_play as P11
    P11.flood_case(ctx, case)


def handoff_case(ctx, case):
    """'recovered ... as exactly the same sequence ... not reordered' when
    the sequence was written by two threads one after the other (C12's
    hand-over scenario: user thread, then a listener, then the user again)."""
    from props import c12_writers as P12
    P12.handoff_case(ctx, case)


def scenario_case(ctx, case):
    """the framed stream of the status exchange that opens a negotiating
    connect(): frames of every length (C09's scenario machinery)"""
    from props import c09_negotiation as P9
    P9.scenario_case(ctx, case)


COMPONENTS = {'flood': flood_case, 'handoff': handoff_case,
              'scenario': scenario_case,
              'burst': burst_case,
              'writer': writer_case, 'reader': reader_case,
              'loop': loop_case, 'fuzz_stream': fuzz_stream_case,
              'sessions': sessions_case}


# --------------------------------------------------------------- strategies

def payload_strategy(mode, pid, big):
    t = mode if mode is not None and 0 <= mode <= 8192 else 64
    idl = len(wire.varint(pid))
    around = [max(0, t - idl + d) for d in (-2, -1, 0, 1, 2)]
    lens = st.one_of(
        st.sampled_from([0, 1, 2] + around + [126, 127, 128, 129]),
        st.integers(0, 40),
        st.sampled_from([16382, 16383, 16384] if big else [300, 1000]),
        st.integers(0, 8192 if big else 600))
    kind = st.sampled_from(['zeros', 'ff', 'counter', 'random'])

    def mk(t_):
        n, k = t_
        if k == 'zeros':
            return st.just(bytes(n))
        if k == 'ff':
            return st.just(b'\xff' * n)
        if k == 'counter':
            return st.just(bytes(i % 251 for i in range(n)))
        return st.binary(min_size=n, max_size=n)
    return st.tuples(lens, kind).flatmap(mk)


def case_strategy(maxp, big):
    mode = st.one_of(st.sampled_from(MODES), st.integers(0, 8192))

    def with_mode(m):
        pkt = st.sampled_from(KNOWN + UNKNOWN).flatmap(
            lambda i: st.tuples(st.just(i), payload_strategy(m, i, big)))
        plan = st.one_of(st.just('whole'), st.just('one'),
                         st.lists(st.integers(1, 40), min_size=1,
                                  max_size=30),
                         st.lists(st.sampled_from([1, 2, 3, 5, 1000]),
                                  min_size=1, max_size=10))
        return st.fixed_dictionaries({
            'packets': st.lists(pkt, max_size=maxp),
            'mode': st.just(m),
            'secret': st.one_of(st.none(), st.binary(min_size=16,
                                                     max_size=16)),
            'compress': st.lists(st.booleans(), max_size=6),
            'plans': st.lists(plan, min_size=1, max_size=3)})
    return mode.flatmap(with_mode)


# -------------------------------------------------------------------- tasks

FAMILY = [
    [(0x05, b''), (0x01, b'ab'), (0x7F, b'xyz')],
    [(0x80, b'\x00' * 5), (0x81, b'\xff' * 3), (0x00, b'q')],
    [(0x10, b''), (0x05, b'hello world'), (0x3FFF, b'')],
    [(0x1FFFFF, b'123'), (0x00, b''), (0x00, b'')],
]


def t_cuts(ctx, lo, hi):
    """every single cut position for the short-stream family"""
    combos = [(fam, m, sec) for fam in FAMILY for m in MODES
              for sec in (None, bytes(range(16)))]
    for fam, m, sec in combos[lo:hi]:
        for compress in ([False], [True], [True, False]) if m is not None \
                else ([],):
            case = {'packets': fam, 'mode': m, 'secret': sec,
                    'compress': compress, 'plans': []}
            n = len(b''.join(encode_stream(case)))
            plans = ['whole', 'one'] + [[k, 10 ** 6] for k in range(1, n)]
            case['plans'] = plans
            reader_case(ctx, case)
        loop_case(ctx, {'packets': fam, 'mode': m, 'secret': sec,
                        'plans': ['whole', 'one', [2, 3]]})
    ctx.sample({'packets': FAMILY[0], 'mode': 0, 'secret': None,
                'compress': [True, False], 'plans': [[3, 10 ** 6]]},
               'reader')
    ctx.exhaustive_done('every single cut position of 4 three-packet '
                        'streams x 11 modes x cipher on/off x compress '
                        'choices')


def t_random(ctx, n, maxp, big):
    def body(c, case):
        reader_case(c, case)
        loop_case(c, case)
        if c.evaluations % 300 < 3:
            c.sample({k: (v if k != 'packets' else
                          [(i, len(p)) for i, p in v])
                      for k, v in case.items()}, 'random(lengths shown)')
    hyp(ctx, 'random', case_strategy(maxp, big), body, n)


def t_threshold_edges(ctx):
    """payload lengths t-2..t+2 for every threshold of the table, writer and
    reader, cipher on and off"""
    for m in [x for x in MODES if x is not None] + [7, 100, 1000, 8192]:
        t = m if 0 <= m <= 8192 else 50
        for pid in (0x00, 0x80, 0x01):
            idl = len(wire.varint(pid))
            pk = []
            for d in (-2, -1, 0, 1, 2):
                n = max(0, t - idl + d)
                pk.append((pid, bytes(i % 7 for i in range(n))))
            pk.append((0x05, b'tail'))
            for sec in (None, b'0123456789abcdef'):
                case = {'packets': pk, 'mode': m, 'secret': sec,
                        'compress': [True, False, False], 'plans':
                        ['whole', 'one', [1, 2, 3, 4, 5, 6, 7]]}
                reader_case(ctx, case)
                loop_case(ctx, case)
    ctx.exhaustive_done('payload lengths threshold-2..threshold+2 for each '
                        'table threshold')


def _noise(n, seed=0):
    """n incompressible, reproducible bytes"""
    import hashlib
    out = bytearray()
    k = 0
    while len(out) < n:
        out += hashlib.sha256(b'%d:%d' % (seed, k)).digest()
        k += 1
    return bytes(out[:n])


def t_big(ctx, which):
    """frames beyond 1 MiB (legal up to 2^21-1 bytes and, for this library,
    beyond): compressible and incompressible, followed by small packets that
    must survive intact"""
    big = [(0x05, _noise(1536 * 1024, 1)), (0x01, b'ab'), (0x05, b'tail'),
           (0x80, bytes(3 * 1024 * 1024)), (0x05, b'end')]
    plans = ['whole', [65536, 1000, 300000]]
    cases = [(None, None), (-1, None), (0, None), (256, None),
             (2 ** 31 - 1, None), (64, b'0123456789abcdef')]
    m, sec = cases[which]
    case = {'packets': big if sec is None else big[:3], 'mode': m,
            'secret': sec, 'compress': [True, False], 'plans': plans}
    loop_case(ctx, case)
    ctx.sample({'mode': m, 'secret': bool(sec),
                'payload_sizes': [len(p) for i, p in case['packets']]},
               'big')


def t_sessions(ctx, n):
    ends = ['disconnect', 'eof', 'garbage', 'user_disconnect',
            'user_immediate']
    for rc in ('direct', 'disconnect_first'):
        for e1 in ends:
            for c1, x1, c2, x2 in ((64, False, None, False),
                                   (None, True, 0, False),
                                   (0, True, None, False),
                                   (256, False, 0, True)):
                sessions_case(ctx, {'reconnect': rc, 'sessions': [
                    {'compress': c1, 'encrypt': x1, 'end': e1},
                    {'compress': c2, 'encrypt': x2, 'end': 'disconnect'}]})
            # a status query after a compressed / encrypted play session
            for c1, x1 in ((64, False), (0, True), (None, True)):
                sessions_case(ctx, {'reconnect': rc, 'sessions': [
                    {'compress': c1, 'encrypt': x1, 'end': e1},
                    {'status': True, 'end': 'disconnect'},
                    {'compress': None, 'encrypt': False,
                     'end': 'disconnect'}]})
    ctx.exhaustive_done('two-session table: 5 endings x 2 reconnect styles '
                        'x 4 framing-state changes (+ 3 with a status query '
                        'in between)')
    sp = st.fixed_dictionaries({
        'compress': st.sampled_from([None, 0, 64, 256, -1]),
        'encrypt': st.booleans(), 'end': st.sampled_from(ends),
        'status': st.sampled_from([False, False, False, True])})
    strat = st.fixed_dictionaries({
        'sessions': st.lists(sp, min_size=2, max_size=4),
        'reconnect': st.sampled_from(['direct', 'disconnect_first'])})

    def body(c, case):
        case['sessions'][-1]['end'] = 'disconnect'
        sessions_case(c, case)
        if c.evaluations % 40 == 1:
            c.sample(case, 'sessions')
    hyp(ctx, 'sessions', strat, body, n)


def t_fuzz(ctx, runs):
    from vlib import fuzzrun
    seeds = []
    for fam in FAMILY:
        for m in (None, 0):
            st_ = b''.join(encode_stream({'packets': fam, 'mode': m,
                                          'compress': [True, False]}))
            seeds.append(bytes([0 if m is None else 1, 0, 3]) + st_)
            seeds.append(bytes([0 if m is None else 1, 3, 2]) + st_[:-2])
    fuzzrun.campaign(ctx, 'stream', 'fuzz_stream', runs, seeds=seeds,
                     max_len=600)


def t_fuzz_hyp(ctx, n):
    # the same target driven by Hypothesis (mutated valid streams)
    def mk(t):
        case, flips, hdr = t
        st_ = bytearray(b''.join(encode_stream(case)))
        for pos, val in flips:
            if st_:
                st_[pos % len(st_)] = val
        return {'input': bytes(hdr) + bytes(st_)}
    base = case_strategy(4, False)
    strat = st.tuples(base, st.lists(st.tuples(st.integers(0, 10 ** 6),
                                               st.integers(0, 255)),
                                     max_size=3),
                      st.binary(min_size=3, max_size=3)).map(
        lambda t: mk((dict(t[0], mode=(None if not t[2][0] & 1 else 0)),
                      t[1], t[2])))
    hyp(ctx, 'fuzz_hyp', strat, lambda c, case: fuzz_stream_case(c, case), n)


def t_burst(ctx, n):
    k = 0
    for v in (757, 340, 47):
        for nn in (49, 50, 51, 52, 99, 100, 101, 102, 151, 320):
            k += 1
            burst_case(ctx, {'version': v, 'n': nn,
                             'compress': [None, 0, 64][k % 3],
                             'encrypt': bool(k % 2), 'sizes': [0, 70, 3],
                             'plan': 'whole'})
    hands = ['MapPacket', 'PlayerListItemPacket', 'SpawnObjectPacket',
             'CombatEventPacket', 'FacePlayerPacket']
    for v in (757, 754, 340, 47):
        for comp in (None, 0):
            burst_case(ctx, {'version': v, 'n': 8, 'compress': comp,
                             'encrypt': comp is None, 'sizes': [0, 5],
                             'plan': 'whole', 'hand': hands})
    # every registered clientbound play packet as its all-zero instance
    # (empty collections, empty text, zero numbers) in the middle of a burst
    for v in (757, 755, 754, 578, 498, 404, 340, 107, 47):
        names = zero_packet_names(v)
        ctx.labels['burst_zero_valued_packets'] += len(names)
        burst_case(ctx, {'version': v, 'n': len(names) + 4,
                         'compress': [None, 64][v % 2], 'encrypt': False,
                         'sizes': [0, 5], 'plan': 'whole', 'hand': names})
    for t in (0, 64, 256):
        for at in (0, 3):
            for enc_ in (False, True):
                burst_case(ctx, {'version': 47, 'n': 12, 'compress': None,
                                 'encrypt': enc_, 'sizes': [0, 70, 300],
                                 'plan': 'whole', 'play_compress': t,
                                 'at': at})
    ctx.exhaustive_done('bursts of 49-320 frames at 3 protocols (around the '
                        '50-packet pass limit of the networking loop); '
                        'play-state compression switch at protocol 47')
    strat = st.fixed_dictionaries({
        'version': st.sampled_from([757, 340, 47]),
        'n': st.integers(1, 200), 'compress': st.sampled_from([None, 0, 64]),
        'encrypt': st.booleans(),
        'sizes': st.lists(st.integers(0, 100), min_size=1, max_size=4),
        'play_compress': st.sampled_from([None, None, 0, 64]),
        'hand': st.lists(st.sampled_from(
            ['MapPacket', 'PlayerListItemPacket', 'SpawnObjectPacket',
             'CombatEventPacket', 'FacePlayerPacket']), max_size=3),
        'at': st.integers(0, 5),
        'plan': st.one_of(st.just('whole'),
                          st.lists(st.integers(1, 400), min_size=1,
                                   max_size=5))})

    def body(c, case):
        burst_case(c, case)
        if c.evaluations % 30 == 1:
            c.sample(case, 'burst')
    hyp(ctx, 'burst', strat, body, n)


def t_flood(ctx, version, compress, n, who):
    case = {'version': version, 'compress': compress, 'n': n, 'who': who}
    flood_case(ctx, case)
    ctx.sample(case, 'flood')


def t_status_lengths(ctx, lo, hi):
    from props import c09_negotiation as P9
    P9.t_status_lengths(ctx, lo, hi)


def t_handoff(ctx):
    k = 0
    for v in (757, 47):
        for n, m in ((3, 1), (60, 3)):
            for first in ('user', 'listener'):
                k += 1
                handoff_case(ctx, {'version': v, 'n': n, 'm': m,
                                   'first': first,
                                   'compress': [None, 256][k % 2]})


def tasks(tier):
    q = tier == 'quick'
    ncomb = len(FAMILY) * len(MODES) * 2
    tl = [('threshold_edges', t_threshold_edges, {}),
          ('handoff', t_handoff, {}),
          ('status_lengths_a', t_status_lengths, dict(lo=200, hi=300)),
          ('status_lengths_b', t_status_lengths, dict(lo=340, hi=420)),
          ('sessions', t_sessions, dict(n=40 if q else 1500)),
          ('burst', t_burst, dict(n=40 if q else 1500)),
          ('mutated_streams', t_fuzz_hyp, dict(n=400 if q else 20000))]
    for w in range(6):
        tl.append(('big_%d' % w, t_big, dict(which=w)))
    for k, (v, comp, who) in enumerate([(340, 256, 'listener'),
                                        (757, None, 'user')]):
        tl.append(('flood_%d' % k, t_flood,
                   dict(version=v, compress=comp,
                        n=70000 if q else 300000, who=who)))
    if not q:
        tl.append(('fuzz_stream', t_fuzz, dict(runs=400000)))
    nsh = 6
    for i in range(nsh):
        tl.append(('cuts_%d' % i, t_cuts,
                   dict(lo=ncomb * i // nsh, hi=ncomb * (i + 1) // nsh)))
    for i in range(8 if q else 14):
        tl.append(('random_%d' % i, t_random,
                   dict(n=250 if q else 4000, maxp=12 if q else 40,
                        big=not q or i < 2)))
    return tl
