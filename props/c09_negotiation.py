"""C09 - status queries and version negotiation pick the right version or
the right error.  Scenarios on the in-memory network against a reference
decision function."""
import contextlib
import io
import json

from hypothesis import strategies as st

from vlib import vnet, servers
from vlib.runner import hyp

PROPERTY = 'C09'
LEVEL = 'exploration'
RULE = ('One allowed version spelled twice (names / name and number / '
        'number twice) is still a single version: no status query. '
'A scenario = (allowed set: None/all, singleton, pair, '
        'chronological prefix/suffix, random subset of the supported '
        'protocols, each member spelled as number or as any version name '
        'mapping to it, optionally with an invalid member), default version '
        '(absent / inside / outside the allowed set, name or number), server '
        'behaviour on the status connection (reply with any supported / '
        'known-unsupported / unknown integer protocol, with or without a '
        'name; version object missing; protocol key missing; empty object; '
        'close without reply), entry point (connect, or status() with each '
        'of default / custom / disabled status and latency handlers), host '
        'and port; plus a complete sweep of every version id in the records '
        'as the single allowed / the default version (accepted iff that '
        'record is marked supported). Oracle = reference decision function + reference decoding '
        'of the client\'s frames by the scripted server: construction errors '
        '(N1), number of TCP connections and first frames (N2), every '
        'handshake carries chosen protocol, host, port and next state, login '
        'start names the user or the token\'s profile (N3), login / fallback '
        '/ VersionMismatch (message names the number, says "not supported" '
        'or "not allowed" correctly) / invalid-status error (N4), plain '
        'status hands the parsed object over once, pings iff asked, latency '
        '>= 0, closes, runs the exit callback once (N5). Non-trivial: >= 2 '
        'allowed versions and a reply protocol different from the latest '
        'allowed one, or an error/fallback outcome; distinct by scenario.')
RULE += (' ' +
         'Added in later rounds: every supported version name and number as '
         'reply and as allowed version, aliased spellings of one version, '
         'free-text version names with %, {}, newline, quotes; tokens whose '
         'profile (name) is set after the Connection was constructed and '
         'before connect(). Round 11: host names with several address '
         'records per family; status queries while the harness-owned wall '
         'clock steps back an hour per reading or is frozen. Round 14: '
         'status reply frames of every length 80-530 and around 2^14. Round '
         '15: status() handlers passed by position in half of the cases. '
         'Round 16: bare IPv6 literal hosts with ports 1 / 25565 / 65535. ')
LEVEL_TEXT = ('Model-based testing of the negotiation logic over generated '
              'configurations x server behaviours on an in-memory network, '
              'with every supported protocol used at least once as the '
              'server answer.')
LEVEL_NOTE = ('Trusted: in-memory transport and scripted servers built on '
              'the reference codec; the decision function is written from '
              'the property statement. Scenarios are sampled except for the '
              '"every supported protocol as answer" sweep.')
TECHNIQUE = ('model-based property testing on an in-memory network against '
             'a reference decision function')
ASSUMPTIONS = ['status replies carry integer protocol numbers']

PRE = 1 << 30


def tables():
    import minecraft
    sup, names, known = [], {}, []
    for r in minecraft.KNOWN_MINECRAFT_VERSION_RECORDS:
        if r.protocol not in known:
            known.append(r.protocol)
        if r.supported:
            if r.protocol not in sup:
                sup.append(r.protocol)
            names.setdefault(r.protocol, []).append(r.id)
    return sup, names, known


def make_token(name):
    from minecraft.authentication import AuthenticationToken, Profile
    t = AuthenticationToken(username='user@example.org',
                            access_token='a' * 8, client_token='c' * 8)
    t.profile = Profile(id_='1234', name=name)
    return t


def spell(member, names):
    """member = (protocol, how) how: 'num' | int index of name"""
    p, how = member
    if how == 'num' or p not in names:
        return p
    return names[p][how % len(names[p])]


def scenario_case(ctx, case):
    """case {allowed: None|[(proto, how)], bad: None|value, default:
    None|(proto, how), reply: {...}, entry, hs, hp, host, port, token,
    username}"""
    from minecraft.networking.connection import Connection
    from minecraft.exceptions import VersionMismatch
    sup, names, known = tables()
    rank = {p: i for i, p in enumerate(known)}
    ctx.ev()
    allowed = case['allowed']
    if allowed is None:
        aset = set(sup)
        arg = None
    else:
        aset = {m[0] for m in allowed}
        arg = [spell(tuple(m), names) for m in allowed]
        if case.get('bad') is not None:
            arg.append(case['bad'])
        if case.get('as_set', True):
            try:
                arg = set(arg)
            except TypeError:
                pass
    default = case.get('default')
    kw = {}
    if default is not None:
        kw['initial_version'] = spell(tuple(default), names) \
            if default[0] in names or default[1] == 'num' else default[0]
    host, port = case.get('host', 'localhost'), case.get('port', 25565)
    # token: True | 'late_name' | 'late_profile' - the token is
    # authenticated (or re-authenticated as another account) after the
    # Connection was built around it and before connect(): the profile that
    # counts is the one the token holds when the login starts
    token = make_token('Profile_' + case.get('username', 'u')) \
        if case.get('token') else None
    late = case.get('token') if isinstance(case.get('token'), str) else None
    if late == 'late_name':
        token.profile.name = 'Early_account'
    elif late == 'late_profile':
        from minecraft.authentication import Profile
        token.profile = Profile()
    latest = max(aset, key=rank.get)
    dflt = latest if default is None else default[0]
    reply = case['reply']

    # status server + login server
    # one spec serves both the status and the login connection (the script
    # follows the handshake's next_state)
    spec = {'version': latest, 'adopt_version': True,
            'status': {'reply': reply.get('json'),
                       'mode': reply.get('mode', 'reply')},
            'login': [('success',)],
            'play': {'bursts': [], 'end': 'disconnect'}}
    srvs = []

    def factory(addr):
        s = servers.Server(dict(spec))
        srvs.append(s)
        return s

    world = vnet.World(default=factory)
    if case.get('dns_records'):
        # the name resolves to several addresses per family (round robin):
        # the handshake still names the host the user asked for
        world.dns_records = case['dns_records']
        ctx.label('host_with_several_address_records')
    status_calls, ping_calls = [], []
    out = io.StringIO()
    bad = case.get('bad') is not None or case.get('bad_default')
    if case.get('clock'):
        ctx.label('wall_clock_' + case['clock'])
    with vnet.installed(world), contextlib.redirect_stdout(out), \
            vnet.wall_clock(case.get('clock')):
        try:
            conn, o = servers.make_connection(
                world, address=host, port=port, allowed_versions=arg,
                auth_token=token, username=case.get('username', 'u'), **kw)
        except ValueError as e:
            if not bad:
                ctx.fail('scenario', 'N1-valid-config-refused', case, exc=e)
            else:
                ctx.label('construction_refused')
                ctx.nt('bad', repr(case.get('bad')), repr(default))
            if world.connects:
                ctx.fail('scenario', 'N1-connected-during-construction', case)
            return
        except Exception as e:
            ctx.fail('scenario', 'N1-construction-error-type', case, exc=e)
            return
        if bad:
            ctx.fail('scenario', 'N1-invalid-config-accepted', case,
                     'constructed', 'ValueError')
            return
        entry = case['entry']
        hs, hp = case.get('hs', 'fn'), case.get('hp', 'false')
        if late == 'late_name':
            token.profile.name = 'Profile_' + case.get('username', 'u')
            ctx.label('token_profile_set_after_construction')
        elif late == 'late_profile':
            token.profile = Profile(id_='1234', name='Profile_' +
                                    case.get('username', 'u'))
            ctx.label('token_profile_set_after_construction')
        try:
            if entry == 'status':
                hs_v = {'default': None, 'fn': status_calls.append,
                        'false': False}[hs]
                hp_v = {'default': None, 'fn': ping_calls.append,
                        'false': False}[hp]
                if port % 2:
                    conn.status(hs_v, hp_v)        # by position
                else:
                    conn.status(handle_status=hs_v, handle_ping=hp_v)
            else:
                conn.connect()
        except Exception as e:
            ctx.fail('scenario', 'N-entry-raised', case, exc=e)
            return
        state = world.settle()
    if state == 'timeout':
        from vlib.core import HarnessError
        raise HarnessError('C09 scenario did not settle: %r' % (case,))
    if state == 'runaway':
        ctx.fail('scenario', 'N5-endless-reconnect-loop', case,
                 'more than %d TCP connections in one scenario'
                 % world.max_connects)
        return
    if state == 'blocked':
        ctx.fail('scenario', 'N5-client-blocks-in-read', case,
                 'the client waits for ever for bytes the server never '
                 'announced')
        return
    if state == 'idle':
        ctx.fail('scenario', 'N5-thread-never-terminates', case,
                 'networking thread idles for ever after the conversation',
                 'thread ends')
        return
    errs = [e for s in srvs for e in s.errors]
    if errs:
        ctx.fail('scenario', 'N3-malformed-client-frames', case, errs)
        return
    # N3 for every handshake
    for i, s in enumerate(srvs):
        h = s.handshake
        if h is None:
            ctx.fail('scenario', 'N3-no-handshake', dict(case, link=i))
            return
        if h['server_address'] != host or h['server_port'] != port:
            ctx.fail('scenario', 'N3-host-port', dict(case, link=i),
                     (h['server_address'], h['server_port']), (host, port))
    for addr, outcome in world.connects:
        if tuple(addr[:2]) != (host, port):
            ctx.fail('scenario', 'N3-tcp-target', case, addr, (host, port))
    excs = [e for e, info in o.exceptions]

    if entry == 'status':
        check_status(ctx, case, srvs, world, o, status_calls, ping_calls,
                     out.getvalue(), latest, hs, hp, excs)
        return

    want_name = token.profile.name if token else case.get('username', 'u')

    def check_login(link_i, version):
        s = srvs[link_i]
        h = s.handshake
        if h['next_state'] != 2 or h['protocol_version'] != version:
            ctx.fail('scenario', 'N3-login-handshake', dict(case, link=link_i),
                     (h['protocol_version'], h['next_state']), (version, 2))
        if s.login_name != want_name:
            ctx.fail('scenario', 'N3-login-name', case, s.login_name,
                     want_name)
        if excs:
            ctx.fail('scenario', 'N4-unexpected-error', case, repr(excs[0]))
        elif o.exits != 1:
            ctx.fail('scenario', 'N5-exit-callback', case, o.exits, 1)

    if len(aset) == 1:
        # N2: no status query at all
        ctx.label('single_allowed')
        if len(srvs) != 1:
            ctx.fail('scenario', 'N2-connection-count', case, len(srvs), 1)
            return
        check_login(0, latest)
        ctx.nt('single', latest, host, port, bool(token))
        return
    # N2: first connection is a status query with the latest allowed version
    if not srvs:
        ctx.fail('scenario', 'N2-no-connection', case)
        return
    h0 = srvs[0].handshake
    if h0['next_state'] != 1 or h0['protocol_version'] != latest:
        ctx.fail('scenario', 'N2-status-handshake', case,
                 (h0['protocol_version'], h0['next_state']), (latest, 1))
    if srvs[0].status_requests != 1:
        ctx.fail('scenario', 'N2-status-request', case,
                 srvs[0].status_requests, 1)
    kind = reply['kind']
    if kind in ('no_version', 'no_protocol', 'close'):
        expect = ('login', dflt)
    elif kind == 'empty':
        expect = ('invalid',)
    else:
        p = reply['protocol']
        expect = ('login', p) if p in aset else ('mismatch', p)
    ctx.label('expect_' + expect[0])
    if expect[0] == 'login':
        if len(srvs) != 2:
            ctx.fail('scenario', 'N4-login-connection-count', case,
                     len(srvs), 2)
            return
        check_login(1, expect[1])
        if kind in ('no_version', 'no_protocol', 'close'):
            ctx.label('fallback_to_default')
    else:
        if len(srvs) != 1:
            ctx.fail('scenario', 'N4-login-despite-error', case, len(srvs), 1)
        if len(excs) != 1:
            ctx.fail('scenario', 'N4-error-count', case,
                     [repr(e) for e in excs], 'exactly one')
            return
        e = excs[0]
        if expect[0] == 'invalid':
            if not isinstance(e, IOError) or \
                    'nvalid' not in str(e):
                ctx.fail('scenario', 'N4-invalid-status-error', case, repr(e),
                         'IOError mentioning invalid status')
        else:
            p = expect[1]
            msg = str(e)
            unsupported = p not in sup
            ok = isinstance(e, VersionMismatch) and \
                getattr(e, 'server_protocol', None) == p and \
                str(p) in msg and ('not supported' in msg) == unsupported \
                and ('not allowed' in msg) == (not unsupported)
            if ok and reply.get('name') is not None:
                ok = reply['name'] in msg
            if not ok:
                ctx.fail('scenario', 'N4-version-mismatch', case,
                         '%r server_protocol=%r' % (
                             e, getattr(e, 'server_protocol', None)),
                         'VersionMismatch naming %d, %s' % (
                             p, 'not supported' if unsupported
                             else 'not allowed'))
        if o.exits != 0:
            ctx.fail('scenario', 'N4-exit-callback-on-error', case, o.exits,
                     0)
        if not world.links[0].closed_by_client():
            ctx.fail('scenario', 'N4-link-left-open', case)
    if expect[0] != 'login' or expect[1] != latest:
        ctx.nt(repr(case))


def check_status(ctx, case, srvs, world, o, status_calls, ping_calls, printed,
                 latest, hs, hp, excs):
    reply = case['reply']
    if len(srvs) != 1:
        ctx.fail('scenario', 'N5-connection-count', case, len(srvs), 1)
        return
    s = srvs[0]
    h = s.handshake
    if h['next_state'] != 1 or h['protocol_version'] != latest:
        ctx.fail('scenario', 'N5-status-handshake', case,
                 (h['protocol_version'], h['next_state']), (latest, 1))
    if reply.get('mode') == 'close' or reply.get('json') is None:
        # no reply at all: an error must be reported
        if not excs:
            ctx.fail('scenario', 'N5-silent-without-reply', case)
        ctx.nt(repr(case))
        return
    sent = json.loads(reply['json'])
    if excs:
        ctx.fail('scenario', 'N5-unexpected-error', case, repr(excs[0]))
        return
    if hs == 'fn' and status_calls != [sent]:
        ctx.fail('scenario', 'N5-status-handler', case, status_calls, [sent])
    if hs == 'default' and repr(sent) not in printed and \
            str(sent) not in printed:
        ctx.fail('scenario', 'N5-default-status-handler', case,
                 printed[:200], 'printed status')
    if hs == 'false' and (status_calls or str(sent) in printed):
        ctx.fail('scenario', 'N5-status-handler-disabled', case)
    want_ping = hp != 'false'
    if len(s.pings) != (1 if want_ping else 0):
        ctx.fail('scenario', 'N5-ping-sent', case, len(s.pings),
                 1 if want_ping else 0)
    if hp == 'fn':
        if len(ping_calls) != 1 or not isinstance(ping_calls[0], int) or \
                ping_calls[0] < 0:
            ctx.fail('scenario', 'N5-latency-handler', case, ping_calls,
                     'one non-negative value')
    if hp == 'default' and 'Ping:' not in printed:
        ctx.fail('scenario', 'N5-default-latency-handler', case,
                 printed[-100:])
    if hp == 'false' and (ping_calls or 'Ping:' in printed):
        ctx.fail('scenario', 'N5-latency-handler-disabled', case)
    if not world.links[0].closed_by_client():
        ctx.fail('scenario', 'N5-link-left-open', case)
    if o.exits != 1:
        ctx.fail('scenario', 'N5-exit-callback', case, o.exits, 1)
    ctx.label('status_%s_%s' % (hs, hp))
    ctx.nt('status', hs, hp, reply['json'], case.get('host'),
           case.get('port'))


COMPONENTS = {'scenario': scenario_case}


# --------------------------------------------------------------- strategies

# version names are free text chosen by the server (MOTD-style
# advertising is common): nothing in them may be interpreted
ODD_NAMES = ['100% Vanilla', '50%% off ranks!', 'Survival %s', '%d',
             '%(name)s', '{0} {} {name}', '', ' ', 'a\nb', '\u00a7cRed',
             '\U0001f600 1.18', "it's \"quoted\"", '\\x']


def reply_strategy(sup, known):
    unknown = st.sampled_from([-1, -2 ** 31, 2 ** 31, 10 ** 6, 99999,
                               PRE | 1000, 758, 1000])
    unsupported = st.sampled_from([p for p in known if p not in sup] or [0])
    proto = st.one_of(st.sampled_from(sup), st.sampled_from(sup),
                      unsupported, unknown)
    name = st.one_of(st.none(), st.sampled_from(
        ['1.8', 'Paper 1.16.5', 'x', 'BungeeCord 1.8.x'] + ODD_NAMES))

    def with_proto(t):
        p, nm = t
        v = {'protocol': p}
        if nm is not None:
            v['name'] = nm
        return {'kind': 'proto', 'protocol': p, 'name': nm,
                'json': json.dumps({'version': v,
                                    'description': {'text': 'd'}})}
    fixed = st.sampled_from([
        {'kind': 'no_version', 'json': json.dumps({'description': 'x'})},
        {'kind': 'no_protocol',
         'json': json.dumps({'version': {'name': '1.8'}})},
        {'kind': 'empty', 'json': '{}'},
        {'kind': 'close', 'json': None, 'mode': 'close'},
    ])
    return st.one_of(st.tuples(proto, name).map(with_proto),
                     st.tuples(proto, name).map(with_proto), fixed)


def allowed_strategy(sup):
    how = st.one_of(st.just('num'), st.integers(0, 5))
    n = len(sup)
    subsets = st.one_of(
        st.none(),
        st.sampled_from(sup).map(lambda p: [p]),
        st.lists(st.sampled_from(sup), min_size=2, max_size=2, unique=True),
        st.integers(1, n).map(lambda k: sup[:k]),
        st.integers(0, n - 1).map(lambda k: sup[k:]),
        st.lists(st.sampled_from(sup), min_size=1, max_size=12, unique=True))

    def spellings(ps):
        if ps is None:
            return st.none()
        return st.tuples(*[st.tuples(st.just(p), how) for p in ps]).map(list)
    return subsets.flatmap(spellings)


def scenario_strategy():
    sup, names, known = tables()
    how = st.one_of(st.just('num'), st.integers(0, 5))
    hosts = st.one_of(st.sampled_from(['localhost', '127.0.0.1', '::1',
                                       '2001:db8::1', 'fe80::1234',
                                       '::ffff:10.0.0.1', '2001:db8::',
                                       'host-25565', '10.0.0.1.']),
                      st.text('abcdefghijklmnopqrstuvwxyz0123456789',
                              min_size=1, max_size=12).map(
                                  lambda s: s + '.example.org'))
    return st.fixed_dictionaries({
        'allowed': allowed_strategy(sup),
        'default': st.one_of(st.none(),
                             st.tuples(st.sampled_from(sup), how)),
        'reply': reply_strategy(sup, known),
        'entry': st.sampled_from(['connect', 'connect', 'connect', 'status']),
        'hs': st.sampled_from(['default', 'fn', 'false']),
        'hp': st.sampled_from(['default', 'fn', 'false']),
        'dns_records': st.sampled_from([None, None, 2, 3]),
        'clock': st.sampled_from([None, None, 'steps_back', 'frozen']),
        'host': hosts, 'port': st.one_of(st.integers(1, 65535),
                                         st.sampled_from([1, 25565, 65535])),
        'token': st.sampled_from([False, False, True, 'late_name',
                                  'late_profile']),
        'username': st.sampled_from(['u', 'Steve', 'x' * 16]),
        'as_set': st.booleans()})


def bad_strategy():
    sup, names, known = tables()
    unsupported = [p for p in known if p not in sup]
    bad = st.one_of(
        st.sampled_from(['foo', '1.8.10', '', '13w41a', '21w07a', 48,
                         PRE | 15, 99999, -1, 3.5, b'1.8', (47,)]),
        st.sampled_from(unsupported or [0]))
    base = scenario_strategy()
    return st.tuples(base, bad, st.booleans()).map(
        lambda t: dict(t[0], **(
            {'bad': t[1], 'allowed': t[0]['allowed'] or [(757, 'num')]}
            if t[2] else {'bad_default': True, 'default': (t[1], 'raw')})))


# -------------------------------------------------------------------- tasks

def t_every_protocol(ctx, lo, hi):
    sup, names, known = tables()
    for p in sup[lo:hi]:
        other = sup[0] if p != sup[0] else sup[1]
        reply = {'kind': 'proto', 'protocol': p, 'name': None,
                 'json': json.dumps({'version': {'protocol': p}})}
        scenario_case(ctx, {'allowed': None, 'default': None, 'reply': reply,
                            'entry': 'connect', 'username': 'u'})
        scenario_case(ctx, {'allowed': [(other, 'num'), (p, 0)],
                            'default': None, 'reply': reply,
                            'entry': 'connect', 'username': 'u'})
        scenario_case(ctx, {'allowed': [(other, 'num'), (p, 0)],
                            'default': None, 'reply': reply,
                            'entry': 'connect', 'username': 'u',
                            'host': 'play.example.org', 'dns_records': 2})
        scenario_case(ctx, {'allowed': [(p, 'num')],
                            'default': None, 'reply': reply,
                            'entry': ['connect', 'status'][p % 2],
                            'username': 'u', 'host': 'mc.example.org',
                            'dns_records': 3})
        for hp in ('fn', 'default'):
            scenario_case(ctx, {'allowed': [(p, 'num')], 'default': None,
                                'reply': reply, 'entry': 'status',
                                'username': 'u', 'hp': hp,
                                'clock': ['steps_back', 'frozen'][p % 2]})
        # bare IPv6 literals (and other hosts with ':' or digits at the end)
        # as the address: the whole string is the host, the port is the port
        for host6 in ('::1', '2001:db8::1', 'fe80::1234'):
            scenario_case(ctx, {'allowed': [(other, 'num'), (p, 'num')],
                                'default': None, 'reply': reply,
                                'entry': ['connect', 'status'][p % 2],
                                'username': 'u', 'host': host6,
                                'port': [25565, 1, 65535][p % 3]})
        scenario_case(ctx, {'allowed': [(other, 'num')] +
                            ([(sup[5], 'num')] if sup[5] not in (p, other)
                             else [(sup[6], 'num')]),
                            'default': None, 'reply': reply,
                            'entry': 'connect', 'username': 'u'})
        for tk in (True, 'late_name', 'late_profile'):
            scenario_case(ctx, {'allowed': [(p, 'num')], 'default': None,
                                'reply': reply, 'entry': 'connect',
                                'username': 'u', 'token': tk})
        # the chronological neighbours: 'latest allowed' is decided by the
        # publication order (a protocol with several names, e.g. 754 =
        # 1.16.4 / 1.16.5, has the position of its FIRST publication; the
        # snapshots published between its names come after it)
        i = sup.index(p)
        for k, nb in enumerate(sup[i + 1:i + 4]):
            scenario_case(ctx, {'allowed': [(nb, 'num'), (p, 'num')][::
                                            1 if k % 2 else -1],
                                'default': None, 'reply': reply,
                                'entry': ['status', 'connect'][(i + k) % 2],
                                'username': 'u', 'as_set': bool(i % 2)})
        # one allowed VERSION spelled more than once (two of its names, a
        # name and its number, the number twice; list or set): still a
        # single allowed version, so no status query
        spell2 = [[(p, 'num'), (p, 'num')], [(p, 'num'), (p, 0)]]
        if len(names.get(p, ())) >= 2:
            spell2.append([(p, 0), (p, 1)])
        for k, al in enumerate(spell2):
            scenario_case(ctx, {'allowed': al, 'default': None,
                                'reply': reply, 'entry': 'connect',
                                'username': 'u', 'as_set': bool(k % 2)
                                if al[0] != al[1] else False})
    ctx.sample({'allowed': [(sup[0], 'num'), (sup[lo], 0)],
                'reply_protocol': sup[lo]}, 'every_protocol')
    ctx.exhaustive_done('every supported protocol as the server answer: '
                        'allowed=all / allowed pair containing it / pair '
                        'not containing it / singleton')


def t_every_other_number(ctx):
    """every known-but-unsupported protocol and a table of unusual integers
    as the server's answer: always a mismatch naming that number, never a
    fallback (0 is a real protocol number; falsy values are not 'absent')"""
    sup, names, known = tables()
    odd = [0, -1, 1, 2, 3, -2 ** 31, 2 ** 31 - 1, 2 ** 31, 2 ** 63, 10 ** 6,
           99999, 758, PRE | 1000, PRE, 255, 256]
    for p in [q for q in known if q not in sup] + odd:
        if p in sup:
            continue
        for nm in (None, 'x'):
            v = {'protocol': p}
            if nm:
                v['name'] = nm
            reply = {'kind': 'proto', 'protocol': p, 'name': nm,
                     'json': json.dumps({'version': v})}
            scenario_case(ctx, {'allowed': None, 'default': None,
                                'reply': reply, 'entry': 'connect',
                                'username': 'u'})
            scenario_case(ctx, {'allowed': [(sup[0], 'num'), (sup[-1], 0)],
                                'default': (sup[0], 'num'), 'reply': reply,
                                'entry': 'connect', 'username': 'u'})
    # free-text version names in a mismatch (unsupported and not-allowed)
    for nm in ODD_NAMES:
        for p, al in ((99999, None), (sup[3], [(sup[0], 'num'), (sup[-1], 0)])):
            reply = {'kind': 'proto', 'protocol': p, 'name': nm,
                     'json': json.dumps({'version': {'protocol': p,
                                                     'name': nm}})}
            scenario_case(ctx, {'allowed': al, 'default': None,
                                'reply': reply, 'entry': 'connect',
                                'username': 'u'})
    # falsy-but-present values of the other keys must not count as absent
    for js, kind in (('{"version": {"protocol": 0, "name": ""}}', 'proto'),):
        scenario_case(ctx, {'allowed': None, 'default': None,
                            'reply': {'kind': 'proto', 'protocol': 0,
                                      'name': None, 'json': js},
                            'entry': 'connect', 'username': 'u'})
    ctx.sample({'reply_protocol': 0, 'allowed': 'all'}, 'every_other_number')
    ctx.exhaustive_done('every known-but-unsupported protocol and 16 '
                        'unusual integers as the server answer')


def t_status_lengths(ctx, lo, hi):
    """status replies of every frame length in a window (and around the
    2- / 3-byte length-prefix boundaries): the frame is whatever its length
    prefix says, whatever the first byte of that prefix looks like"""
    sup, names, known = tables()
    p = sup[len(sup) // 2]
    other = sup[0]
    lengths = list(range(lo, hi)) + \
        ([16381, 16382, 16383, 16384, 16385, 16511, 32767]
         if lo <= 255 < hi else [])
    for L in lengths:
        base = {'version': {'protocol': p, 'name': 'x'},
                'description': {'text': ''}}
        n0 = len(json.dumps(base))
        # frame = id (1 byte) + VarInt(n) + n bytes of JSON
        n = L - 1 - (1 if L - 2 < 128 else 2 if L - 3 < 16384 else 3)
        if n < n0:
            continue
        base['description']['text'] = 'm' * (n - n0)
        js = json.dumps(base)
        if len(js) != n:
            continue
        reply = {'kind': 'proto', 'protocol': p, 'name': 'x', 'json': js}
        scenario_case(ctx, {'allowed': [(other, 'num'), (p, 'num')],
                            'default': None, 'reply': reply,
                            'entry': 'connect', 'username': 'u'})
        if L % 16 == 15:
            scenario_case(ctx, {'allowed': None, 'default': None,
                                'reply': reply, 'entry': 'status',
                                'username': 'u', 'hs': 'fn', 'hp': 'fn'})
    ctx.exhaustive_done('status reply frames of every length %d..%d'
                        % (lo, hi - 1))


def t_every_name(ctx, lo, hi):
    """every version id in the records, given as the single allowed version
    and as the default version: accepted exactly when that record is marked
    supported (an unsupported id is refused even when its protocol number is
    shared with a supported id); an accepted name connects with its number"""
    import minecraft
    recs = list(minecraft.KNOWN_MINECRAFT_VERSION_RECORDS)[lo:hi]
    sup, names, known = tables()
    for r in recs:
        if r.supported:
            idx = names[r.protocol].index(r.id)
            reply = {'kind': 'proto', 'protocol': r.protocol, 'name': None,
                     'json': json.dumps({'version': {'protocol': r.protocol}})}
            scenario_case(ctx, {'allowed': [(r.protocol, idx)],
                                'default': None, 'reply': reply,
                                'entry': 'connect', 'username': 'u'})
            other = sup[0] if r.protocol != sup[0] else sup[1]
            scenario_case(ctx, {'allowed': [(other, 'num'), (r.protocol, idx)],
                                'default': (r.protocol, idx),
                                'reply': {'kind': 'close', 'json': None,
                                          'mode': 'close'},
                                'entry': 'connect', 'username': 'u'})
        else:
            scenario_case(ctx, {'allowed': [(sup[-1], 'num')], 'bad': r.id,
                                'default': None, 'reply': {'kind': 'any',
                                                           'json': '{}'},
                                'entry': 'connect', 'username': 'u'})
            scenario_case(ctx, {'allowed': None, 'bad_default': True,
                                'default': (r.id, 'raw'),
                                'reply': {'kind': 'any', 'json': '{}'},
                                'entry': 'connect', 'username': 'u'})
    ctx.exhaustive_done('every version id of the records as allowed version '
                        'and as default version')


def t_status_modes(ctx):
    sup, names, known = tables()
    for hs in ('default', 'fn', 'false'):
        for hp in ('default', 'fn', 'false'):
            for js in ('{"version":{"protocol":47,"name":"1.8"},'
                       '"description":"x"}', '{}', '{"a":[1,2,{"b":null}]}'):
                scenario_case(ctx, {
                    'allowed': None, 'default': None,
                    'reply': {'kind': 'any', 'json': js}, 'entry': 'status',
                    'hs': hs, 'hp': hp, 'host': 'mc.example.org',
                    'port': 25566, 'username': 'u'})
    scenario_case(ctx, {'allowed': None, 'default': None,
                        'reply': {'kind': 'close', 'json': None,
                                  'mode': 'close'},
                        'entry': 'status', 'hs': 'fn', 'hp': 'fn',
                        'username': 'u'})
    ctx.exhaustive_done('status(): 3 x 3 handler modes x 3 replies')


def t_random(ctx, n):
    def body(c, case):
        scenario_case(c, case)
        if c.evaluations % 150 == 1:
            c.sample(case, 'scenario')
    hyp(ctx, 'random', scenario_strategy(), body, n)
    hyp(ctx, 'bad', bad_strategy(), body, max(20, n // 5))


def tasks(tier):
    q = tier == 'quick'
    sup, names, known = tables()
    n = len(sup)
    tl = [('status_modes', t_status_modes, {}),
          ('every_other_number', t_every_other_number, {})]
    for i in range(3):
        tl.append(('status_lengths_%d' % i, t_status_lengths,
                   dict(lo=80 + 150 * i, hi=80 + 150 * (i + 1))))
    nsh = 5
    for i in range(nsh):
        tl.append(('every_protocol_%d' % i, t_every_protocol,
                   dict(lo=n * i // nsh, hi=n * (i + 1) // nsh)))
    import minecraft
    nr = len(minecraft.KNOWN_MINECRAFT_VERSION_RECORDS)
    for i in range(3):
        tl.append(('every_name_%d' % i, t_every_name,
                   dict(lo=nr * i // 3, hi=nr * (i + 1) // 3)))
    for i in range(8 if q else 14):
        tl.append(('random_%d' % i, t_random, dict(n=250 if q else 4000)))
    return tl
