"""C10 - login completes correctly for every order of optional server
steps; disconnects surface as errors.  Scripted servers with independent
RSA/CFB8 on the in-memory network."""
import hashlib
import json

from hypothesis import strategies as st

from vlib import vnet, servers, rsa
from vlib.runner import hyp
from props import c04_position as P4

PROPERTY = 'C10'
LEVEL = 'exploration'
RULE = ('The handler taking over a plugin request answers in explicit '
        "or short form, with a payload or with b''; the server sends "
        "its key in any DER form the client's parser accepts. "
'A server login script = any order/subset of {encryption request '
        '(1024/2048-bit key, verify token 1-64 bytes, server id "-", "", '
        '20-char ids), set compression (threshold 0, 1, 64, 256, 2^31-1, '
        '-1), 0-4 plugin requests (ids incl. 0 and 2^31-1, payload 0-300 '
        'bytes, server waits for the answer or not) at any position} then '
        'login success (followed by a keep-alive and a play disconnect) or a '
        'login disconnect (JSON with text, JSON without text, JSON string, '
        'non-JSON, the two "Outdated" forms with known/unknown/spaced '
        'version ids); protocols on both sides of the login layout '
        'boundaries (47, 340, 384, 385, 390, 391, 393, 706, 707, 754, 757) '
        'plus random supported ones; client with/without a recording auth '
        'token and with/without an early listener that answers plugin '
        'requests itself; optionally as the second session of the object, '
        'after a (compressed) one that ended by end-of-stream + reconnect '
        'from an exception handler or by a disconnect packet + user '
        'reconnect. Oracle: encryption response decrypts under the '
        'script\'s private key to a 16-byte secret and the exact token (L1); '
        'all later client bytes decrypt under reference CFB8 into '
        'well-formed frames and the client understands the encrypted stream '
        '(L2); frames after set-compression parse in compressed mode, '
        'compressed and uncompressed server frames are understood (L3); one '
        'plugin response per request, same id, request order, unsuccessful '
        'unless the listener took over (L4); success => play reactor, '
        'keep-alive answered, session join called once iff online id and '
        'token, with the reference hash (L5); disconnect => LoginDisconnect '
        'carrying the message or VersionMismatch for "Outdated", never '
        'silent (L6). Non-trivial: >= 2 optional steps or a disconnect; '
        'distinct by case.')
RULE += (' ' +
         'Added in later rounds: the login as the second session of its '
         'Connection object (prior session with another threshold, reconnect '
         'from a handler or by the user); plugin take-over forms; four DER '
         'encodings of the server key; non-ASCII and dash-prefixed server '
         'ids; a session service that answers the first join attempts with '
         'errors. Round 12: connected sockets and file objects of ended '
         'sessions are closed. Round 13: take-over handlers that echo the '
         'request payload, with tiny and incompressible payloads under '
         'threshold 0. Round 14: an early listener that calls disconnect() '
         'on the login disconnect packet without claiming it. ')
LEVEL_TEXT = ('Model-based testing of the login state machine over '
              'generated server scripts x protocol eras x client '
              'configurations with independent crypto oracles.')
LEVEL_NOTE = ('Trusted: scripted server (reference codec, pure RSA by pow, '
              'reference CFB8), in-memory transport. Scripts are sampled, '
              'not enumerated. Compression-before-encryption (non-vanilla '
              'order) is generated and labelled.')
TECHNIQUE = ('model-based property testing of server scripts on an '
             'in-memory network with independent RSA/CFB8 oracles')
ASSUMPTIONS = ['disconnect "text" is a string when present',
               'for "Outdated" ids containing white space either error '
               'class is accepted']

ERA_VERSIONS = [47, 340, 384, 385, 390, 391, 393, 706, 707, 754, 757]


class Tok(object):
    """stand-in token; fails = status codes of the session service's
    errors for the first len(fails) join calls (None: no status code)"""

    def __init__(self, name, fails=()):
        self.profile = type('P', (), {'name': name})()
        self.joins = []
        self.fails = list(fails)
        self.raised = []

    def join(self, server_hash):
        self.joins.append(server_hash)
        if len(self.joins) <= len(self.fails):
            from minecraft.exceptions import YggdrasilError
            e = YggdrasilError('session service error',
                               status_code=self.fails[len(self.joins) - 1])
            self.raised.append(e)
            raise e
        return True


def disconnect_message(d):
    """d = (form, text) -> (json_data sent, expected kind, expected needle)
    """
    form, text = d
    if form == 'json_text':
        return json.dumps({'text': text}), 'login', text
    if form == 'json_notext':
        raw = json.dumps({'translate': text})
        return raw, 'login', raw
    if form == 'json_string':
        raw = json.dumps(text)
        return raw, 'login', raw
    if form == 'plain':
        return text, 'login', text
    if form == 'json_other':      # valid JSON that is not an object/string
        return text, 'login', text
    if form in ('outdated_client', 'outdated_server'):
        pre = 'Outdated client! Please use ' if form == 'outdated_client' \
            else "Outdated server! I'm still on "
        msg = pre + text
        return json.dumps({'text': msg}), 'mismatch', text
    if form in ('outdated_client_raw', 'outdated_server_raw'):
        pre = 'Outdated client! Please use ' if form == 'outdated_client_raw' \
            else "Outdated server! I'm still on "
        return pre + text, 'mismatch', text
    raise ValueError(form)


def login_case(ctx, case):
    """case {version, steps [..], terminal, token: bool, takeover: bool,
             plan, s2c_compress [bool..]}"""
    from minecraft.networking import connection as C
    from minecraft.exceptions import (LoginDisconnect, VersionMismatch,
                                      IgnorePacket)
    from minecraft.networking.packets import clientbound, serverbound
    version = case['version']
    ctx.ev()
    steps = []
    plugins = []
    enc = None
    for s in case['steps']:
        s = tuple(s)
        if s[0] == 'plugin':
            if not servers.has_packet(version, 'plugin_request'):
                continue
            plugins.append(s)
        if s[0] == 'encrypt':
            enc = s
        steps.append(s)
    term = tuple(case['terminal'])
    if term[0] == 'success':
        steps.append(('success',))
    else:
        raw, want_kind, needle = disconnect_message(tuple(term[1]))
        steps.append(('disconnect', raw))
    srv = servers.Server({
        'version': version, 'login': steps,
        'play': {'bursts': [[('keep_alive', {'keep_alive_id': 77})]],
                 'mode': 'reactive', 'end': 'disconnect'}})
    ch = case.get('s2c_compress') or []
    if ch:
        srv.s2c_compress_choice = lambda k: ch[k % len(ch)]
    plan = case.get('plan', 'whole')
    if isinstance(plan, tuple):
        plan = list(plan)
    # an earlier session on the same Connection object (the login under test
    # is then the object's second one): prior = [threshold|None, how] with
    # how = 'handler_direct' (server drops the link; an exception handler
    # calls connect()), 'handler_disc' (same, disconnect(immediate) first),
    # 'user' (server ends with a disconnect packet; the user connects again)
    prior = case.get('prior')
    scripts = [srv]
    if prior:
        psteps = ([('compress', prior[0])] if prior[0] is not None else []) \
            + [('success',)]
        scripts.insert(0, servers.Server({
            'version': version, 'login': psteps,
            'play': {'bursts': [], 'mode': 'all',
                     'end': 'disconnect' if prior[1] == 'user' else 'eof'}}))
        ctx.label('prior_session_' + prior[1])
    world = vnet.World(servers=scripts, plan=plan)
    tok = Tok('Prof', case.get('join_fails') or ()) \
        if case.get('token') else None
    reactor_seen = []
    with vnet.installed(world):
        conn, o = servers.make_connection(
            world, allowed_versions={version}, auth_token=tok)
        if prior and prior[1] != 'user':
            did = []

            def again(exc, info):
                if not did and isinstance(exc, EOFError):
                    did.append(1)
                    if prior[1] == 'handler_disc':
                        conn.disconnect(immediate=True)
                    conn.connect()
            conn.register_exception_handler(again)
        if case.get('takeover'):
            # the handler answers itself; forms: True/'explicit' (successful
            # given), 'short' (only data given: "successful" is implied by
            # data being present), each with a payload or with b''
            form = case['takeover'] if isinstance(case['takeover'], str) \
                else 'explicit'

            def take(p):
                data = b'' if form.endswith('_empty') else \
                    bytes(p.data) if form == 'echo' else \
                    b'ok:' + p.channel.encode('utf-8')
                kw = {'successful': True} if form.startswith('explicit') \
                    else {}
                conn.write_packet(serverbound.login.PluginResponsePacket(
                    message_id=p.message_id, data=data, **kw))
                raise IgnorePacket
            conn.register_packet_listener(
                take, clientbound.login.PluginRequestPacket, early=True)
        if case.get('tidy'):
            # a listener that tidies up when the server says no: it closes
            # the connection itself, early, WITHOUT claiming the packet
            # (no IgnorePacket) - the refusal is still reported as an error
            def tidy(p):
                conn.disconnect(immediate=case['tidy'] == 'immediate')
            conn.register_packet_listener(
                tidy, clientbound.login.DisconnectPacket, early=True)
            ctx.label('early_listener_disconnects_on_login_disconnect')
        conn.register_packet_listener(
            lambda p: reactor_seen.append(type(conn.reactor).__name__),
            clientbound.play.KeepAlivePacket)
        try:
            conn.connect()
            if prior and prior[1] == 'user':
                if world.settle() != 'done':
                    from vlib.core import HarnessError
                    raise HarnessError('C10 prior session did not end')
                conn.connect()
        except Exception as e:
            ctx.fail('login', 'L-connect-raised', case, exc=e)
            return
        state = world.settle()
    if state == 'timeout':
        from vlib.core import HarnessError
        raise HarnessError('C10 case did not settle')
    excs = [e for e, i in o.exceptions]
    prior_exits = 0
    if prior:
        if len(world.links) != 2 or scripts[0].errors or \
                not scripts[0].play_started:
            ctx.fail('login', 'L-prior-session', case,
                     (len(world.links), scripts[0].errors), '2 links')
            return
        if prior[1] == 'user':
            prior_exits = 1
        else:
            # the dropped link of the prior session was reported once
            eofs = [e for e in excs if isinstance(e, EOFError)]
            if len(eofs) != 1:
                ctx.fail('login', 'L-prior-session-error-report', case,
                         [repr(e) for e in excs], 'one EOFError')
                return
            excs.remove(eofs[0])
    nopt = len([s for s in steps if s[0] in ('encrypt', 'compress',
                                             'plugin')])
    if nopt >= 2 or term[0] != 'success':
        ctx.nt(repr(case))
    order = [s[0] for s in steps if s[0] in ('encrypt', 'compress')]
    if order == ['compress', 'encrypt']:
        ctx.label('compress_before_encrypt')
    ctx.label('terminal_' + term[0], 'steps_%d' % min(nopt, 4))
    if state == 'runaway':
        ctx.fail('login', 'L-endless-reconnect-loop', case,
                 'more than %d TCP connections in one scenario'
                 % world.max_connects)
        return
    if state == 'blocked':
        ctx.fail('login', 'L2-client-blocks-in-read', case,
                 'the client waits for ever for bytes the server never '
                 'announced')
        return
    if state == 'idle':
        ctx.fail('login', 'L-thread-never-terminates', case,
                 'client idles for ever; server errors=%r' % srv.errors)
        return
    if srv.errors:
        ctx.fail('login', 'L2L3-malformed-client-stream', case, srv.errors)
        return
    if world.open_handles() and not (prior and
                                     prior[1] == 'handler_direct'):
        ctx.fail('login', 'L-descriptor-left-open', case,
                 world.open_handles(), 'all closed once every session ended')
        return
    if tok is not None and tok.raised:
        # the session service refused the join: whatever the client then
        # does (give up and report that error, or try again), every join it
        # ever sends names this login's hash - one value, the reference one
        # whenever the server got to know the secret
        ctx.label('join_refused_by_session_service')
        if len(set(tok.joins)) != 1:
            ctx.fail('login', 'L5-session-join-hash-varies', case,
                     tok.joins, 'the same hash in every attempt')
            return
        if srv.secret is not None and enc is not None:
            ref = rsa.java_hex(hashlib.sha1(
                enc[3].encode('utf-8') + srv.secret +
                srv.enc_key_bytes).digest())
            if tok.joins[0] != ref:
                ctx.fail('login', 'L5-session-join', case, tok.joins, [ref])
                return
        if len(tok.joins) <= len(tok.fails):
            # gave up: the service's error is what gets reported
            if not any(e is x for e in excs for x in tok.raised):
                ctx.fail('login', 'L6-join-error-not-reported', case,
                         [repr(e) for e in excs], repr(tok.raised[-1]))
            if not world.links[-1].closed_by_client():
                ctx.fail('login', 'L6-link-left-open', case)
        return
    # L1
    if enc is not None and srv.enc_response is not None:
        if srv.secret is None or len(srv.secret) != 16 or \
                srv.token_back != enc[2]:
            ctx.fail('login', 'L1-encryption-response', case,
                     (srv.secret, getattr(srv, 'token_back', None)),
                     ('16-byte secret', enc[2]))
    if enc is not None and srv.enc_response is None:
        ctx.fail('login', 'L1-no-encryption-response', case)
        return
    # L4
    want_pl = []
    for s in plugins:
        if case.get('takeover') == 'echo':
            # the handler sends back exactly the request's payload
            want_pl.append((s[1], True, bytes(s[3])))
        elif case.get('takeover'):
            want_pl.append((s[1], True, b'' if str(case['takeover']).endswith(
                '_empty') else b'ok:' + s[2].encode('utf-8')))
        else:
            want_pl.append((s[1], False, None))
    got_pl = [(r['message_id'], r['successful'], r['data'])
              for r in srv.plugin_responses]
    if term[0] == 'success' or all(s[4] for s in plugins):
        if got_pl != want_pl:
            ctx.fail('login', 'L4-plugin-responses', case, got_pl, want_pl)
        if any(r.get('extra') for r in srv.plugin_responses):
            ctx.fail('login', 'L4-unsuccessful-response-with-data', case)
    elif got_pl != want_pl[:len(got_pl)]:
        ctx.fail('login', 'L4-plugin-responses', case, got_pl, want_pl)
    if term[0] == 'success':
        # L5
        if excs:
            ctx.fail('login', 'L5-error-on-success', case, repr(excs[0]))
            return
        if reactor_seen != ['PlayingReactor']:
            ctx.fail('login', 'L5-play-state', case, reactor_seen,
                     ['PlayingReactor'])
        if srv.replies != [('keep_alive', 77)]:
            ctx.fail('login', 'L5-keep-alive-after-login', case,
                     srv.replies, [('keep_alive', 77)])
        if o.exits != 1 + prior_exits:
            ctx.fail('login', 'L5-exit-callback', case, o.exits,
                     1 + prior_exits)
        if tok is not None:
            want_join = []
            if enc is not None and enc[3] != '-':
                want_join = [rsa.java_hex(hashlib.sha1(
                    enc[3].encode('utf-8') + srv.secret +
                    srv.enc_key_bytes).digest())]
            if tok.joins != want_join:
                ctx.fail('login', 'L5-session-join', case, tok.joins,
                         want_join)
    else:
        # L6
        if o.exits != prior_exits:
            ctx.fail('login', 'L6-exit-callback-on-failure', case, o.exits,
                     prior_exits)
        if len(excs) != 1:
            ctx.fail('login', 'L6-silent-or-multiple', case,
                     [repr(e) for e in excs], 'exactly one error')
            return
        e = excs[0]
        if want_kind == 'login':
            if not isinstance(e, LoginDisconnect) or needle not in str(e):
                ctx.fail('login', 'L6-login-disconnect', case, repr(e),
                         'LoginDisconnect containing %r' % needle)
        else:
            spaced = any(c.isspace() for c in needle)
            if isinstance(e, VersionMismatch):
                if getattr(e, 'server_version', None) != needle and \
                        not spaced:
                    ctx.fail('login', 'L6-version-mismatch', case,
                             getattr(e, 'server_version', None), needle)
            elif not (spaced and isinstance(e, LoginDisconnect) and
                      needle in str(e)):
                ctx.fail('login', 'L6-version-mismatch', case, repr(e),
                         'VersionMismatch for %r' % needle)
            if spaced:
                ctx.label('outdated_with_space')
        if not world.links[-1].closed_by_client():
            ctx.fail('login', 'L6-link-left-open', case)


def real_login_case(ctx, case):
    if ctx.labels.get('real_socket_run_inconclusive_timeout', 0) >= 2:
        return          # stop burning wall-clock on a hanging client
    """The same script over real loopback TCP (validation of the in-memory
    transport): L1, L4, L5 (keep-alive answered, exit once), L6 (error
    class)."""
    from vlib import realnet
    from vlib.core import HarnessError
    from minecraft.networking.connection import Connection
    from minecraft.exceptions import LoginDisconnect, VersionMismatch
    version = case['version']
    ctx.ev()
    steps = [tuple(s) for s in case['steps']
             if s[0] != 'plugin' or
             servers.has_packet(version, 'plugin_request')]
    # over real TCP the frames of one burst may arrive in separate
    # segments, so a server that does not wait for a plugin answer before
    # switching compression on races with the client by construction:
    # the real-socket script always waits (as real proxies do)
    steps = [s[:4] + (True,) if s[0] == 'plugin' else s for s in steps]
    plugins = [s for s in steps if s[0] == 'plugin']
    enc = next((s for s in steps if s[0] == 'encrypt'), None)
    term = tuple(case['terminal'])
    if term[0] == 'success':
        steps.append(('success',))
    else:
        raw, want_kind, needle = disconnect_message(tuple(term[1]))
        steps.append(('disconnect', raw))
    srvs = []

    def factory(addr):
        s = servers.Server({
            'version': version, 'login': list(steps),
            'play': {'bursts': [[('keep_alive', {'keep_alive_id': 77})]],
                     'mode': 'reactive', 'end': 'disconnect'}})
        srvs.append(s)
        return s
    world = realnet.RealWorld(factory)
    try:
        excs, exits = [], []
        conn = Connection('127.0.0.1', world.port, username='tester',
                          allowed_versions={version},
                          handle_exception=lambda e, i: excs.append(e),
                          handle_exit=lambda: exits.append(1))
        conn.connect()
        if world.settle(conn, 8.0) != 'done':
            # inconclusive (slow machine or a hang): the in-memory tasks
            # decide; only counted
            ctx.label('real_socket_run_inconclusive_timeout')
            return
    finally:
        world.close()
    srv = srvs[0]
    if srv.errors:
        ctx.fail('real_login', 'L2L3-malformed-client-stream', case,
                 srv.errors)
        return
    if enc is not None and (srv.secret is None or
                            getattr(srv, 'token_back', None) != enc[2]):
        ctx.fail('real_login', 'L1-encryption-response', case)
    want_pl = [(s[1], False, None) for s in plugins]
    got_pl = [(r['message_id'], r['successful'], r['data'])
              for r in srv.plugin_responses]
    if term[0] == 'success':
        if got_pl != want_pl:
            ctx.fail('real_login', 'L4-plugin-responses', case, got_pl,
                     want_pl)
        if excs or exits != [1] or srv.replies != [('keep_alive', 77)]:
            ctx.fail('real_login', 'L5-success', case,
                     (repr(excs[:1]), exits, srv.replies))
    else:
        if len(excs) != 1 or not isinstance(
                excs[0], (LoginDisconnect, VersionMismatch)):
            ctx.fail('real_login', 'L6-login-failure', case, repr(excs))
    ctx.label('traces_validated_against_real_sockets')
    ctx.nt('real', repr(case))


COMPONENTS = {'login': login_case, 'real_login': real_login_case}


# --------------------------------------------------------------- strategies

def steps_strategy(version):
    enc = st.tuples(st.just('encrypt'), st.sampled_from([1024, 1024, 2048]),
                    st.binary(min_size=1, max_size=64),
                    st.sampled_from(['-', '', 'a' * 20, 'srv',
                                     '0123456789abcdef0123',
                                     # the id is hashed as UTF-8
                                     's\u00e9rveur-\u00fcn\u00ef',
                                     '\u670d\u52a1\u5668-01',
                                     'id\U0001f600',
                                     # only exactly '-' means offline mode
                                     '-5f3a9c0d12e4b7a1', '-1', '--', '- ']),
                    # the key in any DER form the client's parser accepts
                    st.sampled_from(['spki', 'spki', 'pkcs1',
                                     'spki_no_null']))
    comp = st.tuples(st.just('compress'),
                     st.sampled_from([0, 1, 64, 256, 2 ** 31 - 1, -1]))
    plug = st.tuples(st.just('plugin'),
                     st.sampled_from([0, 1, 127, 128, 2 ** 31 - 1]),
                     st.sampled_from(['a:b', 'velocity:player_info', 'é']),
                     st.one_of(st.binary(max_size=20),
                               st.binary(min_size=100, max_size=300)),
                     st.booleans())

    def build(t):
        e, c, ps, order = t
        base = ([e] if e is not None else []) + \
            ([c] if c is not None else [])
        if len(base) == 2 and order % 2:
            base.reverse()
        out = list(base)
        for i, p in enumerate(ps):
            out.insert((order * 7 + i * 3) % (len(out) + 1), p)
        return out
    return st.tuples(st.one_of(st.none(), enc), st.one_of(st.none(), comp),
                     st.lists(plug, max_size=4),
                     st.integers(0, 100)).map(build)


def terminal_strategy():
    ids = st.sampled_from(['1.16.5', '20w45a', '1.8.9', '9.9.9', 'foo',
                           '1.14 Pre-Release 1'])
    texts = st.one_of(st.sampled_from(['You are banned', '', 'é世',
                                       'Outdated', 'a"b']),
                      st.text(max_size=12))
    d = st.one_of(
        st.tuples(st.sampled_from(['json_text', 'json_notext', 'json_string',
                                   'plain']), texts),
        st.tuples(st.just('json_other'),
                  st.sampled_from(['[{"text":"a"},"b"]', 'null', '42',
                                   'true', '[]'])),
        st.tuples(st.sampled_from(['outdated_client', 'outdated_server',
                                   'outdated_client_raw',
                                   'outdated_server_raw']), ids))
    return st.one_of(st.just(('success',)), st.just(('success',)),
                     st.tuples(st.just('disconnect'), d))


def case_strategy(versions):
    def fv(v):
        return st.fixed_dictionaries({
            'version': st.just(v), 'steps': steps_strategy(v),
            'terminal': terminal_strategy(), 'token': st.booleans(),
            'join_fails': st.sampled_from([None, None, None, [503], [500],
                                           [403], [None], [502, 503]]),
            'tidy': st.sampled_from([None, None, 'plain', 'immediate']),
            'takeover': st.sampled_from([False, False, True, 'explicit_empty',
                                         'short', 'short_empty', 'echo',
                                         'echo']),
            'plan': st.one_of(st.just('whole'), st.just('one'),
                              st.lists(st.integers(1, 40), min_size=1,
                                       max_size=5)),
            's2c_compress': st.lists(st.booleans(), max_size=4),
            'prior': st.one_of(
                st.none(), st.none(),
                st.tuples(st.sampled_from([None, 0, 64, 256]),
                          st.sampled_from(['handler_direct', 'handler_disc',
                                           'user'])))})
    return st.sampled_from(versions).flatmap(fv)


def t_fixed(ctx, versions):
    tokn = b'\x01\x02\x03\x04'
    k = 0
    for v in versions:
        scripts = [
            [],
            [('encrypt', 1024, tokn, '-')],
            [('encrypt', 1024, tokn, 's\u00e9rv-\u670d\U0001f600'),
             ('compress', 256)],
            [('compress', 0), ('encrypt', 2048, tokn * 16, '', 'pkcs1')],
            [('plugin', 0, 'a:b', b'', True),
             ('encrypt', 1024, tokn, 'srv', 'spki_no_null'),
             ('plugin', 2 ** 31 - 1, 'a:b', b'x' * 300, False),
             ('compress', 64), ('plugin', 5, 'é', b'q', True)],
            [('compress', -1), ('plugin', 1, 'a:b', b'zz', False)],
            # compressed plugin requests whose compressed form is LONGER
            # than the packet (tiny or incompressible payloads), echoed
            [('compress', 0), ('plugin', 3, 'a:b', b'hello', True),
             ('plugin', 4, 'a:b', bytes(range(256)) + bytes(range(44)),
              True), ('plugin', 6, 'a:b', b'', True)],
        ]
        for sc in scripts:
            for term in (('success',),
                         ('disconnect', ('json_text', 'nope')),
                         ('disconnect', ('outdated_server', '1.8.9'))):
                for token, take in ((False, False), (True, True),
                                    (False, 'short_empty'),
                                    (False, 'echo')):
                    login_case(ctx, {
                        'version': v, 'steps': sc, 'terminal': term,
                        'token': token, 'takeover': take, 'plan': 'whole',
                        's2c_compress': [True, False]})
                if term[0] == 'disconnect':
                    for tidy in ('plain', 'immediate'):
                        login_case(ctx, {
                            'version': v, 'steps': sc, 'terminal': term,
                            'token': False, 'takeover': False,
                            'plan': 'whole', 's2c_compress': [True, False],
                            'tidy': tidy})
                k += 1
                login_case(ctx, {
                    'version': v, 'steps': sc, 'terminal': term,
                    'token': False, 'takeover': False, 'plan': 'whole',
                    's2c_compress': [True, False],
                    'prior': ([64, None, 0][k % 3],
                              ['handler_direct', 'user',
                               'handler_disc'][k % 3])})
    ctx.sample({'version': versions[0] if versions else None,
                'steps': 'fixed script table'}, 'fixed')
    ctx.exhaustive_done('7 fixed scripts x 3 terminals x 4 client configs '
                        'at each era version')


def t_random(ctx, versions, n):
    def body(c, case):
        login_case(c, case)
        if c.evaluations % 80 == 1:
            c.sample(case, 'random')
    hyp(ctx, 'random', case_strategy(versions), body, n)


def t_real(ctx, n):
    def body(c, case):
        real_login_case(c, case)
    hyp(ctx, 'real', case_strategy(ERA_VERSIONS), body, n)
    ctx.sample({'note': 'same scripts and oracles over 127.0.0.1 TCP'},
               'real')


def tasks(tier):
    q = tier == 'quick'
    import minecraft
    sup = list(minecraft.SUPPORTED_PROTOCOL_VERSIONS)
    extra = sup[::max(1, len(sup) // (12 if q else 80))]
    tl = []
    for i in range(4):
        tl.append(('fixed_%d' % i, t_fixed,
                   dict(versions=ERA_VERSIONS[i::4])))
    for i in range(1 if q else 4):
        tl.append(('real_%d' % i, t_real, dict(n=12 if q else 150)))
    for i in range(8 if q else 16):
        tl.append(('random_%d' % i, t_random,
                   dict(versions=ERA_VERSIONS + extra,
                        n=300 if q else 2500)))
    return tl
