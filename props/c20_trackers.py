"""C20 - state trackers replay packet histories; helper value types obey
their laws.  Histories against dict/bytearray reference models, algebraic
laws for records, vectors, aliases and flag names."""
import itertools
import math
from fractions import Fraction

from hypothesis import strategies as st

from vlib import wire
from vlib.runner import hyp

PROPERTY = 'C20'
LEVEL = 'exploration'
RULE = ('Record fields also hold lists and dicts, and twins that are '
        'equal but print differently (1 / 1.0 / True, reordered dicts): '
        'equal records hash equally or are both unhashable. '
'Histories: player-list packets over a pool of 4 UUIDs (all five '
        'actions, 1-3 actions per packet, up to 200 packets) applied to a '
        'real PlayerList vs a dict model compared after every packet; map '
        'packets over 3 map ids (icons, optional pixel patch of any size '
        'that fits in 128x128) applied to a MapSet vs a bytearray model '
        '(pixel i at offset + (i mod width, i div width)) compared pixel by '
        'pixel after every packet; position packets (finite doubles, '
        'binary32 yaw/pitch incl. tiny and negative values, all 32 flag '
        'combinations) applied to a PositionAndLook vs exact rational '
        'arithmetic (relative adds, absolute replaces, angles in [0,360) '
        'and congruent mod 360). Laws: every MutableRecord subclass of the '
        'library plus generated ones with inherited slots (==, hash, !=, '
        'repr, iter; the order in which classes of a hierarchy are first '
        'used is part of the case), Vector/Position/generated subclasses (component-wise '
        '+ - neg * / //, result type of the vector operand), every alias '
        'helper use in the library plus generated ones (set/get/delete '
        'through alias and underlying attributes), every BitFieldEnum of '
        'the library plus generated enums for every value 0..255 (printed '
        'name parses back; None only if not a union of members). '
        'Non-trivial: histories with an overwrite/removal of an existing '
        'key or overlapping patches or mixed relative/absolute flags; flag '
        'values with >= 2 bits; distinct by history/value fingerprint.')
RULE += (' ' +
         'Added in later rounds: unhashable and bytes/bytearray field '
         'values, twins that print differently; map patches shorter than '
         'width x height; generated derived flag enums that add and redefine '
         'flags (printed names resolved by attribute lookup). Round 11: '
         'every enum asked for the name of unhashable values. Round 12: '
         'pairs of partially populated records (a comparison may be refused; '
         "an answer 'equal' must be right and hashes then agree). Round 13: "
         'a generated alias with positional and keyword fields at once. '
         'Round 15: aliases assigned from iter(), generators, map(), '
         'reversed(). Round 16: ==, !=, hash and set membership of the '
         'vector types agree with those of plain tuples. ')
LEVEL_TEXT = ('Model-based testing of the tracker objects over generated '
              'packet histories, and algebraic-law testing of the helper '
              'value types, exhaustive over flag values 0..255 for every '
              'flag enum.')
LEVEL_NOTE = ('Trusted: the dict/bytearray/Fraction models in the harness. '
              'Records are fully populated for the equality laws; vector '
              'operands are vectors and int/float/Fraction scalars.')
TECHNIQUE = ('model-based property testing of packet histories + '
             'algebraic-law property tests; exhaustive over flag values')
ASSUMPTIONS = ['map patches lie inside the 128x128 map',
               'coordinates stay finite (|x| <= 1e15 per step)']

UUIDS = ['00000000-0000-0000-0000-00000000000%d' % i for i in range(4)]


def _play():
    from minecraft.networking.packets.clientbound import play
    return play


# ---------------------------------------------------------------- player list

def playerlist_case(ctx, case):
    """case {packets: [(kind, [action dict])]}"""
    P = _play().PlayerListItemPacket
    kinds = [P.AddPlayerAction, P.UpdateGameModeAction,
             P.UpdateLatencyAction, P.UpdateDisplayNameAction,
             P.RemovePlayerAction]
    pl = P.PlayerList()
    model = {}
    ctx.ev()
    interesting = False
    for step, (kind, acts) in enumerate(case['packets']):
        pkt = P()
        pkt.action_type = kinds[kind]
        pkt.actions = []
        for a in acts:
            u = a['uuid']
            if kind == 0:
                props = [P.PlayerProperty(name=n, value=v, signature=s)
                         for n, v, s in a['properties']]
                pkt.actions.append(kinds[0](
                    uuid=u, name=a['name'], properties=props,
                    gamemode=a['gamemode'], ping=a['ping'],
                    display_name=a['display_name']))
                if u in model:
                    interesting = True
                model[u] = {'name': a['name'],
                            'properties': [tuple(p) for p in a['properties']],
                            'gamemode': a['gamemode'], 'ping': a['ping'],
                            'display_name': a['display_name']}
            elif kind == 1:
                pkt.actions.append(kinds[1](uuid=u, gamemode=a['gamemode']))
                if u in model:
                    model[u]['gamemode'] = a['gamemode']
            elif kind == 2:
                pkt.actions.append(kinds[2](uuid=u, ping=a['ping']))
                if u in model:
                    model[u]['ping'] = a['ping']
            elif kind == 3:
                pkt.actions.append(kinds[3](uuid=u,
                                            display_name=a['display_name']))
                if u in model:
                    model[u]['display_name'] = a['display_name']
            else:
                pkt.actions.append(kinds[4](uuid=u))
                if u in model:
                    interesting = True
                model.pop(u, None)
        try:
            pkt.apply(pl)
        except Exception as e:
            ctx.fail('playerlist', 'T1-apply-raises',
                     {'packets': case['packets'][:step + 1]}, exc=e)
            return
        got = {}
        for u, it in pl.players_by_uuid.items():
            got[u] = {'name': it.name,
                      'properties': [(p.name, p.value, p.signature)
                                     for p in it.properties],
                      'gamemode': it.gamemode, 'ping': it.ping,
                      'display_name': it.display_name, 'uuid_field': it.uuid}
        want = {u: dict(m, uuid_field=u) for u, m in model.items()}
        if got != want:
            ctx.fail('playerlist', 'T1-state', {'packets':
                                                case['packets'][:step + 1]},
                     got, want)
            return
    if interesting:
        ctx.nt('pl', repr(case['packets']))


def playerlist_strategy(maxlen):
    uu = st.sampled_from(UUIDS)
    txt = st.sampled_from(['a', 'b', 'Steve', ''])
    vi = st.integers(0, 5)
    prop = st.tuples(txt, txt, st.one_of(st.none(), txt))

    def acts(kind):
        d = {'uuid': uu}
        if kind == 0:
            d.update(name=txt, properties=st.lists(prop, max_size=2),
                     gamemode=vi, ping=vi,
                     display_name=st.one_of(st.none(), txt))
        elif kind == 1:
            d.update(gamemode=vi)
        elif kind == 2:
            d.update(ping=vi)
        elif kind == 3:
            d.update(display_name=st.one_of(st.none(), txt))
        return st.tuples(st.just(kind),
                         st.lists(st.fixed_dictionaries(d), min_size=1,
                                  max_size=3))
    return st.fixed_dictionaries({'packets': st.lists(
        st.sampled_from([0, 0, 1, 2, 3, 4]).flatmap(acts), min_size=1,
        max_size=maxlen)})


# ------------------------------------------------------------------------ maps

def maps_case(ctx, case):
    """case {packets: [{id, scale, tracking, locked, icons, patch}]}
    patch = None | (w, h, ox, oz, seed)"""
    M = _play().MapPacket
    ms = M.MapSet()
    model = {}
    ctx.ev()
    overlaps = 0
    for step, p in enumerate(case['packets']):
        pkt = M()
        pkt.map_id, pkt.scale = p['id'], p['scale']
        pkt.is_tracking_position, pkt.is_locked = p['tracking'], p['locked']
        pkt.icons = [M.MapIcon(type=t, direction=d, location=(x, z),
                               display_name=n) for t, d, x, z, n in p['icons']]
        m = model.setdefault(p['id'], {'pixels': bytearray(128 * 128),
                                       'touched': set()})
        m.update(scale=p['scale'], tracking=p['tracking'],
                 locked=p['locked'],
                 icons=[(t, d, (x, z), n) for t, d, x, z, n in p['icons']])
        if p['patch'] is None:
            pkt.width, pkt.height, pkt.offset, pkt.pixels = 0, 0, None, None
        else:
            w, h, ox, oz, seed = p['patch'][:5]
            # the pixel array carries its own length: the last row may be
            # partly filled ('short' pixels missing); pixel i still lands at
            # offset + (i mod width, i div width)
            short = p['patch'][5] % w if len(p['patch']) > 5 else 0
            npx = w * h - short
            px = bytes((seed + i * 7) % 256 for i in range(npx))
            pkt.width, pkt.height, pkt.offset = w, h, (ox, oz)
            pkt.pixels = px
            for i in range(npx):
                x, z = ox + i % w, oz + i // w
                if (x, z) in m['touched']:
                    overlaps += 1
                m['touched'].add((x, z))
                m['pixels'][x + 128 * z] = px[i]
        try:
            pkt.apply_to_map_set(ms)
        except Exception as e:
            ctx.fail('maps', 'T2-apply-raises',
                     {'packets': case['packets'][:step + 1]}, exc=e)
            return
        if set(ms.maps_by_id) != set(model):
            ctx.fail('maps', 'T2-map-ids',
                     {'packets': case['packets'][:step + 1]},
                     sorted(ms.maps_by_id), sorted(model))
            return
        for mid, mm in model.items():
            g = ms.maps_by_id[mid]
            gi = [(i.type, i.direction, tuple(i.location), i.display_name)
                  for i in g.icons]
            if (g.id, g.scale, g.is_tracking_position, g.is_locked, gi,
                g.width, g.height) != (mid, mm['scale'], mm['tracking'],
                                       mm['locked'], mm['icons'], 128, 128):
                ctx.fail('maps', 'T2-map-fields',
                         {'packets': case['packets'][:step + 1]},
                         (g.id, g.scale, g.is_tracking_position, g.is_locked,
                          gi), (mid, mm['scale'], mm['tracking'],
                                mm['locked'], mm['icons']))
                return
            if len(g.pixels) != 128 * 128:
                ctx.fail('maps', 'T2-pixels',
                         {'packets': case['packets'][:step + 1]},
                         '%d pixels in the map' % len(g.pixels), 128 * 128)
                return
            if bytes(g.pixels) != bytes(mm['pixels']):
                k = next(i for i in range(128 * 128)
                         if g.pixels[i] != mm['pixels'][i])
                ctx.fail('maps', 'T2-pixels',
                         {'packets': case['packets'][:step + 1]},
                         'pixel (%d,%d)=%d' % (k % 128, k // 128,
                                               g.pixels[k]),
                         mm['pixels'][k])
                return
    if overlaps and len(case['packets']) >= 2:
        ctx.nt('maps', repr(case['packets']))


def maps_strategy(maxlen):
    icon = st.tuples(st.integers(0, 20), st.integers(0, 15),
                     st.integers(-128, 127), st.integers(-128, 127),
                     st.one_of(st.none(), st.just('n')))

    def patch(t):
        w, h = t
        return st.tuples(st.just(w), st.just(h), st.integers(0, 128 - w),
                         st.integers(0, 128 - h), st.integers(0, 255),
                         st.sampled_from([0, 0, 0, 1, 2, 127]))
    dims = st.one_of(st.tuples(st.integers(1, 128), st.integers(1, 128)),
                     st.tuples(st.integers(1, 6), st.integers(1, 6)),
                     st.sampled_from([(128, 128), (1, 128), (128, 1),
                                      (1, 1), (127, 3)]))
    return st.fixed_dictionaries({'packets': st.lists(
        st.fixed_dictionaries({
            'id': st.sampled_from([0, 1, 7]),
            'scale': st.integers(0, 4), 'tracking': st.booleans(),
            'locked': st.booleans(), 'icons': st.lists(icon, max_size=2),
            'patch': st.one_of(st.none(), dims.flatmap(patch))}),
        min_size=1, max_size=maxlen)})


# -------------------------------------------------------------------- position

def position_case(ctx, case):
    """case {start: (x,y,z,yaw,pitch), packets: [(x,y,z,yaw,pitch,flags)]}"""
    from minecraft.networking.types import PositionAndLook
    P = _play().PlayerPositionAndLookPacket
    s = case['start']
    t = PositionAndLook(x=s[0], y=s[1], z=s[2], yaw=s[3], pitch=s[4])
    ctx.ev()
    mixed = set()
    for step, p in enumerate(case['packets']):
        x, y, z, yaw, pitch, flags = p
        pkt = P(x=x, y=y, z=z, yaw=yaw, pitch=pitch, flags=flags)
        prev = (t.x, t.y, t.z, t.yaw, t.pitch)
        try:
            pkt.apply(t)
        except Exception as e:
            ctx.fail('position', 'T3-apply-raises',
                     {'start': s, 'packets': case['packets'][:step + 1]},
                     exc=e)
            return
        sub = {'start': list(prev), 'packets': [list(p)]}
        for i, (name, val) in enumerate((('x', x), ('y', y), ('z', z))):
            rel = bool(flags & (1 << i))
            mixed.add(rel)
            want = float(Fraction(prev[i]) + Fraction(val)) if rel else val
            got = getattr(t, name)
            if got != want:
                ctx.fail('position', 'T3-coordinate', sub, (name, got),
                         (name, want))
                return
        for i, (name, val) in enumerate((('yaw', yaw), ('pitch', pitch))):
            rel = bool(flags & (8 << i))
            mixed.add(rel)
            raw = Fraction(prev[3 + i]) + Fraction(val) if rel \
                else Fraction(val)
            got = getattr(t, name)
            if not (isinstance(got, float) and 0 <= got < 360):
                ctx.fail('position', 'T3-angle-range', sub, (name, got),
                         '0 <= angle < 360')
                return
            d = (Fraction(got) - raw) % 360
            d = min(d, 360 - d)
            tol = Fraction(1, 10 ** 9) * max(1, abs(raw))
            if d > tol:
                ctx.fail('position', 'T3-angle-congruent', sub,
                         (name, got), float(raw % 360))
                return
    if len(mixed) == 2 and len(case['packets']) >= 2:
        ctx.nt('pos', repr(case))


def position_strategy(maxlen):
    f32 = st.integers(0, 2 ** 32 - 1).map(
        lambda w: wire.float_bits_to_value(w, 32)).filter(
            lambda v: v == v and abs(v) < 1e30)
    ang = st.one_of(f32, st.sampled_from(
        [0.0, -0.0, 360.0, -360.0, 359.99997, -1e-20, 1e-20, -1e-45,
         1.401298464324817e-45, -1.401298464324817e-45, 720.0, 180.0,
         -180.0, 1e9, -1e9]),
        st.floats(-1000, 1000, width=32))
    dbl = st.one_of(st.floats(-1e15, 1e15), st.integers(-3 * 10 ** 7,
                                                        3 * 10 ** 7).map(float))
    pk = st.tuples(dbl, dbl, dbl, ang, ang, st.integers(0, 31))
    start = st.tuples(dbl, dbl, dbl, st.floats(0, 359.9), st.floats(0, 359.9))
    return st.fixed_dictionaries({
        'start': start, 'packets': st.lists(pk, min_size=1, max_size=maxlen)})


# --------------------------------------------------------------------- records

def library_record_classes():
    from minecraft.networking.types import MutableRecord
    import minecraft.networking.packets.clientbound.play  # noqa: F401
    seen, todo = [], [MutableRecord]
    while todo:
        c = todo.pop()
        for s in c.__subclasses__():
            if s not in seen and s.__module__.startswith('minecraft'):
                seen.append(s)
                todo.append(s)
    return sorted(seen, key=lambda c: (c.__module__, c.__qualname__))


def slots_of(cls):
    out = []
    for sup in reversed(cls.__mro__):
        sl = sup.__dict__.get('__slots__', ())
        sl = (sl,) if isinstance(sl, str) else sl
        out.extend(sl)
    return out


def make_record(cls, values):
    r = object.__new__(cls)
    for name, v in zip(slots_of(cls), values):
        if v is not _UNSET:
            setattr(r, name, v)
    return r


_UNSET = object()
_gen_cache = {}


def build_generated_record_classes():
    from minecraft.networking.types import MutableRecord
    G1 = type('G1', (MutableRecord,), {'__slots__': ('a', 'b')})
    G2 = type('G2', (G1,), {'__slots__': ('c',)})
    G3 = type('G3', (G2,), {'__slots__': 'solo'})
    G0 = type('G0', (MutableRecord,), {'__slots__': ()})
    G4 = type('G4', (G1,), {'__slots__': ('c',)})
    return [G0, G1, G2, G3, G4]


def generated_record_classes():
    if not _gen_cache:
        _gen_cache['c'] = build_generated_record_classes()
    return _gen_cache['c']


# Which record classes this process has already used, in order of first use.
# A record class may carry per-class state (a slot cache, say) whose content
# depends on which related class was used first; to keep every case a pure
# function of its own content the order of first use so far is stored in
# the case ('warm') and re-established first when the case is replayed in a
# fresh process.
_touched = []


def _touch(cls):
    try:
        a = make_record(cls, [0] * len(slots_of(cls)))
        a == a, hash(a), list(a), repr(a)
    except Exception:
        pass


def records_case(ctx, case):
    """case {cls: index into all classes, a: [values], b: [values]}"""
    if case.get('fresh'):
        # a hierarchy built for this case alone: first-use order is entirely
        # inside the case
        classes, touched = build_generated_record_classes(), []
    else:
        classes = library_record_classes() + generated_record_classes()
        touched = _touched
    if case.get('warm') is None:
        case['warm'] = list(touched)
    for i in case['warm']:
        i %= len(classes)
        if i not in touched:
            touched.append(i)
            _touch(classes[i])
    ia = case['cls_a'] % len(classes)
    ib = case['cls_b'] % len(classes) if case.get('cls_b') is not None \
        else ia
    ca, cb_ = classes[ia], classes[ib]
    import inspect
    if inspect.isabstract(ca) or inspect.isabstract(cb_):
        return
    ctx.ev()
    for i in (ia, ib):
        if i not in touched:
            touched.append(i)
    if case.get('fresh'):
        ctx.label('records_fresh_hierarchy')
    sa, sb = slots_of(ca), slots_of(cb_)
    va = (list(case['a']) + [0] * 20)[:len(sa)]
    vb = (list(case['b']) + [0] * 20)[:len(sb)]
    try:
        a, b = make_record(ca, va), make_record(cb_, vb)
        eq = (a == b)
        want = ca is cb_ and va == vb
        if eq is not want:
            ctx.fail('records', 'R-eq', case, eq, want)
        if (a != b) is not (not eq):
            ctx.fail('records', 'R-ne', case)
        def h(r):
            # a record holding an unhashable value (list, dict) may refuse
            # to be hashed; if it does hash, equal records hash equally
            try:
                return hash(r)
            except TypeError:
                return 'unhashable'
        if eq and h(a) != h(b) and 'unhashable' not in (h(a), h(b)):
            # (a record that cannot be hashed at all is outside the law)
            ctx.fail('records', 'R-hash', case, (h(a), h(b)))
        if make_record(ca, va) != a or h(make_record(ca, va)) != h(a):
            ctx.fail('records', 'R-copy-equal', case)
        if list(a) != va:
            ctx.fail('records', 'R-iter', case, list(a), va)
        r = repr(a)
        want_r = '%s(%s)' % (ca.__name__, ', '.join(
            '%s=%r' % (n, v) for n, v in zip(sa, va)))
        if r != want_r:
            ctx.fail('records', 'R-repr', case, r, want_r)
        # partially populated records: repr and hash must not raise
        part = make_record(ca, [v if i % 2 else _UNSET
                                for i, v in enumerate(va)])
        rp = repr(part)
        h(part)
        want_p = '%s(%s)' % (ca.__name__, ', '.join(
            '%s=%r' % (n, v) for i, (n, v) in enumerate(zip(sa, va))
            if i % 2))
        if rp != want_p:
            ctx.fail('records', 'R-repr-partial', case, rp, want_p)
        # two partially populated records: comparing them may be refused
        # (an unset field has no value), but a comparison that ANSWERS
        # 'equal' must be right - same class, the same fields set, equal
        # values - and then the hashes agree
        ua = set(case.get('unset_a') or ())
        ub = set(case.get('unset_b') or ())
        if ua or ub:
            pa = make_record(ca, [_UNSET if i in ua else v
                                  for i, v in enumerate(va)])
            pb = make_record(cb_, [_UNSET if i in ub else v
                                   for i, v in enumerate(vb)])
            try:
                peq = (pa == pb)
            except AttributeError:
                peq = None
                ctx.label('records_partial_comparison_refused')
            if peq is not None:
                ctx.label('records_partial_comparison_answered')
                set_a = [i for i in range(len(sa)) if i not in ua]
                set_b = [i for i in range(len(sb)) if i not in ub]
                really = ca is cb_ and set_a == set_b and \
                    [va[i] for i in set_a] == [vb[i] for i in set_b]
                if peq and not really:
                    ctx.fail('records', 'R-eq-partial', case, True, False)
                elif peq and h(pa) != h(pb) and \
                        'unhashable' not in (h(pa), h(pb)):
                    ctx.fail('records', 'R-hash', case, (h(pa), h(pb)))
    except Exception as e:
        ctx.fail('records', 'R-raises', case, exc=e)
        return
    if va != vb and len(sa) >= 2:
        ctx.nt('rec', ca.__qualname__, cb_.__qualname__, repr(va), repr(vb))


# --------------------------------------------------------------------- vectors

_vec_cache = {}


def vector_classes():
    from minecraft.networking.types import Vector, Position
    if not _vec_cache:
        V2 = type('V2', (Vector,), {'__slots__': ()})
        P2 = type('P2', (Position,), {'__slots__': ()})
        _vec_cache['c'] = [Vector, Position, V2, P2]
    return _vec_cache['c']


def vectors_case(ctx, case):
    """case {ca, cb, a:(x,y,z), b:(x,y,z), k: scalar}"""
    cl = vector_classes()
    ca, cb_ = cl[case['ca'] % 4], cl[case['cb'] % 4]
    a, b, k = tuple(case['a']), tuple(case['b']), case['k']
    if isinstance(k, (list, tuple)):
        k = Fraction(k[0], k[1])
    A, B = ca(*a), cb_(*b)
    ctx.ev()

    def chk(name, got, want, typ):
        if type(got) is not typ or tuple(got) != want or \
                any(type(g) is not type(w) for g, w in zip(got, want)):
            ctx.fail('vectors', 'V-' + name, case,
                     (type(got).__name__, tuple(got)),
                     (typ.__name__, want))
    try:
        chk('add', A + B, tuple(x + y for x, y in zip(a, b)), ca)
        chk('sub', A - B, tuple(x - y for x, y in zip(a, b)), ca)
        chk('neg', -A, tuple(-x for x in a), ca)
        chk('mul', A * k, tuple(x * k for x in a), ca)
        chk('rmul', k * A, tuple(k * x for x in a), ca)
        if k != 0:
            chk('truediv', A / k, tuple(x / k for x in a), ca)
            chk('floordiv', A // k, tuple(x // k for x in a), ca)
        if not isinstance(repr(A), str) or type(A).__name__ not in repr(A):
            ctx.fail('vectors', 'V-repr', case, repr(A))
        # the vector types are tuples of their components: they compare,
        # hash and collect like those tuples, whichever vector class each
        # operand has
        same = a == b
        if (A == B) is not same or (A != B) is not (not same) or \
                (ca(*b) == A) is not same:
            ctx.fail('vectors', 'V-eq', case, (A == B, A != B), same)
        if (A == a) is not True or (a == A) is not True or (A != a):
            ctx.fail('vectors', 'V-eq-tuple', case)
        if hash(A) != hash(a) or (same and hash(A) != hash(B)):
            ctx.fail('vectors', 'V-hash', case, (hash(A), hash(B)),
                     hash(a))
        if len({A, B, ca(*b)}) != len({a, b}) or A not in {a: 1}:
            ctx.fail('vectors', 'V-set', case)
    except (OverflowError, ZeroDivisionError):
        return
    except Exception as e:
        ctx.fail('vectors', 'V-raises', case, exc=e)
        return
    if ca is not cb_:
        ctx.nt('vec', case['ca'] % 4, case['cb'] % 4, a, b, repr(k))


# --------------------------------------------------------------------- aliases

def alias_specs():
    """(factory, alias, underlying names, to_alias(values), values)"""
    from minecraft.networking.types import (Vector, Direction,
                                            PositionAndLook)
    play = _play()
    sp = []

    def single(cls, alias, under):
        sp.append((cls, alias, [under], None))

    def multi(cls, alias, under, container):
        sp.append((cls, alias, list(under), container))
    single(play.BlockChangePacket, 'blockStateId', 'block_state_id')
    single(play.MultiBlockChangePacket.Record, 'blockStateId',
           'block_state_id')
    multi(play.MultiBlockChangePacket.Record, 'position', 'xyz', Vector)
    multi(play.MultiBlockChangePacket, 'chunk_pos', ['chunk_x', 'chunk_z'],
          tuple)
    single(play.SpawnObjectPacket, 'objectUUID', 'object_uuid')
    multi(play.SpawnObjectPacket, 'position', 'xyz', Vector)
    multi(play.SpawnObjectPacket, 'look', ['yaw', 'pitch'], Direction)
    multi(play.SpawnObjectPacket, 'velocity',
          ['velocity_x', 'velocity_y', 'velocity_z'], Vector)
    multi(play.SpawnObjectPacket, 'position_and_look',
          ['x', 'y', 'z', 'yaw', 'pitch'], PositionAndLook)
    multi(play.PlayerPositionAndLookPacket, 'position', 'xyz', Vector)
    multi(play.PlayerPositionAndLookPacket, 'look', ['yaw', 'pitch'],
          Direction)
    multi(play.PlayerPositionAndLookPacket, 'position_and_look',
          ['x', 'y', 'z', 'yaw', 'pitch'], PositionAndLook)
    multi(play.SpawnPlayerPacket, 'position', 'xyz', Vector)
    multi(play.SpawnPlayerPacket, 'look', ['yaw', 'pitch'], Direction)
    multi(play.SpawnPlayerPacket, 'position_and_look',
          ['x', 'y', 'z', 'yaw', 'pitch'], PositionAndLook)
    multi(play.ExplosionPacket, 'position', 'xyz', Vector)
    multi(play.ExplosionPacket, 'player_motion',
          ['player_motion_x', 'player_motion_y', 'player_motion_z'], Vector)
    multi(play.FacePlayerPacket, 'target', 'xyz', Vector)
    multi(PositionAndLook, 'position', 'xyz', Vector)
    multi(PositionAndLook, 'look', ['yaw', 'pitch'], Direction)
    from minecraft.networking.packets.serverbound import play as sbp
    multi(sbp.PositionAndLookPacket, 'position', ['x', 'feet_y', 'z'],
          Vector)
    multi(sbp.PositionAndLookPacket, 'look', ['yaw', 'pitch'], Direction)
    multi(sbp.PositionAndLookPacket, 'position_and_look',
          ['x', 'feet_y', 'z', 'yaw', 'pitch'], PositionAndLook)
    return sp


def aliases_case(ctx, case):
    """case {spec: index, values: [numbers]}"""
    from minecraft.networking.types import PositionAndLook
    specs = alias_specs()
    cls, alias, under, container = specs[case['spec'] % len(specs)]
    vals = (list(case['values']) + [0] * 5)[:len(under)]
    ctx.ev()
    try:
        o = cls()
        # through the underlying attributes -> read alias
        for n, v in zip(under, vals):
            setattr(o, n, v)
        got = getattr(o, alias)
        if container is None:
            ok = got == vals[0]
        elif container is PositionAndLook:
            ok = isinstance(got, PositionAndLook) and \
                [got.x, got.y, got.z, got.yaw, got.pitch] == vals
        else:
            ok = tuple(got) == tuple(vals) and (
                container is tuple or isinstance(got, container))
        if not ok:
            ctx.fail('aliases', 'A-get', case, repr(got), vals)
        # through the alias -> read underlying
        o2 = cls()
        if container is None:
            setattr(o2, alias, vals[0])
        elif container is PositionAndLook:
            setattr(o2, alias, PositionAndLook(
                x=vals[0], y=vals[1], z=vals[2], yaw=vals[3], pitch=vals[4]))
        elif container is tuple:
            setattr(o2, alias, tuple(vals))
        else:
            setattr(o2, alias, container(*vals))
        back = [getattr(o2, n) for n in under]
        if back != vals:
            ctx.fail('aliases', 'A-set', case, back, vals)
        # plain tuples are accepted by positional containers
        if container not in (None, PositionAndLook):
            o3 = cls()
            setattr(o3, alias, tuple(vals))
            if [getattr(o3, n) for n in under] != vals:
                ctx.fail('aliases', 'A-set-tuple', case)
            # ... and so is any iterable of the values: a list, a
            # generator, map(), iter() (one pass is all it takes)
            for form, mk in (('list', list), ('iter', iter),
                             ('generator', lambda t: (x for x in t)),
                             ('map', lambda t: map(lambda x: x, t)),
                             ('reversed', lambda t: reversed(t[::-1]))):
                o4 = cls()
                for n in under:
                    setattr(o4, n, -7)          # the old values
                setattr(o4, alias, mk(tuple(vals)))
                if [getattr(o4, n) for n in under] != vals:
                    ctx.fail('aliases', 'A-set-iterable',
                             dict(case, form=form),
                             [getattr(o4, n) for n in under], vals)
        # delete removes
        delattr(o2, alias)
        left = [n for n in under if n in getattr(o2, '__dict__', {}) or
                (not hasattr(o2, '__dict__') and _has(o2, n))]
        if left:
            ctx.fail('aliases', 'A-delete', case, left, [])
    except Exception as e:
        ctx.fail('aliases', 'A-raises', case, exc=e)
        return
    ctx.nt('alias', case['spec'] % len(specs), repr(vals))


def _has(o, n):
    try:
        getattr(o, n)
        return True
    except AttributeError:
        return False


def generated_alias_case(ctx, case):
    """aliases built directly with the helper functions on a fresh class"""
    from minecraft import utility as U
    from minecraft.networking.types import Vector
    ctx.ev()
    k = case['k']
    vals = list(case['values'])[:3] + [0] * (3 - len(case['values'][:3]))

    class Inner(object):
        pass

    class Pose(object):
        # a container with positional AND keyword fields (the documented
        # general form of multi_attribute_alias)
        def __init__(self, a, b, yaw=None, pitch=None):
            self.a, self.b, self.yaw, self.pitch = a, b, yaw, pitch

        def __iter__(self):
            return iter((self.a, self.b))

        def __eq__(self, o):
            return (self.a, self.b, self.yaw, self.pitch) == \
                (o.a, o.b, o.yaw, o.pitch)

    class Host(object):
        mixed = U.multi_attribute_alias(Pose, 'p', 'q', yaw='r', pitch='s')
        plain = U.attribute_alias('target')
        scaled = U.attribute_transform('target', lambda v: v * k,
                                       lambda v: v / k)
        vec = U.multi_attribute_alias(Vector, 'p', 'q', 'r')
        tup = U.multi_attribute_alias(tuple, 'p', 'q')
        kw = U.multi_attribute_alias(Vector, x='p', y='q', z='r')
        part = U.partial_attribute_alias('inner', 'field')
    try:
        h = Host()
        h.plain = vals[0]
        ok = h.target == vals[0] and h.plain == vals[0]
        h.target = vals[1]
        ok = ok and h.plain == vals[1]
        h.scaled = vals[2] * k
        ok = ok and h.target == (vals[2] * k) / k and \
            h.scaled == ((vals[2] * k) / k) * k
        h.vec = Vector(*vals)
        ok = ok and (h.p, h.q, h.r) == tuple(vals) and \
            h.vec == Vector(*vals) and h.tup == (vals[0], vals[1])
        h.tup = (vals[2], vals[0])
        ok = ok and (h.p, h.q) == (vals[2], vals[0])
        h.tup = iter((vals[0], vals[1]))
        ok = ok and (h.p, h.q) == (vals[0], vals[1])
        h.vec = (x for x in (vals[2], vals[0], vals[1]))
        ok = ok and (h.p, h.q, h.r) == (vals[2], vals[0], vals[1])
        h.tup = (vals[2], vals[0])
        h.kw = Vector(vals[1], vals[2], vals[0])
        ok = ok and (h.p, h.q, h.r) == (vals[1], vals[2], vals[0]) and \
            h.kw == Vector(vals[1], vals[2], vals[0])
        h.mixed = Pose(vals[0], vals[1], yaw=vals[2], pitch=k)
        ok = ok and (h.p, h.q, h.r, h.s) == (vals[0], vals[1], vals[2], k) \
            and h.mixed == Pose(vals[0], vals[1], yaw=vals[2], pitch=k)
        h.mixed = Pose(vals[2], k, yaw=vals[0], pitch=vals[1])
        ok = ok and (h.p, h.q, h.r, h.s) == (vals[2], k, vals[0], vals[1])
        h.s = 7
        ok = ok and h.mixed.pitch == 7
        h.inner = Inner()
        h.part = vals[0]
        ok = ok and h.inner.field == vals[0] and h.part == vals[0]
        del h.part
        ok = ok and not hasattr(h.inner, 'field')
        del h.vec
        ok = ok and not any(hasattr(h, n) for n in 'pqr')
        del h.plain
        ok = ok and not hasattr(h, 'target')
        if not ok:
            ctx.fail('gen_alias', 'A-generated', case)
    except Exception as e:
        ctx.fail('gen_alias', 'A-generated-raises', case, exc=e)
        return
    ctx.nt('galias', repr(case))


# ----------------------------------------------------------------------- flags

def library_flag_enums():
    from minecraft.networking.types import BitFieldEnum
    import minecraft.networking.packets.clientbound.play  # noqa
    import minecraft.networking.packets.serverbound.play  # noqa
    seen, todo = [], [BitFieldEnum]
    while todo:
        c = todo.pop()
        for s in c.__subclasses__():
            if s not in seen:
                seen.append(s)
                todo.append(s)
    return sorted(seen, key=lambda c: c.__qualname__)


def members_of(cls):
    return {n: v for n, v in cls.__dict__.items()
            if n.isupper() and isinstance(v, int) and
            not isinstance(v, bool)}


def check_flag_enum(ctx, comp, cls, case):
    mem = members_of(cls)
    unions = {0} if False else set()
    vals = sorted(set(mem.values()))
    reach = {0: ()} if 0 in vals else {}
    # all unions of non-empty subsets (<= 2^8 subsets of distinct values)
    nz = [v for v in vals]
    unions = set()
    for r in range(1, len(nz) + 1):
        for sub in itertools.combinations(nz, r):
            u = 0
            for v in sub:
                u |= v
            unions.add(u)
    for v in range(256):
        ctx.ev()
        try:
            name = cls.name_from_value(v)
        except Exception as e:
            ctx.fail(comp, 'F-raises', dict(case, value=v), exc=e)
            return
        if name is None:
            if v in unions:
                ctx.fail(comp, 'F-none-but-representable',
                         dict(case, value=v), None, 'a name')
            continue
        if not isinstance(name, str):
            ctx.fail(comp, 'F-type', dict(case, value=v), repr(name))
            continue
        back = 0
        ok = True
        if name != '0':
            for part in name.split('|'):
                # a printed name means what attribute lookup on the class
                # says it means (so a flag redefined in a derived class has
                # the derived value, whichever classes the library scans)
                pv = getattr(cls, part, None) if part.isupper() else None
                if not isinstance(pv, int) or isinstance(pv, bool):
                    ok = False
                    break
                if pv | v != v:
                    ok = False
                back |= pv
        if not ok or back != v:
            ctx.fail(comp, 'F-parse-back', dict(case, value=v), name,
                     'parses to %d' % v)
        if bin(v).count('1') >= 2:
            ctx.nt(comp, cls.__qualname__, tuple(sorted(mem.items())), v)
    for bad in ('1', 1.0, None, (1,)):
        try:
            if cls.name_from_value(bad) is not None:
                ctx.fail(comp, 'F-non-int', dict(case, value=repr(bad)))
        except Exception as e:
            ctx.fail(comp, 'F-non-int-raises', dict(case, value=repr(bad)),
                     exc=e)


def library_flags_case(ctx, case):
    for cls in library_flag_enums():
        check_flag_enum(ctx, 'library_flags', cls,
                        {'enum': cls.__qualname__})


def generated_flags_case(ctx, case):
    """case {members: [(name, value)]}"""
    from minecraft.networking.types import BitFieldEnum
    d = {n: v for n, v in case['members']}
    base = BitFieldEnum
    if case.get('base'):
        # derived flag enum: may redefine flags of its base (a bit that
        # moved in a newer revision); inherited flags may or may not be used
        base = type('GenBase', (BitFieldEnum,), dict(case['base']))
        ctx.label('flags_derived_enum')
        if any(n in d and d[n] != v for n, v in case['base']):
            ctx.label('flags_derived_enum_redefines')
    cls = type('GenFlags', (base,), dict(d))
    check_flag_enum(ctx, 'generated_flags', cls, case)


def enum_case(ctx, case):
    """plain Enum.name_from_value for library enums and generated ones"""
    from minecraft.networking.types import Enum, BitFieldEnum
    import minecraft.networking.types as T
    classes = [getattr(T, n) for n in ('AbsoluteHand', 'RelativeHand',
                                       'BlockFace', 'Difficulty',
                                       'Dimension', 'OriginPoint')]
    play = _play()
    classes += [play.ChatMessagePacket.Position,
                play.SoundEffectPacket.SoundCategory]
    if case.get('members'):
        classes = [type('GenEnum', (Enum,), dict(case['members']))]
    for cls in classes:
        mem = {n: v for n, v in cls.__dict__.items() if n.isupper()}
        for v in list(range(-2, 12)) + [255]:
            ctx.ev()
            got = cls.name_from_value(v)
            has = [n for n, x in mem.items() if x == v]
            if (got is None) != (not has) or (got is not None and
                                              got not in has):
                ctx.fail('enum', 'E-name-from-value',
                         {'enum': cls.__qualname__, 'value': v,
                          'members': case.get('members')}, got, has)
            ctx.nt('enum', cls.__qualname__, v, repr(case.get('members')))
        # any value can be asked for (repr() of a packet asks for whatever
        # the field holds): one that cannot be hashed simply has no name
        for v in ([1], [], {}, bytearray(b'a'), {1}, [[0]]):
            ctx.ev()
            try:
                got = cls.name_from_value(v)
            except Exception as e:
                ctx.fail('enum', 'E-name-from-value-raises',
                         {'enum': cls.__qualname__, 'value': repr(v),
                          'members': case.get('members')}, exc=e)
                break
            if got is not None and mem.get(got) != v:
                ctx.fail('enum', 'E-name-from-value',
                         {'enum': cls.__qualname__, 'value': repr(v),
                          'members': case.get('members')}, got, None)


COMPONENTS = {'playerlist': playerlist_case, 'maps': maps_case,
              'position': position_case, 'records': records_case,
              'vectors': vectors_case, 'aliases': aliases_case,
              'gen_alias': generated_alias_case,
              'library_flags': library_flags_case,
              'generated_flags': generated_flags_case, 'enum': enum_case}


# ----------------------------------------------------------------------- tasks

def t_hist(ctx, which, n, maxlen):
    strat, fn = {'playerlist': (playerlist_strategy, playerlist_case),
                 'maps': (maps_strategy, maps_case),
                 'position': (position_strategy, position_case)}[which]

    def body(c, case):
        fn(c, case)
        if c.evaluations % 150 == 1:
            c.sample({'kind': which,
                      'packets': case['packets'][:3],
                      'length': len(case['packets'])}, which)
    hyp(ctx, which, strat(maxlen), body, n)
    if which == 'position':
        for ang in (-1e-20, -1e-45, 360.0, -360.0, 359.99999999999994,
                    -0.0, 720.0, 1e9):
            for flags in range(32):
                position_case(ctx, {'start': (0.0, 0.0, 0.0, 0.0, 359.9),
                                    'packets': [(1.0, 2.0, 3.0, ang, ang,
                                                 flags)]})
        ctx.exhaustive_done('position: 8 boundary angles x all 32 flag '
                            'combinations')


def _same_but_prints_differently(v):
    # a value that compares equal to v but has another repr
    if isinstance(v, bool):
        return int(v)
    if isinstance(v, int):
        return float(v) if v not in (0, 1) else bool(v)
    if isinstance(v, float) and v == int(v):
        return int(v)
    if isinstance(v, list):
        return [_same_but_prints_differently(x) for x in v]
    if isinstance(v, tuple):
        return tuple(_same_but_prints_differently(x) for x in v)
    if isinstance(v, dict):
        return dict(reversed(list(v.items())))
    if isinstance(v, bytearray):
        return bytes(v)
    if isinstance(v, bytes):
        return bytearray(v)
    return v


def t_laws(ctx, n):
    num = st.one_of(st.integers(-2, 2), st.booleans(),
                    st.sampled_from([0.0, 1.0, -1.0, 0.5]))
    val = st.one_of(st.integers(-5, 5), st.sampled_from(['a', '', (1, 2)]),
                    st.none(), st.booleans(), st.floats(-2, 2),
                    # unhashable field values (the library's own records
                    # hold lists: properties, icons)
                    st.lists(num, max_size=2),
                    # pixel buffers: bytearray(b'ab') == b'ab'
                    st.binary(max_size=3),
                    st.binary(max_size=3).map(bytearray),
                    st.dictionaries(st.sampled_from(['k', 'j']), num,
                                    max_size=2))
    rec = st.fixed_dictionaries({
        'cls_a': st.integers(0, 60),
        'cls_b': st.one_of(st.none(), st.integers(0, 60)),
        'a': st.lists(val, min_size=8, max_size=8),
        'b': st.lists(val, min_size=8, max_size=8),
        'unset_a': st.lists(st.integers(0, 5), max_size=3),
        'unset_b': st.lists(st.integers(0, 5), max_size=3),
        'twin': st.sampled_from([0, 0, 1, 2])}).map(
            lambda c: dict(c, b=c['a']) if c['twin'] == 1 or
            c['a'][0] in (1, 'a') else
            dict(c, b=[_same_but_prints_differently(x) for x in c['a']],
                 cls_b=None) if c['twin'] == 2 else c)
    hyp(ctx, 'records', rec, lambda c, case: records_case(c, case), n)
    frec = st.fixed_dictionaries({
        'fresh': st.just(True),
        'warm': st.lists(st.integers(0, 4), max_size=5, unique=True),
        'cls_a': st.integers(0, 4),
        'cls_b': st.one_of(st.none(), st.integers(0, 4)),
        'a': st.lists(val, min_size=4, max_size=4),
        'b': st.lists(val, min_size=4, max_size=4)}).map(
            lambda c: dict(c, b=c['a']) if c['a'][0] in (1, 'a') else c)
    hyp(ctx, 'fresh_records', frec, lambda c, case: records_case(c, case),
        n)
    num = st.one_of(st.integers(-10 ** 6, 10 ** 6), st.floats(-1e6, 1e6),
                    st.integers(-3, 3))
    scal = st.one_of(st.integers(-9, 9), st.floats(-9, 9),
                     st.tuples(st.integers(-9, 9), st.integers(1, 9)))
    vec = st.fixed_dictionaries({
        'ca': st.integers(0, 3), 'cb': st.integers(0, 3),
        'a': st.tuples(num, num, num), 'b': st.tuples(num, num, num),
        'k': scal})

    def vbody(c, case):
        vectors_case(c, case)
        if c.evaluations % 400 == 1:
            c.sample(case, 'vectors')
    hyp(ctx, 'vectors', vec, vbody, n)
    al = st.fixed_dictionaries({
        'spec': st.integers(0, 40),
        'values': st.lists(st.one_of(st.integers(-100, 100),
                                     st.floats(-100, 100)),
                           min_size=5, max_size=5)})
    hyp(ctx, 'aliases', al, lambda c, case: aliases_case(c, case), n)
    ga = st.fixed_dictionaries({
        'k': st.sampled_from([1, 2, 4, 0.5, 4096]),
        'values': st.lists(st.integers(-1000, 1000), min_size=3,
                           max_size=3)})
    hyp(ctx, 'gen_alias', ga, lambda c, case: generated_alias_case(c, case),
        max(50, n // 4))
    for i in range(len(alias_specs())):
        aliases_case(ctx, {'spec': i, 'values': [1, -2, 3.5, 90.0, -45.0]})
    ctx.exhaustive_done('every alias-helper use listed for the library')
    # every library record class against itself
    for i in range(len(library_record_classes()) +
                   len(generated_record_classes())):
        records_case(ctx, {'cls_a': i, 'cls_b': None,
                           'a': [1, 'x', (2, 3), None, 0, 5, 6, 7],
                           'b': [1, 'x', (2, 3), None, 0, 5, 6, 7]})
        records_case(ctx, {'cls_a': i, 'cls_b': i + 1,
                           'a': [1, 'x', (2, 3), None, 0, 5, 6, 7],
                           'b': [1, 'x', (2, 3), None, 0, 5, 6, 7]})
        for ua, ub in (([3, 4], []), ([], [0, 1]), ([0, 1, 2], [2, 3, 4]),
                       ([2], [2]), ([0, 1, 2, 3, 4, 5, 6, 7], [1])):
            records_case(ctx, {'cls_a': i, 'cls_b': None,
                               'a': [1, 2, 1, 2, 3, 5, 6, 7],
                               'b': [1, 2, 1, 2, 3, 5, 6, 7],
                               'unset_a': ua, 'unset_b': ub})


def t_flags(ctx, n):
    library_flags_case(ctx, {})
    ctx.exhaustive_done('every library BitFieldEnum x every value 0..255')
    enum_case(ctx, {})
    names = ['A', 'B', 'C', 'D', 'E', 'F', 'G', 'H', 'ALL', 'NONE', 'X_Y']
    mem = st.lists(st.tuples(st.sampled_from(names), st.one_of(
        st.sampled_from([0, 1, 2, 4, 8, 16, 32, 64, 128, 3, 7, 0x7F, 255]),
        st.integers(0, 255))), min_size=1, max_size=8,
        unique_by=lambda t: t[0])

    def body(c, mb):
        m, b = mb
        case = {'members': m}
        if b:
            case['base'] = b
        generated_flags_case(c, case)
        enum_case(c, {'members': m})
        if c.evaluations % 5000 < 300:
            c.sample(case, 'generated_flags')
    hyp(ctx, 'gen_flags', st.tuples(mem, st.one_of(st.none(), mem)), body, n)
    for case in ({'members': [['WRITE', 8]],
                  'base': [['READ', 1], ['WRITE', 2], ['EXEC', 4]]},
                 {'members': [['HARDCORE', 0x80]],
                  'base': [['SURVIVAL', 0], ['CREATIVE', 1], ['ADVENTURE', 2],
                           ['SPECTATOR', 3], ['HARDCORE', 8]]}):
        generated_flags_case(ctx, case)


def tasks(tier):
    q = tier == 'quick'
    tl = []
    for which in ('playerlist', 'maps', 'position'):
        for i in range(2 if q else 6):
            tl.append(('%s_%d' % (which, i), t_hist,
                       dict(which=which, n=(150 if which != 'maps' else 60)
                            if q else 3000,
                            maxlen=(40 if q else 200) if which != 'maps'
                            else (8 if q else 30))))
    for i in range(2 if q else 6):
        tl.append(('laws_%d' % i, t_laws, dict(n=600 if q else 20000)))
    for i in range(2 if q else 6):
        tl.append(('flags_%d' % i, t_flags, dict(n=150 if q else 4000)))
    return tl
