"""C13 - listeners fire in documented order, once each; ignore stops later
stages.  Listener configurations x packet histories against a reference
model of the documented dispatch."""
from hypothesis import strategies as st

from vlib import vnet, servers, wire
from vlib.runner import hyp
from props import c04_position as P4

PROPERTY = 'C13'
LEVEL = 'exploration'
RULE = ('Also: an incoming listener that calls disconnect() and returns '
        '(remaining stages of that packet still run once); one '
        'decorator object registering several handlers; listeners of a '
        'second, unconnected Connection never fire. '
'Configuration: 0-4 listeners in each of the four classes (incoming '
        'early / ordinary, outgoing early / ordinary), registration order '
        'interleaved across classes, each with a type filter drawn from the '
        'packet class hierarchy (base Packet, abstract keep-alive, the '
        'clientbound and serverbound keep-alive, chat, position, login '
        'packets, combat event and its specialised subclass, an unrelated '
        'class, several types at once incl. a class and its superclass), a '
        'set of packet indices on which it raises IgnorePacket, and '
        'optionally a user write_packet (queued or forced) issued from '
        'inside it; registered through register_packet_listener or the '
        '@listener decorator. History: login (plugin requests, set '
        'compression, success) then play (keep-alives, positions, chat, '
        'unknown frames, a death combat event) ended by a disconnect, 3-40 '
        'packets, protocols 757 / 340 / 47. Oracle = model replay: per '
        'incoming packet the call log is matching early listeners in '
        'registration order, built-in reaction (wire effect), matching '
        'ordinary listeners, each at most once; ignore stops everything '
        'later for that packet only, incl. the built-in reaction in login '
        'and play; per outgoing packet early-outgoing listeners, then the '
        'frame bytes on the wire, then ordinary-outgoing listeners, an '
        'early-outgoing ignore suppresses frame and later calls. Re-entrant '
        'component: 1-8 queued packets, an ordinary outgoing listener calls '
        'disconnect() after the d-th (which flushes the rest from inside '
        'the write): per packet every listener exactly once on the right '
        'side of its frame, frames once each in queue order. '
        'Non-trivial: >= 2 listeners in one class with overlapping filters '
        'and >= 1 ignore rule that fires; distinct by (config, history).')
RULE += (' ' +
         'Added in later rounds: a bystander Connection with its own '
         'listeners; one decorator object applied to several handlers; the '
         'same callable registered twice; forced writes from an early '
         'outgoing listener; listeners given as function, bound method of a '
         'temporary object, partial, slotted callable object, classmethod '
         '(the harness keeps no reference of its own); disconnect from an '
         'incoming listener; ignore of login success. Round 11: flags '
         'spelled 1 / 0 / None as well as True / False; zero-valued library '
         'packets (empty record arrays) in histories with listeners for '
         'their classes. Round 13: component rewrite - early outgoing '
         'listeners that censor chat / rename the login; the wire and the '
         'ordinary outgoing listeners see the rewritten packet. Round 14: '
         'empty type filters in all four listener classes, both registration '
         "forms. Round 15: C14's pending-write-error scenario (the "
         'triggering packet is read in the pass in which a queued write '
         'failed) run as component route. Round 16: component dead_peer '
         '(delegated to C16) with a late outgoing listener - it sees only '
         'packets the link accepted. ')
LEVEL_TEXT = ('Model-based testing of the documented listener dispatch over '
              'generated listener configurations x packet histories on an '
              'in-memory network, with event sequence numbers relating '
              'listener calls to the bytes on the wire.')
LEVEL_NOTE = ('Trusted: in-memory transport and scripted server; the model '
              'is written from the docstrings of register_packet_listener '
              'and PacketReactor.react. The isinstance relation between '
              'packet kinds and filter names is a literal table in the '
              'harness. Sampled.')
TECHNIQUE = ('model-based property testing of listener dispatch on an '
             'in-memory network')
ASSUMPTIONS = ['all packets of a case arrive in one read batch (<= 40)']

IN_FILTERS = ['Packet', 'AbstractKA', 'CbKA', 'Chat', 'PosLook',
              'LoginSuccess', 'LoginSetCompression', 'PluginRequest',
              'PlayDisconnect', 'CombatEvent', 'DeathCombat', 'Map', 'SbKA',
              'PluginMessage', 'PlaySetCompression', 'LoginDisconnect',
              'MultiBlockChangePacket', 'ExplosionPacket',
              'PlayerListItemPacket']
OUT_FILTERS = ['Packet', 'AbstractKA', 'SbKA', 'HandShake', 'LoginStart',
               'PluginResponse', 'TeleportConfirm', 'SbPosLook', 'SbChat',
               'CbKA', 'Map']

KIND_MATCH = {
    # incoming
    'ka': {'Packet', 'AbstractKA', 'CbKA'},
    'pos': {'Packet', 'PosLook'},
    'chat': {'Packet', 'Chat'},
    'unknown': {'Packet'},
    'plugin': {'Packet', 'PluginRequest'},
    'compress': {'Packet', 'LoginSetCompression'},
    'success': {'Packet', 'LoginSuccess'},
    'disconnect': {'Packet', 'PlayDisconnect'},
    'death': {'Packet', 'CombatEvent', 'DeathCombat'},
    # classes that share a packet_name with another class:
    'plugin_msg': {'Packet', 'PluginMessage'},          # 'base' like unknown
    'play_compress': {'Packet', 'PlaySetCompression'},  # 'set compression'
    # outgoing
    'HandShakePacket': {'Packet', 'HandShake'},
    'LoginStartPacket': {'Packet', 'LoginStart'},
    'KeepAlivePacket': {'Packet', 'AbstractKA', 'SbKA'},
    'TeleportConfirmPacket': {'Packet', 'TeleportConfirm'},
    'PositionAndLookPacket': {'Packet', 'SbPosLook'},
    'PluginResponsePacket': {'Packet', 'PluginResponse'},
    'ChatPacket': {'Packet', 'SbChat'},
}


ZERO_NAMES = ['MultiBlockChangePacket', 'ExplosionPacket',
              'BlockChangePacket', 'TimeUpdatePacket',
              'EntityVelocityPacket', 'PlayerListItemPacket']


def filter_classes():
    from minecraft.networking import packets
    from minecraft.networking.packets import clientbound as cb, \
        serverbound as sb
    d = _filter_classes(packets, cb, sb)
    for n in ZERO_NAMES:
        d[n] = getattr(cb.play, n)
    return d


def _filter_classes(packets, cb, sb):
    return {
        'Packet': packets.Packet,
        'AbstractKA': packets.AbstractKeepAlivePacket,
        'CbKA': cb.play.KeepAlivePacket, 'SbKA': sb.play.KeepAlivePacket,
        'Chat': cb.play.ChatMessagePacket,
        'PosLook': cb.play.PlayerPositionAndLookPacket,
        'LoginSuccess': cb.login.LoginSuccessPacket,
        'LoginSetCompression': cb.login.SetCompressionPacket,
        'PluginRequest': cb.login.PluginRequestPacket,
        'PlayDisconnect': cb.play.DisconnectPacket,
        'CombatEvent': cb.play.CombatEventPacket,
        'DeathCombat': cb.play.DeathCombatEventPacket,
        'Map': cb.play.MapPacket,
        'PluginMessage': cb.play.PluginMessagePacket,
        'PlaySetCompression': cb.play.SetCompressionPacket,
        'LoginDisconnect': cb.login.DisconnectPacket,
        'HandShake': sb.handshake.HandShakePacket,
        'LoginStart': sb.login.LoginStartPacket,
        'PluginResponse': sb.login.PluginResponsePacket,
        'TeleportConfirm': sb.play.TeleportConfirmPacket,
        'SbPosLook': sb.play.PositionAndLookPacket,
        'SbChat': sb.play.ChatPacket,
    }


def _as_callable(fn, kind):
    if kind == 'bound_temp':
        class Handler(object):
            def on_packet(self, packet):
                return fn(packet)
        return Handler().on_packet
    if kind == 'partial':
        import functools
        return functools.partial(fn)
    if kind == 'object':
        class Callable(object):
            __slots__ = ()

            def __call__(self, packet):
                return fn(packet)
        return Callable()
    if kind == 'classmethod':
        class Static(object):
            @classmethod
            def on_packet(cls, packet):
                return fn(packet)
        return Static.on_packet
    return fn


CALLABLES = ['function', 'bound_temp', 'partial', 'object', 'classmethod',
             'listener_object']


def _listener_object(fn, types, duck):
    """A listener object of the user's own, put into one of the connection's
    four public listener lists: the connection dispatches through
    `call_packet`, so an object that overrides it (a PacketListener subclass
    whose work is done in call_packet, or any object with that method) is a
    listener like the ones register_packet_listener builds."""
    from minecraft.networking.packets import PacketListener
    types = tuple(types)
    if duck:
        class Duck(object):
            def call_packet(self, packet):
                if isinstance(packet, types):
                    fn(packet)
                    return True
                return False
        return Duck()

    class Own(PacketListener):
        def call_packet(self, packet):
            if PacketListener.call_packet(self, packet):
                fn(packet)
                return True
            return False
    return Own(lambda packet: None, *types)


def dispatch_case(ctx, case):
    """case {version, history [item], listeners [L], decorator: bool,
    callables: one of CALLABLES}
    item: ('plugin', mid) | ('compress', t) | ('success',) | ('ka', id) |
          ('pos', tid) | ('chat', text) | ('unknown', payload) | ('death',)
    L: {cls: 'ie'|'io'|'oe'|'oo', types [names], ignore [indices],
        write: None | ('queued'|'forced', text)}"""
    from minecraft.exceptions import IgnorePacket
    from minecraft.networking.packets import serverbound as sb
    version = case['version']
    ctx.ev()
    F = filter_classes()
    history = [tuple(h) for h in case['history']]
    # ('zero:<Class>',): the all-zero instance of a library packet (empty
    # record arrays, zero numbers) - dropped where the class is not
    # registered at this version
    from props import c01_framing as P1
    history = [h for h in history if not h[0].startswith('zero:') or
               P1._hand_frame(version, h[0][5:]) is not None]
    if any(h[0].startswith('zero:') for h in history):
        ctx.label('dispatch_zero_valued_packet')
    Ls = [dict(l) for l in case['listeners']]
    for l in Ls:
        l['ignore'] = set(l.get('ignore') or ())
        l['types'] = list(l['types'])
    # harness counters: first early incoming / first early outgoing
    counter_in = {'cls': 'ie', 'types': ['Packet'], 'ignore': set(),
                  'write': None}
    counter_out = {'cls': 'oe', 'types': ['Packet'], 'ignore': set(),
                   'write': None}
    allL = [counter_in, counter_out] + Ls
    for i, l in enumerate(allL):
        l['id'] = i
    # 'same_as': this registration uses the SAME callable object as an
    # earlier listener of its class (with its own type filter): the callable
    # then runs once per matching registration, at each registration's place
    for k, l in enumerate(Ls):
        l['gid'] = l['id']
        sa = l.get('same_as')
        if sa is not None:
            earlier = [e for e in Ls[:k] if e['cls'] == l['cls'] and
                       e['gid'] == e['id']]
            if earlier:
                root = earlier[sa % len(earlier)]
                l['gid'] = root['id']
                l['ignore'], l['write'] = root['ignore'], root['write']
                ctx.label('same_callable_registered_twice')
    counter_in['gid'], counter_out['gid'] = counter_in['id'], counter_out['id']
    kinds = [h[0] for h in history] + ['disconnect']
    si = kinds.index('success')
    last = len(kinds) - 1

    if 'play_compress' in kinds:
        # a user packet written before the client has processed a
        # compression switch would race with the script's own switch
        si = max(si, kinds.index('play_compress'))

    def writes_at(i):
        # user packets are play-state packets: only between login success
        # (and a play-state compression switch) and the final disconnect
        return si < i < last

    def matches(l, kind):
        km = KIND_MATCH[kind] if kind in KIND_MATCH else \
            {'Packet', kind[5:]}                # 'zero:<class name>'
        return any(t in km for t in l['types'])

    # ---- model of incoming dispatch
    ie = [l for l in allL if l['cls'] == 'ie']
    io = [l for l in allL if l['cls'] == 'io']
    want_in = []        # (listener id, packet index)
    reacted = []        # per packet: built-in reaction happened?
    user_writes = []    # (mode, text) in call order
    fired = 0
    for i, kind in enumerate(kinds):
        stopped = False
        for l in ie:
            if matches(l, kind):
                want_in.append((l['gid'], i))
                if l['write'] and writes_at(i):
                    user_writes.append(tuple(l['write']) + (l['gid'], i))
                if i in l['ignore']:
                    stopped = True
                    fired += 1
                    break
        reacted.append(not stopped)
        if stopped:
            continue
        for l in io:
            if matches(l, kind):
                want_in.append((l['gid'], i))
                if l['write'] and writes_at(i):
                    user_writes.append(tuple(l['write']) + (l['gid'], i))
                if i in l['ignore']:
                    fired += 1
                    break

    # ---- build the server script from the history and the model
    login, play = [], []
    in_play = False
    for i, h in enumerate(history):
        if h[0] == 'plugin':
            login.append(('plugin', h[1], 'a:b', b'x', False))
        elif h[0] == 'compress':
            if reacted[i]:
                login.append(('compress', h[1]))
            else:       # ignored by the client: server must not switch
                pid, payload = servers.encode(version,
                                              'login_set_compression',
                                              threshold=h[1])
                login.append(('raw', pid, payload))
        elif h[0] == 'success':
            login.append(('success',))
            in_play = True
        elif h[0] == 'ka':
            play.append(('keep_alive', {'keep_alive_id': h[1]}))
        elif h[0] == 'pos':
            v = {'x': 1.0, 'y': 2.0, 'z': 3.0, 'yaw': 4.0, 'pitch': 5.0,
                 'flags': 0}
            lay = dict(servers.packet_info(version, 'pos_look')[1])
            if 'teleport_id' in lay:
                v['teleport_id'] = h[1]
            if 'dismount_vehicle' in lay:
                v['dismount_vehicle'] = False
            play.append(('pos_look', v))
        elif h[0] == 'chat':
            lay = dict(servers.packet_info(version, 'chat')[1])
            v = {'json_data': h[1], 'position': 0}
            if 'sender' in lay:
                v['sender'] = '00000000-0000-0000-0000-000000000001'
            play.append(('chat', v))
        elif h[0] == 'unknown':
            play.append(('raw', 0x7B, h[1]))
        elif h[0].startswith('zero:'):
            play.append(('raw',) + tuple(P1._hand_frame(version, h[0][5:])))
        elif h[0] == 'death':
            play.append(('raw', 0x35, wire.varint(7) + wire.sint(-3, 32) +
                         wire.string('died')))
        elif h[0] == 'plugin_msg':
            from minecraft.networking.packets.clientbound import play as cbp
            pid = cbp.PluginMessagePacket.get_id(P4.ctx_for(version))
            play.append(('raw', pid, wire.string('a:b') + h[1]))
        elif h[0] == 'play_compress':
            if reacted[i]:
                play.append(('play_set_compression', {'threshold': h[1]}))
            else:
                pid, payload = servers.encode(version, 'play_set_compression',
                                              threshold=h[1])
                play.append(('raw', pid, payload))
    srv = servers.Server({'version': version, 'login': login,
                          'play': {'bursts': [play], 'mode': 'all',
                                   'end': 'disconnect'}})
    world = vnet.World(servers=[srv])
    log = []            # (seq, listener id, index at call time)
    cur = {'in': -1, 'out': -1}
    out_kinds = []

    bystander = []
    with vnet.installed(world):
        conn, o = servers.make_connection(world, allowed_versions={version})
        # listeners registered on another (never connected) Connection
        # object belong to that object alone
        other, _o = servers.make_connection(world,
                                            allowed_versions={version})
        for kw_ in ({}, {'early': True}, {'outgoing': True},
                    {'early': True, 'outgoing': True}):
            other.register_packet_listener(
                lambda p, k=tuple(kw_): bystander.append(k), F['Packet'],
                **kw_)

        def make(l):
            direction = 'in' if l['cls'][0] == 'i' else 'out'

            def fn(packet):
                if l is counter_in:
                    cur['in'] += 1
                if l is counter_out:
                    cur['out'] += 1
                    out_kinds.append(type(packet).__name__)
                idx = cur[direction]
                log.append((world.next_seq(), l['id'], idx))
                if l['write'] and writes_at(idx):
                    mode, text = l['write'][0], l['write'][1]
                    if case.get('reuse_packets'):
                        # one packet object per writing listener, handed to
                        # write_packet again each time (its text is filled
                        # in anew): every hand-over is a write of its own
                        pk = reused.setdefault(l['id'], sb.play.ChatPacket())
                        pk.message = text
                    else:
                        pk = sb.play.ChatPacket(message=text)
                    conn.write_packet(pk,
                                      force=(1 if l['id'] % 2 else True)
                                      if mode == 'forced' else
                                      (0 if l['id'] % 2 else False))
                if idx in l['ignore']:
                    raise IgnorePacket
            return fn
        shared_deco = {}
        reused = {}
        if case.get('reuse_packets'):
            ctx.label('listener_rewrites_one_packet_object')
        fns = {}
        by_gid = {x['id']: x for x in allL}
        ckind = case.get('callables') or 'function'
        if ckind != 'function':
            ctx.label('listener_callable_' + ckind)
        for l in allL:
            types = [F[t] for t in l['types']]
            if l['gid'] not in fns:
                # any callable is a listener: a plain function, a bound
                # method of an object nobody else holds on to, a partial, an
                # object with __call__
                fns[l['gid']] = _as_callable(make(by_gid[l['gid']]), ckind)
            fn_l = fns[l['gid']]
            if ckind == 'listener_object':
                {'ie': conn.early_packet_listeners,
                 'io': conn.packet_listeners,
                 'oe': conn.early_outgoing_packet_listeners,
                 'oo': conn.outgoing_packet_listeners}[l['cls']].append(
                     _listener_object(fn_l, types, l['id'] % 3 == 1))
                continue
            kw = {}
            # flags are used for their truth: True and 1 (False, 0 and None)
            # are the same request
            odd = l['id'] % 2
            if l['cls'][1] == 'e':
                kw['early'] = 1 if odd else True
            elif l['id'] % 3 == 0:
                kw['early'] = 0 if odd else None
            if l['cls'][0] == 'o':
                kw['outgoing'] = True if odd else 1
            elif l['id'] % 3 == 1:
                kw['outgoing'] = 0
            if case.get('decorator') == 'shared' and l['id'] >= 2:
                # one decorator object applied to several handlers
                key = (tuple(l['types']), tuple(sorted(
                    k_ for k_, v_ in kw.items() if v_)))
                if key not in shared_deco:
                    shared_deco[key] = conn.listener(*types, **kw)
                else:
                    ctx.label('decorator_object_reused')
                shared_deco[key](fn_l)
            elif case.get('decorator') and l['id'] % 2:
                conn.listener(*types, **kw)(fn_l)
            else:
                conn.register_packet_listener(fn_l, *types, **kw)
        # from here on the connection holds the only reference to the
        # registered callables (and to the objects whose methods they are)
        fn_l = None
        fns.clear()
        shared_deco.clear()
        try:
            conn.connect()
        except Exception as e:
            ctx.fail('dispatch', 'D-connect-raised', case, exc=e)
            return
        state = world.settle()
    if state == 'timeout':
        from vlib.core import HarnessError
        raise HarnessError('C13 case did not settle')
    if state in ('idle', 'blocked'):
        ctx.fail('dispatch', 'D-client-%s' % state, case,
                 'server errors %r' % srv.errors)
        return
    if o.exceptions:
        ctx.fail('dispatch', 'D-unexpected-error', case,
                 repr(o.exceptions[0][0]))
        return
    if srv.errors:
        ctx.fail('dispatch', 'D2-malformed-client-stream', case, srv.errors)
        return
    if bystander:
        ctx.fail('dispatch', 'D1-listener-of-another-connection-called',
                 case, bystander[:4], 'no call')
        return
    by_id = {l['id']: l for l in allL}
    got_in = [(lid, idx) for s, lid, idx in log
              if by_id[lid]['cls'][0] == 'i']
    if got_in != want_in:
        k = next((j for j, (a, b) in enumerate(zip(got_in, want_in))
                  if a != b), min(len(got_in), len(want_in)))
        ctx.fail('dispatch', 'D1D2-incoming-call-log', case,
                 'differs at %d: %r' % (k, got_in[k:k + 4]),
                 '%r' % (want_in[k:k + 4],))
    # ---- outgoing: expected multiset of packets
    want_out = ['HandShakePacket', 'LoginStartPacket']
    tp = P4.rank(version) >= P4.rank(107)
    for i, h in enumerate(history):
        if not reacted[i]:
            continue
        if h[0] == 'plugin':
            want_out.append('PluginResponsePacket')
        elif h[0] == 'ka':
            want_out.append('KeepAlivePacket')
        elif h[0] == 'pos':
            want_out.append('TeleportConfirmPacket' if tp
                            else 'PositionAndLookPacket')
    want_out += ['ChatPacket'] * len(user_writes)
    # user writes issued by outgoing listeners are not generated
    if sorted(out_kinds) != sorted(want_out):
        ctx.fail('dispatch', 'D2-outgoing-packets', case, sorted(out_kinds),
                 sorted(want_out))
        return
    # per outgoing packet: early-out calls, frame, ordinary-out calls
    oe = [l for l in allL if l['cls'] == 'oe']
    oo = [l for l in allL if l['cls'] == 'oo']
    want_calls = []
    on_wire = []
    for j, kind in enumerate(out_kinds):
        stopped = False
        for l in oe:
            if matches(l, kind):
                want_calls.append((l['gid'], j, 'before'))
                if j in l['ignore']:
                    stopped = True
                    fired += 1
                    break
        on_wire.append(not stopped)
        if stopped:
            continue
        for l in oo:
            if matches(l, kind):
                want_calls.append((l['gid'], j, 'after'))
                if j in l['ignore']:
                    fired += 1
                    break
    # frames on the wire, in order
    frames = srv.frames
    spans = srv.frame_spans
    if len(frames) != sum(on_wire):
        ctx.fail('dispatch', 'D3-frames-on-wire', case, len(frames),
                 sum(on_wire))
        return
    # sequence numbers of the send events covering each frame
    link = world.links[0]
    sends = []
    pos = 0
    for s, k, info in link.events:
        if k == 'send':
            sends.append((s, pos, pos + info))
            pos += info
    frame_seq = []
    for (a, b) in spans:
        ss = [s for s, x, y in sends if x < b and y > a]
        frame_seq.append((min(ss), max(ss)))
    wire_index = {}
    n = 0
    for j, w in enumerate(on_wire):
        if w:
            wire_index[j] = n
            n += 1
    got_calls = []
    for s, lid, idx in log:
        l = by_id[lid]
        if l['cls'][0] != 'o':
            continue
        if idx in wire_index:
            lo, hi = frame_seq[wire_index[idx]]
            rel = 'before' if s < lo else 'after' if s > hi else 'during'
        else:
            rel = 'before'
        got_calls.append((lid, idx, rel))
    if got_calls != want_calls:
        k = next((j for j, (a, b) in enumerate(zip(got_calls, want_calls))
                  if a != b), min(len(got_calls), len(want_calls)))
        ctx.fail('dispatch', 'D3-outgoing-call-log', case,
                 'differs at %d: %r' % (k, got_calls[k:k + 4]),
                 '%r' % (want_calls[k:k + 4],))
    # D2: suppressed reactions have no wire effect (replies present only
    # for reacted packets) - ids
    want_ka = [h[1] for i, h in enumerate(history)
               if h[0] == 'ka' and reacted[i]]
    # keep-alive replies that an early-outgoing listener suppressed do not
    # reach the wire: compare as sub-multiset when outgoing ignores exist
    got_ka = [r[1] for r in srv.replies if r[0] == 'keep_alive']
    if all(on_wire):
        if got_ka != want_ka:
            ctx.fail('dispatch', 'D2-keep-alive-replies', case, got_ka,
                     want_ka)
    # non-triviality
    overlap = False
    for group in (ie, io, oe, oo):
        real = [l for l in group if l not in (counter_in, counter_out)]
        for a in range(len(real)):
            for b in range(a + 1, len(real)):
                if set(real[a]['types']) & set(real[b]['types']) or \
                        'Packet' in real[a]['types'] + real[b]['types']:
                    overlap = True
    if overlap and fired:
        ctx.nt(repr(case))
    ctx.label('ignores_fired_%d' % min(fired, 3))


def reentrant_case(ctx, case):
    """Outgoing dispatch under the re-entrancy the write lock exists for: an
    ordinary outgoing listener calls Connection.disconnect() (which flushes
    the queue) while one of several queued packets is being written.
    case {version, n, d, oe: [filter..], oo: [filter..], who, compress}
    n queued chat packets m0..m(n-1); the oo listener number `who` calls
    disconnect() after m<d> has been written.  Oracle: for every chat packet
    each matching early-outgoing listener ran exactly once before its frame,
    each matching ordinary-outgoing listener exactly once after it, the
    frames m0..m(n-1) are on the wire exactly once each and in queue order,
    the client closed the link and no error was reported."""
    from minecraft.networking.packets import serverbound as sb, \
        clientbound as cb
    version, n, d = case['version'], case['n'], case['d'] % case['n']
    ctx.ev()
    F = filter_classes()
    login = [('compress', case['compress'])] \
        if case.get('compress') is not None else []
    lay = dict(servers.packet_info(version, 'chat')[1])
    v = {'json_data': '{"text":"go"}', 'position': 0}
    if 'sender' in lay:
        v['sender'] = '00000000-0000-0000-0000-000000000001'
    srv = servers.Server({'version': version, 'login': login + [('success',)],
                          'play': {'bursts': [[('chat', v)]], 'mode': 'all',
                                   'end': 'silent'}})
    world = vnet.World(servers=[srv])
    log = []        # (seq, class, listener number, message)
    did = []
    with vnet.installed(world):
        conn, o = servers.make_connection(world, allowed_versions={version})

        forced = []
        force_at = case.get('force_at')
        if force_at is not None:
            force_at = force_at % n if case['oe'] else None

        def queue_all(p):
            for i in range(n):
                conn.write_packet(sb.play.ChatPacket(message='m%d' % i))
        conn.register_packet_listener(queue_all, cb.play.ChatMessagePacket)

        def make(cls, k):
            def fn(packet):
                if type(packet).__name__ != 'ChatPacket':
                    return
                log.append((world.next_seq(), cls, k, packet.message))
                if cls == 'oe' and force_at is not None and \
                        k == case.get('force_who', 0) % len(case['oe']) and \
                        packet.message == 'm%d' % force_at and not forced:
                    # an early outgoing listener reacts to a packet by
                    # writing another one at once (the write lock is
                    # re-entrant for exactly this)
                    forced.append(1)
                    conn.write_packet(sb.play.ChatPacket(message='w'),
                                      force=True)
                if cls == 'oo' and k == case['who'] % len(case['oo']) and \
                        packet.message == 'm%d' % d and not did:
                    did.append(1)
                    conn.disconnect()
            return fn
        for cls in ('oe', 'oo'):
            for k, t in enumerate(case[cls]):
                kw = {'outgoing': True}
                if cls == 'oe':
                    kw['early'] = True
                conn.register_packet_listener(make(cls, k), F[t], **kw)
        try:
            conn.connect()
        except Exception as e:
            ctx.fail('reentrant', 'D-connect-raised', case, exc=e)
            return
        state = world.settle()
    if state == 'timeout':
        from vlib.core import HarnessError
        raise HarnessError('C13 reentrant case did not settle')
    if state != 'done':
        ctx.fail('reentrant', 'D-client-%s' % state, case,
                 'server errors %r' % srv.errors)
        return
    if o.exceptions:
        ctx.fail('reentrant', 'D-unexpected-error', case,
                 repr(o.exceptions[0][0]))
        return
    if srv.errors:
        ctx.fail('reentrant', 'D2-malformed-client-stream', case, srv.errors)
        return
    chat_id = servers.packet_info(version, 'sb_chat')[0]
    got = [servers.decode(version, 'sb_chat', pl)['message']
           for pid, pl in srv.other_play_frames if pid == chat_id]
    want = ['m%d' % i for i in range(n)]
    if force_at is not None:
        # written from inside the early stage of m<force_at>: it goes out
        # right before that packet, and nothing queued overtakes either
        want.insert(force_at, 'w')
        ctx.label('reentrant_forced_write')
    if got != want:
        ctx.fail('reentrant', 'D3-frames-on-wire', case, got, want)
        return
    # seq of the send event of each chat frame
    link = world.links[0]
    sends, pos = [], 0
    for s_, k_, info in link.events:
        if k_ == 'send':
            sends.append((s_, pos, pos + info))
            pos += info
    chat_spans = [sp for (st_, pid, pl, comp), sp in
                  zip(srv.frames, srv.frame_spans)
                  if st_ == 'play' and pid == chat_id]
    for i, (a, b) in enumerate(chat_spans):
        ss = [s_ for s_, x, y in sends if x < b and y > a]
        msg = want[i]
        calls = [(s_, cls, k) for s_, cls, k, m in log if m == msg]
        want_calls = [('oe', k) for k in range(len(case['oe']))] + \
            [('oo', k) for k in range(len(case['oo']))]
        if [(cls, k) for s_, cls, k in calls] != want_calls:
            ctx.fail('reentrant', 'D3-outgoing-call-log',
                     dict(case, packet=msg),
                     [(cls, k) for s_, cls, k in calls], want_calls)
            return
        for s_, cls, k in calls:
            if (cls == 'oe' and not s_ < min(ss)) or \
                    (cls == 'oo' and not s_ > max(ss)):
                ctx.fail('reentrant', 'D3-listener-on-wrong-side-of-write',
                         dict(case, packet=msg), (cls, k))
                return
    if not link.closed_by_client():
        ctx.fail('reentrant', 'D3-link-left-open', case)
        return
    if n >= 2 and d < n - 1:
        ctx.nt('reentrant', repr(case))
    ctx.label('reentrant_disconnect')


def incoming_disconnect_case(ctx, case):
    """An incoming listener calls Connection.disconnect() and returns
    normally: only 'ignore' stops later stages, so the remaining early
    listeners, the built-in reaction and the ordinary listeners of THAT
    packet still run, each once.  case {version, n, d, ie: [filter..],
    io: [filter..], cls: 'ie'|'io', who}: n chat packets arrive in one
    burst; listener `who` of class `cls` disconnects on the d-th."""
    from minecraft.networking.packets import clientbound as cb
    version, n, d = case['version'], case['n'], case['d'] % case['n']
    ctx.ev()
    F = filter_classes()
    lay = dict(servers.packet_info(version, 'chat')[1])
    burst = []
    for i in range(n):
        v = {'json_data': '{"text":"c%d"}' % i, 'position': 0}
        if 'sender' in lay:
            v['sender'] = '00000000-0000-0000-0000-000000000001'
        burst.append(('chat', v))
    srv = servers.Server({'version': version, 'login': [('success',)],
                          'play': {'bursts': [burst], 'mode': 'all',
                                   'end': 'silent'}})
    world = vnet.World(servers=[srv])
    log = []
    did = []
    groups = {'ie': list(case['ie']), 'io': list(case['io'])}
    if not groups[case['cls']]:
        groups[case['cls']] = ['Chat']
    with vnet.installed(world):
        conn, o = servers.make_connection(world, allowed_versions={version})

        def make(cls, k):
            def fn(packet):
                if not isinstance(packet, cb.play.ChatMessagePacket):
                    return
                idx = int(packet.json_data[10:-2])
                log.append((cls, k, idx))
                if cls == case['cls'] and idx == d and not did and \
                        k == case['who'] % len(groups[cls]):
                    did.append(1)
                    conn.disconnect()
            return fn
        for cls in ('ie', 'io'):
            for k, t in enumerate(groups[cls]):
                kw = {'early': True} if cls == 'ie' else {}
                conn.register_packet_listener(make(cls, k), F[t], **kw)
        try:
            conn.connect()
        except Exception as e:
            ctx.fail('incoming_disconnect', 'D-connect-raised', case, exc=e)
            return
        state = world.settle()
    if state == 'timeout':
        from vlib.core import HarnessError
        raise HarnessError('C13 incoming_disconnect case did not settle')
    if state != 'done':
        ctx.fail('incoming_disconnect', 'D-client-%s' % state, case)
        return
    if o.exceptions:
        ctx.fail('incoming_disconnect', 'D-unexpected-error', case,
                 repr(o.exceptions[0][0]))
        return
    full = [('ie', k) for k in range(len(groups['ie']))] + \
        [('io', k) for k in range(len(groups['io']))]
    for j in range(n):
        calls = [(cls, k) for cls, k, idx in log if idx == j]
        if j <= d:
            if calls != full:
                ctx.fail('incoming_disconnect', 'D1D2-incoming-call-log',
                         dict(case, packet=j), calls, full)
                return
        elif calls not in ([], full):
            ctx.fail('incoming_disconnect', 'D1D2-incoming-call-log',
                     dict(case, packet=j), calls, 'nothing or %r' % (full,))
            return
    if not world.links[0].closed_by_client():
        ctx.fail('incoming_disconnect', 'D-link-left-open', case)
        return
    if len(full) >= 3:
        ctx.nt('incoming_disconnect', repr(case))
    ctx.label('incoming_disconnect')


COMPONENTS = {'dispatch': dispatch_case, 'reentrant': reentrant_case,
              'incoming_disconnect': incoming_disconnect_case}


# --------------------------------------------------------------- strategies

def history_strategy(version):
    has_plugin = servers.has_packet(version, 'plugin_request')
    login_items = [st.tuples(st.just('compress'),
                             st.sampled_from([0, 64, 256]))]
    if has_plugin:
        login_items.append(st.tuples(st.just('plugin'),
                                     st.integers(0, 1000)))
    play_items = [
        st.tuples(st.just('ka'), st.integers(0, 2 ** 31 - 1)),
        st.tuples(st.just('ka'), st.integers(0, 2 ** 31 - 1)),
        st.tuples(st.just('pos'), st.integers(0, 1000)),
        st.tuples(st.just('chat'), st.sampled_from(['{"text":"a"}', '"b"'])),
        st.tuples(st.just('unknown'), st.binary(max_size=20)),
    ]
    if version == 757:
        play_items.append(st.tuples(st.just('death')))
    play_items.append(st.tuples(st.just('plugin_msg'), st.binary(max_size=8)))
    play_items.append(st.sampled_from(ZERO_NAMES).map(
        lambda n: ('zero:' + n,)))
    if version == 47:
        play_items.append(st.tuples(st.just('play_compress'),
                                    st.sampled_from([0, 64])))

    def build(t):
        lg, pl = t
        # a play-state compression switch only as the first play packet
        pc = [x for x in pl if x[0] == 'play_compress'][:1]
        pl = pc + [x for x in pl if x[0] != 'play_compress']
        seen_comp = False
        out = []
        for x in lg:
            if x[0] == 'compress':
                if seen_comp:
                    continue
                seen_comp = True
            out.append(x)
        return out + [('success',)] + pl
    return st.tuples(st.lists(st.one_of(*login_items), max_size=3),
                     st.lists(st.one_of(*play_items), min_size=1,
                              max_size=30)).map(build)


def listeners_strategy(nhist):
    def L(cls):
        pool = IN_FILTERS if cls[0] == 'i' else OUT_FILTERS
        # (an empty filter is legal and selects nothing, however the
        # listener is registered)
        types = st.one_of(
            st.lists(st.sampled_from(pool), min_size=1, max_size=3,
                     unique=True),
            st.lists(st.sampled_from(pool), min_size=0, max_size=3,
                     unique=True))
        ignore = st.lists(st.integers(0, nhist + 6), max_size=4, unique=True)
        write = st.one_of(st.none(), st.none(), st.tuples(
            st.sampled_from(['queued', 'forced']),
            st.sampled_from(['hello', 'from listener']))) \
            if cls[0] == 'i' else st.none()
        return st.fixed_dictionaries({'cls': st.just(cls), 'types': types,
                                      'ignore': ignore, 'write': write,
                                      'same_as': st.sampled_from(
                                          [None, None, None, 0, 1])})
    return st.lists(st.sampled_from(['ie', 'io', 'oe', 'oo']).flatmap(L),
                    max_size=12)


def sanitize(case):
    """keep the scenario coherent: the login success and the final
    disconnect are never ignored by an early incoming listener (the model
    handles everything else)."""
    history = case['history']
    si = next(i for i, h in enumerate(history) if h[0] == 'success')
    last = len(history)
    if case.get('decorator') == 'shared':
        # same filter for all listeners of a class, so that the decorator
        # object really is shared
        first = {}
        for l in case['listeners']:
            l['types'] = first.setdefault(l['cls'], l['types'])
    for l in case['listeners']:
        if l['cls'] == 'ie':
            l['ignore'] = [i for i in l['ignore'] if i not in (si, last)]
        if l['cls'][0] == 'o':
            # never suppress handshake / login start (indices 0, 1)
            l['ignore'] = [i for i in l['ignore'] if i > 1]
    return case


def case_strategy():
    def fv(v):
        return history_strategy(v).flatmap(lambda h: st.fixed_dictionaries({
            'version': st.just(v), 'history': st.just(h),
            'listeners': listeners_strategy(len(h)),
            'decorator': st.sampled_from([False, True, 'shared']),
            'reuse_packets': st.booleans(),
            'callables': st.sampled_from(CALLABLES)}))
    return st.sampled_from([757, 757, 340, 47]).flatmap(fv).map(sanitize)


def t_fixed(ctx):
    for v in (757, 340, 47):
        hist = [('compress', 64), ('success',), ('ka', 1), ('pos', 5),
                ('unknown', b'zz'), ('ka', 2), ('chat', '{"text":"a"}')]
        hist = hist + [('unknown', b'q'), ('plugin_msg', b'xy'),
                       ('unknown', b'')] + [('zero:' + n,)
                                            for n in ZERO_NAMES[:3]]
        if v == 47:
            k = hist.index(('success',)) + 1
            hist = hist[:k] + [('play_compress', 0)] + hist[k:]
        if v == 757:
            hist = [('plugin', 9)] + hist + [('death',)]
        n = len(hist)
        base = [
            {'cls': 'io', 'types': ['Packet'], 'ignore': [], 'write': None},
            {'cls': 'ie', 'types': ['AbstractKA'], 'ignore': [], 'write': None},
            {'cls': 'io', 'types': ['CbKA', 'AbstractKA', 'Packet'],
             'ignore': [], 'write': ('queued', 'q')},
            {'cls': 'oe', 'types': ['SbKA'], 'ignore': [], 'write': None},
            {'cls': 'oo', 'types': ['Packet'], 'ignore': [], 'write': None},
            {'cls': 'ie', 'types': ['Packet'], 'ignore': [], 'write': None},
            {'cls': 'io', 'types': ['CombatEvent', 'Map'], 'ignore': [],
             'write': ('forced', 'f')},
            {'cls': 'oo', 'types': ['AbstractKA', 'SbChat'], 'ignore': [],
             'write': None},
            {'cls': 'io', 'types': ['PluginMessage',
                                    'MultiBlockChangePacket'], 'ignore': [],
             'write': None},
            {'cls': 'ie', 'types': ['PlaySetCompression'], 'ignore': [],
             'write': None},
            {'cls': 'io', 'types': ['LoginSetCompression', 'LoginDisconnect'],
             'ignore': [], 'write': None},
            # empty filters: never called, in all four classes
            {'cls': 'ie', 'types': [], 'ignore': [0, 1, 2, 3, 4, 5],
             'write': None},
            {'cls': 'io', 'types': [], 'ignore': [], 'write': None},
            {'cls': 'oe', 'types': [], 'ignore': [2, 3, 4, 5, 6],
             'write': None},
            {'cls': 'oo', 'types': [], 'ignore': [], 'write': None},
            # the same callables again, with other filters, after the others
            {'cls': 'io', 'types': ['Chat', 'CbKA'], 'ignore': [],
             'write': None, 'same_as': 0},
            {'cls': 'ie', 'types': ['Packet'], 'ignore': [], 'write': None,
             'same_as': 0},
            {'cls': 'oo', 'types': ['SbKA'], 'ignore': [], 'write': None,
             'same_as': 0},
            {'cls': 'oe', 'types': ['Packet'], 'ignore': [], 'write': None,
             'same_as': 0},
        ]
        for ck in CALLABLES:
            dispatch_case(ctx, {'version': v, 'history': hist,
                                'listeners': base, 'decorator': False,
                                'callables': ck})
        dispatch_case(ctx, sanitize({
            'version': v, 'history': hist, 'decorator': 'shared',
            'listeners': [dict(l) for l in base + base]}))
        # every single (listener, packet index) ignore
        for li in range(len(base)):
            top = n + 1 if base[li]['cls'][0] == 'i' else n + 6
            for idx in range(top):
                ls = [dict(l) for l in base]
                ls[li]['ignore'] = [idx]
                case = sanitize({'version': v, 'history': hist,
                                 'listeners': ls, 'decorator': idx % 2 == 0,
                                 'reuse_packets': (li + idx) % 3 != 0,
                                 'callables': CALLABLES[(li + idx) % len(CALLABLES)]})
                dispatch_case(ctx, case)
    ctx.sample({'version': 757, 'history': hist, 'listeners': base[:3]},
               'fixed')
    ctx.exhaustive_done('fixed 8-listener configuration x every single '
                        '(listener, packet index) ignore at 3 protocols')


def t_reentrant(ctx, n):
    for v in (757, 340, 47):
        for nn in (1, 2, 3, 5):
            for d in range(nn):
                reentrant_case(ctx, {'version': v, 'n': nn, 'd': d,
                                     'oe': ['Packet'],
                                     'oo': ['SbChat', 'Packet'],
                                     'who': d % 2, 'compress':
                                     [None, 0, 64][d % 3]})
                for fa in range(nn):
                    reentrant_case(ctx, {'version': v, 'n': nn, 'd': d,
                                         'oe': ['SbChat', 'Packet'],
                                         'oo': ['Packet'], 'who': 0,
                                         'force_at': fa, 'force_who': fa % 2,
                                         'compress': None})
    ctx.exhaustive_done('re-entrant disconnect: 3 protocols x 1-5 queued '
                        'packets x every position')
    strat = st.fixed_dictionaries({
        'version': st.sampled_from([757, 340, 47]),
        'n': st.integers(1, 8), 'd': st.integers(0, 7),
        'oe': st.lists(st.sampled_from(['Packet', 'SbChat']), max_size=3),
        'oo': st.lists(st.sampled_from(['Packet', 'SbChat']), min_size=1,
                       max_size=3),
        'who': st.integers(0, 2),
        'force_at': st.one_of(st.none(), st.integers(0, 7)),
        'force_who': st.integers(0, 2),
        'compress': st.sampled_from([None, 0, 64])})

    def body(c, case):
        reentrant_case(c, case)
        if c.evaluations % 50 == 1:
            c.sample(case, 'reentrant')
    hyp(ctx, 'reentrant', strat, body, n)
    for v in (757, 340, 47):
        for cls in ('ie', 'io'):
            for d in range(3):
                incoming_disconnect_case(ctx, {
                    'version': v, 'n': 3, 'd': d, 'ie': ['Chat', 'Packet'],
                    'io': ['Packet', 'Chat'], 'cls': cls, 'who': d})
    strat2 = st.fixed_dictionaries({
        'version': st.sampled_from([757, 340, 47]),
        'n': st.integers(1, 6), 'd': st.integers(0, 5),
        'ie': st.lists(st.sampled_from(['Packet', 'Chat']), max_size=3),
        'io': st.lists(st.sampled_from(['Packet', 'Chat']), max_size=3),
        'cls': st.sampled_from(['ie', 'io']), 'who': st.integers(0, 2)})
    hyp(ctx, 'incoming_disconnect', strat2,
        lambda c, case: incoming_disconnect_case(c, case), max(40, n // 2))


def ignore_success_case(ctx, case):
    """IgnorePacket on login success from an early listener: no reactor
    change (the connection stays in the login state).  case {version}"""
    from minecraft.exceptions import IgnorePacket
    from minecraft.networking.packets import clientbound as cb
    v = case['version']
    ctx.ev()
    srv = servers.Server({'version': v, 'login': [('success',),
                                                  ('close',)]})
    world = vnet.World(servers=[srv])
    with vnet.installed(world):
        conn, o = servers.make_connection(world, allowed_versions={v})

        def ign(p):
            raise IgnorePacket
        conn.register_packet_listener(ign, cb.login.LoginSuccessPacket,
                                      early=True)
        later = []
        conn.register_packet_listener(later.append,
                                      cb.login.LoginSuccessPacket)
        conn.connect()
        world.settle()
        rn = type(conn.reactor).__name__
    if rn != 'LoginReactor' or later:
        ctx.fail('ignore_success', 'D2-reactor-changed-despite-ignore',
                 case, (rn, len(later)), ('LoginReactor', 0))
    ctx.nt('ignore_success', v)


COMPONENTS['ignore_success'] = ignore_success_case


def rewrite_case(ctx, case):
    """'Early outgoing listeners run before the write': what such a
    listener does to the packet (censor a chat message, fill in a field,
    rename the login) is what gets written, and the ordinary outgoing
    listeners afterwards see the packet as it was written.
    case {version, compress, msgs [..], forced [bool..], rename: bool}"""
    import time
    from minecraft.networking.packets import serverbound as sb
    version = case['version']
    ctx.ev()
    login = [('compress', case['compress'])] \
        if case.get('compress') is not None else []
    srv = servers.Server({'version': version, 'login': login + [('success',)],
                          'play': {'bursts': [], 'end': 'silent'}})
    world = vnet.World(servers=[srv])
    after = []
    with vnet.installed(world):
        conn, o = servers.make_connection(world, allowed_versions={version},
                                          username='RealName')

        def censor(p):
            p.message = p.message.replace('secret', '******') + '!'
        conn.register_packet_listener(censor, sb.play.ChatPacket,
                                      early=True, outgoing=True)
        if case.get('rename'):
            def rename(p):
                p.name = 'Renamed'
            conn.register_packet_listener(rename, sb.login.LoginStartPacket,
                                          early=True, outgoing=True)
        conn.register_packet_listener(
            lambda p: after.append(p.message), sb.play.ChatPacket,
            outgoing=True)
        try:
            conn.connect()
            for _ in range(5000):
                if srv.play_started and world.links:
                    break
                time.sleep(0.001)
            world.wait_idle(world.links[0], conn)
            flags = case.get('forced') or [False]
            for i, m in enumerate(case['msgs']):
                conn.write_packet(sb.play.ChatPacket(message=m),
                                  force=flags[i % len(flags)])
            ok = world.wait_idle(world.links[0], conn)
            excs = [repr(e[0]) for e in o.exceptions]
            conn.disconnect()
            state = world.settle()
        except Exception as e:
            ctx.fail('rewrite', 'D-raised', case, exc=e)
            world.kill_all()
            return
    if not ok or state != 'done' or srv.errors or excs:
        ctx.fail('rewrite', 'D2-malformed-client-stream', case,
                 (ok, state, srv.errors[:2], excs[:2]))
        world.kill_all()
        return
    want = [m.replace('secret', '******') + '!' for m in case['msgs']]
    chat_id = servers.packet_info(version, 'sb_chat')[0]
    got = [servers.decode(version, 'sb_chat', pl)['message']
           for pid, pl in srv.other_play_frames if pid == chat_id]
    if sorted(got) != sorted(want) or (
            not any(case.get('forced') or [False]) and got != want):
        ctx.fail('rewrite', 'D3-early-listener-change-not-written', case,
                 got[:6], want[:6])
        return
    if sorted(after) != sorted(want):
        ctx.fail('rewrite', 'D3-late-listener-saw-another-packet', case,
                 after[:6], want[:6])
        return
    want_name = 'Renamed' if case.get('rename') else 'RealName'
    if srv.login_name != want_name:
        ctx.fail('rewrite', 'D3-early-listener-change-not-written', case,
                 srv.login_name, want_name)
        return
    ctx.nt('rewrite', repr(case))
    ctx.label('rewrite')


COMPONENTS['rewrite'] = rewrite_case


def route_case(ctx, case):
    """'For every incoming packet ... each listener runs exactly once' - also
    for a packet that is read in the same pass of the networking loop in
    which writing a queued packet has just failed (the error is only raised
    after the read phase): C14's scenario in which the listener for that
    packet is the one that raises.  If it is skipped, its fault never
    happens (clause X-fault-not-injected)."""
    from props import c14_exceptions as P14
    P14.route_case(ctx, case)


COMPONENTS['route'] = route_case


def dead_peer_case(ctx, case):
    """'Ordinary outgoing listeners run after [the packet] has been
    written': when the flush inside disconnect() cannot write because the
    peer is gone, they do not run for the unwritten packets (C16's dead-peer
    scenario, which also registers such a listener)."""
    from props import c16_lifecycle as P16
    P16.dead_peer_disconnect_case(ctx, case)


COMPONENTS['dead_peer'] = dead_peer_case


def t_dead_peer(ctx):
    k = 0
    for v in (757, 47):
        for queued in (1, 3):
            for comp in (None, 64):
                k += 1
                dead_peer_case(ctx, {'version': v, 'queued': queued,
                                     'immediate': [False, 0][k % 2],
                                     'compress': comp,
                                     'then_connect': False})


def t_pending_write_error(ctx):
    from props import c14_exceptions as P14
    for origin in ('listener', 'early_listener'):
        for v in (757, 340, 47):
            for final in ('return', 'none'):
                for comp in (None, 64):
                    route_case(ctx, P14.fix_case({
                        'origin': origin, 'exc': 'B', 'chain': [],
                        'final': final, 'final_new': 'C', 'compress': comp,
                        'version': v, 'pending_write_error': True}))
    ctx.exhaustive_done('listener dispatch of a packet read while a write '
                        'error is pending: 2 stages x 3 protocols x 2 finals '
                        'x 2 compression modes')


def t_rewrite(ctx):
    k = 0
    for v in (757, 340, 47):
        for comp in (None, 0, 64):
            for msgs in (['my secret plan'], ['a', 'secret secret', 'x' * 100],
                         ['m%d secret' % i for i in range(40)]):
                for forced in ([False], [True], [False, True]):
                    k += 1
                    rewrite_case(ctx, {'version': v, 'compress': comp,
                                       'msgs': msgs, 'forced': forced,
                                       'rename': bool(k % 2)})
    ctx.sample({'version': 340, 'compress': 64, 'msgs': ['my secret plan'],
                'forced': [False], 'rename': True}, 'rewrite')
    ctx.exhaustive_done('early outgoing listeners that rewrite the packet: '
                        '3 protocols x 3 compression modes x 3 message sets '
                        'x queued / forced / mixed')


def t_ignore_success(ctx):
    for v in (757, 340, 47):
        ignore_success_case(ctx, {'version': v,
                                  'scenario': 'ignore login success'})


def t_random(ctx, n):
    def body(c, case):
        dispatch_case(c, case)
        if c.evaluations % 80 == 1:
            c.sample(case, 'random')
    hyp(ctx, 'random', case_strategy(), body, n)


def tasks(tier):
    q = tier == 'quick'
    tl = [('fixed', t_fixed, {}), ('ignore_success', t_ignore_success, {}),
          ('rewrite', t_rewrite, {}),
          ('pending_write_error', t_pending_write_error, {}),
          ('dead_peer', t_dead_peer, {})]
    for i in range(10 if q else 16):
        tl.append(('random_%d' % i, t_random, dict(n=300 if q else 2500)))
    for i in range(2 if q else 4):
        tl.append(('reentrant_%d' % i, t_reentrant,
                   dict(n=150 if q else 2500)))
    return tl
