"""C06 - per-version packet id tables are total and injective.
Exhaustive over supported versions x 4 states x 2 directions."""
from hypothesis import strategies as st

from vlib.runner import hyp

PROPERTY = 'C06'
LEVEL = 'exploration'
EXHAUSTIVE = True      # supported versions x 8 tables: enumerated completely
RULE = ('Every supported protocol version (enumerated from the version '
        'records) x the 8 state/direction tables: each class must resolve to '
        'an int id >= 0 without raising (T1), ids must be pairwise distinct '
        '(T2), the id->class dict each concrete reactor builds must have one '
        'entry per class and map each id to the class that owns it (T3), and '
        'the mapping built from Hypothesis-drawn permutations of the table '
        'must not depend on the order (T4). The remaining known versions are '
        'evaluated and reported as labels only. Non-trivial: (version, '
        'table) with >= 2 classes; distinct by (version, table).')
RULE += (' ' +
         'Round 11: every table is computed again in a process where an '
         'application has defined (not registered) a subclass of every '
         'library packet class; tables may contain library classes only. ')
LEVEL_TEXT = ('Complete enumeration of the finite configuration space '
              '(supported versions x states x directions) with an '
              'injectivity/totality oracle, plus sampled order permutations.')
LEVEL_NOTE = ('Exhaustive for the supported versions listed in the version '
              'records at run time. Trusted: Python dict/set semantics. Ids '
              'are only checked for distinctness here; their values are '
              'C07\'s subject.')
TECHNIQUE = ('exhaustive enumeration of versions x tables with an '
             'injectivity oracle; Hypothesis permutations for order '
             'independence')
ASSUMPTIONS = ['supported versions = records with supported=True']

TABLES = [(d, s) for d in ('clientbound', 'serverbound')
          for s in ('handshake', 'status', 'login', 'play')]


def _protocols():
    import minecraft
    sup, known = [], []
    for r in minecraft.KNOWN_MINECRAFT_VERSION_RECORDS:
        if r.protocol not in known:
            known.append(r.protocol)
        if r.supported and r.protocol not in sup:
            sup.append(r.protocol)
    return sup, known


def get_table(direction, state):
    import importlib
    m = importlib.import_module('minecraft.networking.packets.%s.%s'
                                % (direction, state))
    return m.get_packets


def _ctx(v):
    # one shared context reassigned per use (as Connection.connect() does),
    # so that per-context memoisation of ids/tables cannot hide
    from props import c04_position as P4
    return P4.ctx_for(v)


def _cname(c):
    return '%s.%s' % (c.__module__.split('packets.')[-1], c.__name__)


_USER_CLASSES = []


def ensure_user_subclasses():
    """An application that extends the library: one subclass of every
    packet class the library defines (registered or abstract), merely
    *defined* - nothing hands them to the library.  Kept for the life of the
    process; every later table is computed with them in existence."""
    if _USER_CLASSES:
        return
    from minecraft.networking.packets import Packet
    seen, todo = [], [Packet]
    while todo:
        c = todo.pop()
        for sub in c.__subclasses__():
            if sub not in seen and sub.__module__.startswith('minecraft.'):
                seen.append(sub)
                todo.append(sub)
    for c in sorted(seen, key=_cname):
        _USER_CLASSES.append(type('User' + c.__name__, (c,),
                                  {'__module__': 'application.extension'}))


def table_case(ctx, case):
    """case {version, direction, state, claimed: bool, order?: [int],
    user_subclasses?: bool}"""
    v, d, s = case['version'], case['direction'], case['state']
    if case.get('user_subclasses'):
        ensure_user_subclasses()
        ctx.label('tables_with_user_subclasses_defined')
    claimed = case.get('claimed')
    if claimed is None:
        # the property quantifies over the versions the tree under test
        # marks as supported
        claimed = v in _protocols()[0]
    c = _ctx(v)
    ctx.ev()
    try:
        classes = sorted(get_table(d, s)(c), key=_cname)
    except Exception as e:
        if claimed:
            ctx.fail('table', 'T1-get_packets-raises', case, exc=e)
        else:
            ctx.label('unsupported_version_table_raises')
        return
    if len(classes) >= 2 and claimed:
        ctx.nt(v, d, s)
    foreign = [_cname(x) for x in classes
               if not x.__module__.startswith('minecraft.')]
    if foreign and claimed:
        ctx.fail('table', 'T1-class-nobody-registered-in-table', case,
                 foreign[:4], 'only the classes the library registers')
        return
    ids = {}
    bad = False
    for cls in classes:
        try:
            i = cls.get_id(c)
        except Exception as e:
            bad = True
            if claimed:
                ctx.fail('table', 'T1-get_id-raises',
                         dict(case, cls=_cname(cls)), exc=e)
            continue
        if type(i) is not int or i < 0:
            bad = True
            if claimed:
                ctx.fail('table', 'T1-id-not-nonneg-int',
                         dict(case, cls=_cname(cls)), repr(i))
            continue
        ids.setdefault(i, []).append(cls)
    for i, cl in sorted(ids.items()):
        if len(cl) > 1:
            bad = True
            if claimed:
                ctx.fail('table', 'T2-collision',
                         dict(case, id=i, classes=[_cname(x) for x in cl]),
                         '%s share id 0x%02X at protocol %d'
                         % ([_cname(x) for x in cl], i, v), 'distinct ids')
            else:
                ctx.label('unsupported_version_collision')
    if not claimed:
        return
    if 'order' in case and not bad:
        order = case['order']
        perm = [classes[k % len(classes)] for k in order] if classes else []
        m1 = {cls.get_id(c): cls for cls in perm}
        m0 = {cls.get_id(c): cls for cls in classes}
        if set(perm) == set(classes) and m1 != m0:
            ctx.fail('table', 'T4-order-dependent', case)
    # T3: the concrete reactor for clientbound tables
    if d == 'clientbound':
        from minecraft.networking import connection as C
        R = {'handshake': C.PacketReactor, 'status': C.StatusReactor,
             'login': C.LoginReactor, 'play': C.PlayingReactor}[s]

        class Dummy(object):
            context = c
        try:
            r = R(Dummy())
        except Exception as e:
            ctx.fail('table', 'T3-reactor-raises', case, exc=e)
            return
        tab = r.clientbound_packets
        if len(tab) != len(classes) and not bad:
            ctx.fail('table', 'T3-reactor-table-size', case, len(tab),
                     len(classes))
        for cls in classes:
            try:
                i = cls.get_id(c)
            except Exception:
                continue
            if tab.get(i) is not cls and len(ids.get(i, [])) == 1:
                ctx.fail('table', 'T3-reactor-wrong-class',
                         dict(case, cls=_cname(cls)),
                         _cname(tab[i]) if i in tab else None, _cname(cls))


from props import c04_position as _P4   # noqa: E402
table_case = _P4.reassigned(table_case)
COMPONENTS = {'table': table_case}


def t_all(ctx, lo, hi):
    sup, known = _protocols()
    for v in sup[lo:hi]:
        for d, s in TABLES:
            table_case(ctx, {'version': v, 'direction': d, 'state': s})
    # the same again in a process where an application has defined its own
    # subclasses of the library's packet classes
    for v in sup[lo:hi]:
        for d, s in TABLES:
            table_case(ctx, {'version': v, 'direction': d, 'state': s,
                             'user_subclasses': True})
    ctx.sample({'version': sup[lo], 'direction': 'clientbound',
                'state': 'play'})
    ctx.exhaustive_done('supported versions x 8 tables (T1-T3)')


def t_unsupported(ctx):
    sup, known = _protocols()
    for v in known:
        if v in sup:
            continue
        for d, s in TABLES:
            table_case(ctx, {'version': v, 'direction': d, 'state': s,
                             'claimed': False})
    ctx.exhaustive_done('other known versions x 8 tables (reported only)')


def t_orders(ctx, n):
    sup, known = _protocols()

    def body(c, t):
        v, (d, s), order = t
        table_case(c, {'version': v, 'direction': d, 'state': s,
                       'order': order})
    strat = st.tuples(st.sampled_from(sup), st.sampled_from(TABLES),
                      st.permutations(list(range(30))))
    hyp(ctx, 'orders', strat, body, n)


def tasks(tier):
    q = tier == 'quick'
    sup, known = _protocols()
    n = len(sup)
    nsh = 8
    tl = [('sup_%d' % i, t_all, dict(lo=n * i // nsh, hi=n * (i + 1) // nsh))
          for i in range(nsh)]
    tl.append(('unsupported', t_unsupported, {}))
    for i in range(2 if q else 6):
        tl.append(('orders_%d' % i, t_orders, dict(n=400 if q else 5000)))
    return tl
