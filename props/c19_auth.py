"""C19 - auth token state follows the Yggdrasil replies; errors leave it
untouched.  Operation histories against a local HTTP stand-in and a model
of the documented API."""
import json
import os
import threading
from http.server import BaseHTTPRequestHandler, HTTPServer

from hypothesis import strategies as st

from vlib.runner import hyp

PROPERTY = 'C19'
LEVEL = 'exploration'
RULE = ('Error objects also with JSON null as error / errorMessage '
        '(still error objects). '
'Initial token state: every subset of {username, access token, '
        'client token, profile id, profile name} present (non-empty '
        'strings); then a history of 1-25 operations over authenticate, '
        'refresh, validate, invalidate, join, sign_out, each with a '
        'scheduled reply from a local HTTP stand-in: status in {200, 204, '
        '400, 401, 403, 404, 429, 500, 503} x body in {valid result, full '
        'error object (+/- cause), partial error object, JSON null / number '
        '/ string / array, non-JSON text, empty}. Oracle = model of the '
        'documented API: authenticated <=> all five fields present (Y1); '
        'exactly one POST to the documented path with content-type '
        'application/json and the documented JSON payload, or none when a '
        'precondition fails (Y2); authenticate/refresh store exactly the '
        'returned tokens and profile and return True, validate True only '
        'for 204, invalidate/join True for 204, sign_out True for 200 (Y3); '
        'HTTP error status on any operation but validate raises '
        'YggdrasilError with the status code and the service\'s error '
        'fields, or a "Malformed" message for any other body (Y4); after '
        'any raised error every stored field is unchanged (Y5); a second '
        'token object alive during the history and a token constructed '
        'after it hold nothing (Y6). '
        'Non-trivial: a history with an error reply on a populated token '
        'followed by a successful operation; distinct by history.')
RULE += (' ' +
         'Added in later rounds: null-valued error bodies; independence of '
         'tokens; overlapping operations (A suspended at every line, B '
         'complete in between) on shared and separate tokens, and a failing '
         'operation overlapped by a succeeding, storing one on the same '
         'token (the token must hold what the successful one stored). Round '
         '11: error bodies with raw non-ASCII text in Latin-1 and UTF-8 '
         'under declared and undeclared charsets. Round 12: successful '
         'replies that keep chosen fields constant (same profile id with a '
         'new name, unchanged tokens). Round 13: well-formed error objects '
         'of 20 kB and 300 kB. Round 14: error objects with JSON whitespace '
         'before / after. Round 15: error objects with further members '
         '(status_code, message, self, args, 0 ...) and format-like text. ')
LEVEL_TEXT = ('Model-based testing of the token operations over generated '
              'histories x reply shapes, with all 32 initial field subsets '
              'enumerated, against a local HTTP stand-in (real requests '
              'library, real HTTP).')
LEVEL_NOTE = ('Trusted: the local stand-in (http.server) and the model '
              'written from the docstrings / docs/authentication.rst. '
              'Replies the documentation does not cover (200 with a garbage '
              'body, 204 for authenticate/refresh/sign_out) are generated '
              'only where stated and otherwise not asserted.')
TECHNIQUE = ('model-based property testing of operation histories against '
             'a local HTTP stand-in')
ASSUMPTIONS = ['auth fields are None or non-empty strings',
               'loopback HTTP is available']

ERR_STATUS = [400, 401, 403, 404, 429, 500, 503]


class _Handler(BaseHTTPRequestHandler):
    protocol_version = 'HTTP/1.0'

    def do_POST(self):
        srv = self.server
        n = int(self.headers.get('content-length') or 0)
        body = self.rfile.read(n)
        srv.requests.append({'path': self.path,
                             'ctype': self.headers.get('content-type'),
                             'body': body})
        status, data, ctype = getattr(srv, 'reply_by_path', {}).get(
            self.path) or srv.next_reply
        self.send_response(status)
        if status != 204:
            self.send_header('Content-Type', ctype)
            self.send_header('Content-Length', str(len(data)))
        self.end_headers()
        if status != 204:
            self.wfile.write(data)

    def log_message(self, *a):
        pass


_server = {}


def stand_in():
    if _server.get('pid') != os.getpid():     # not inherited over fork
        _server.clear()
        _server['pid'] = os.getpid()
        os.environ['NO_PROXY'] = '*'
        os.environ['no_proxy'] = '*'
        srv = HTTPServer(('127.0.0.1', 0), _Handler)
        srv.requests = []
        srv.next_reply = (500, b'', 'text/plain')
        t = threading.Thread(target=srv.serve_forever, daemon=True)
        t.start()
        from minecraft import authentication as A
        base = 'http://127.0.0.1:%d' % srv.server_address[1]
        A.AUTH_SERVER = base
        A.SESSION_SERVER = base + '/session/minecraft'
        _server['srv'] = srv
    return _server['srv']


def valid_fields(kind, k):
    """what a successful reply of this kind returns at step k: fresh values,
    except that 'valid:<letters>' keeps the named ones (a access token,
    c client token, i profile id, n profile name) the same in every reply -
    a renamed player keeps the id, a refresh may return the old tokens"""
    same = kind[6:] if kind.startswith('valid:') else ''
    return tuple(('%sS' % base) if letter in same else '%s%d' % (base, k)
                 for letter, base in (('a', 'acc'), ('c', 'cli'),
                                      ('i', 'pid'), ('n', 'Name')))


def body_for(kind, op, k):
    """-> (bytes, content type, parsed-error-or-None)"""
    if kind == 'valid' or kind.startswith('valid:'):
        a, c, i, n = valid_fields(kind, k)
        d = {'accessToken': a, 'clientToken': c,
             'selectedProfile': {'id': i, 'name': n},
             'availableProfiles': []}
        return json.dumps(d).encode(), 'application/json', None
    if kind == 'full':
        d = {'error': 'ForbiddenOperationException',
             'errorMessage': 'Invalid credentials %d.' % k}
        return json.dumps(d).encode(), 'application/json', d
    if kind == 'full_extra':
        # an error object with further members - among them names that
        # collide with keyword names a formatter might use
        d = {'error': 'ForbiddenOperationException',
             'errorMessage': 'Invalid credentials %d. {0} {status_code} %%s' % k,
             'cause': 'UserMigratedException', 'status_code': 599,
             'status': 'x', 'path': '/authenticate', 'timestamp': 1,
             'error_message': 'other', 'message': 'm', 'self': 1,
             'format_spec': '', 'args': [1], 'kwargs': {'a': 1}, '0': 'z'}
        return json.dumps(d).encode(), 'application/json', d
    if kind.startswith('full_ws'):
        # insignificant JSON whitespace around the error object
        d = {'error': 'ForbiddenOperationException',
             'errorMessage': 'Invalid token %d.' % k}
        pre, post = {'full_ws_lf': ('\n', ''), 'full_ws_crlf': ('\r\n', '\r\n'),
                     'full_ws_sp': ('  \t', ' '), 'full_ws_tail': ('', '\n\n')
                     }[kind]
        return (pre + json.dumps(d, indent=1) + post).encode(), \
            'application/json', d
    if kind in ('full_big', 'full_huge'):
        # a well-formed error object of unusual size (a stack trace in
        # 'cause'): still an error object
        n = 20000 if kind == 'full_big' else 300000
        d = {'error': 'IllegalStateException',
             'errorMessage': 'Internal error %d.' % k,
             'cause': 'at com.mojang.Something(line %d) ' % k * (n // 34)}
        return json.dumps(d).encode(), 'application/json', d
    if kind in ('full_latin1', 'full_utf8_raw', 'full_utf8_charset'):
        # non-ASCII text sent raw (not \\u-escaped), in the character set the
        # Content-Type declares (JSON's default UTF-8 when it declares none)
        d = {'error': 'ForbiddenOperationException',
             'errorMessage': 'Ung\u00fcltige Anmeldedaten \u00e9\u00df %d.' % k,
             'cause': '\u00dcberlastet'}
        enc, ct = {'full_latin1': ('latin-1',
                                   'application/json; charset=ISO-8859-1'),
                   'full_utf8_raw': ('utf-8', 'application/json'),
                   'full_utf8_charset': ('utf-8',
                                         'application/json; charset=UTF-8')
                   }[kind]
        return json.dumps(d, ensure_ascii=False).encode(enc), ct, d
    if kind == 'full_cause':
        d = {'error': 'IllegalArgumentException',
             'errorMessage': 'msg é %d' % k, 'cause': 'UserMigrated'}
        return json.dumps(d).encode(), 'application/json', d
    if kind in ('null_message', 'null_error'):
        # still an error object: both keys are present (JSON null values)
        d = {'error': 'ForbiddenOperationException' if kind == 'null_message'
             else None,
             'errorMessage': None if kind == 'null_message' else 'msg %d' % k,
             'cause': 'UserMigratedException'}
        return json.dumps(d).encode(), 'application/json', d
    raw = {'partial_error': b'{"error": "X"}',
           'partial_msg': b'{"errorMessage": "Y"}', 'null': b'null',
           'number': b'42', 'string': b'"error errorMessage"',
           'array': b'["error", "errorMessage"]', 'text': b'<html>oops',
           'empty': b'', 'true': b'true'}[kind]
    return raw, 'application/json' if kind != 'text' else 'text/html', None


FIELDS = ('username', 'access_token', 'client_token', 'pid', 'pname')


def snapshot(tok):
    return (tok.username, tok.access_token, tok.client_token,
            tok.profile.id_, tok.profile.name)


def history_case(ctx, case):
    """case {initial: [bool x5], ops: [(op, args.., status, body kind)]}"""
    from minecraft import authentication as A
    dirty = snapshot(A.AuthenticationToken()) != (None,) * 5
    try:
        _history_case(ctx, case)
    finally:
        # whatever happened to the tokens of this case, a token constructed
        # afterwards with defaults holds nothing (checked on every exit path
        # so that the case reported is the one that caused the leak)
        if not dirty and snapshot(A.AuthenticationToken()) != (None,) * 5:
            ctx.fail('history', 'Y6-other-token-changed', case,
                     snapshot(A.AuthenticationToken()), (None,) * 5)


def _history_case(ctx, case):
    from minecraft import authentication as A
    from minecraft.exceptions import YggdrasilError
    srv = stand_in()
    ctx.ev()
    init = case['initial']
    # The agent named in the authenticate payload is the token's AGENT_NAME /
    # AGENT_VERSION (class constants read through the instance: "Minecraft",
    # 1 unless a subclass or an instance says otherwise, e.g. the "Scrolls"
    # agent of the same service).  Which form a case uses follows from its
    # content, so replay files need no extra member.
    akind = (len(case['ops']) + sum(1 for x in init if x)) % 4
    token_class, agent = A.AuthenticationToken, {'name': 'Minecraft',
                                                 'version': 1}
    if akind == 1:
        class ScrollsToken(A.AuthenticationToken):
            AGENT_NAME = 'Scrolls'
        token_class, agent = ScrollsToken, {'name': 'Scrolls', 'version': 1}
        ctx.label('agent_overridden_in_subclass')
    tok = token_class(
        username='user0' if init[0] else None,
        access_token='acc0' if init[1] else None,
        client_token='cli0' if init[2] else None)
    if akind == 2:
        tok.AGENT_VERSION = 2
        agent = {'name': 'Minecraft', 'version': 2}
        ctx.label('agent_overridden_on_instance')
    # a second, untouched token object alive next to the one under test:
    # tokens are independent objects, so nothing done to one may show in the
    # other, and a token constructed with defaults holds nothing
    other = A.AuthenticationToken()
    if snapshot(other) != (None,) * 5:
        return      # leaked by an earlier case, reported there
    # absent profile fields are left at the constructor's default
    if init[3]:
        tok.profile.id_ = 'pid0'
    if init[4]:
        tok.profile.name = 'Name0'
    model = list(snapshot(tok))
    want0 = ['user0' if init[0] else None, 'acc0' if init[1] else None,
             'cli0' if init[2] else None, 'pid0' if init[3] else None,
             'Name0' if init[4] else None]
    if model != want0:
        ctx.fail('history', 'Y6-constructed-token-state',
                 {'initial': init, 'ops': []}, model, want0)
        return
    had_error_on_populated = False
    good_after_error = False
    for step, op in enumerate(case['ops']):
        name, status, kind = op[0], op[-2], op[-1]
        sub = {'initial': init, 'ops': case['ops'][:step + 1]}
        data, ctype, err = body_for(kind, name, step + 1)
        srv.next_reply = (status, data, ctype)
        del srv.requests[:]
        before = snapshot(tok)
        if snapshot(other) != (None,) * 5:
            ctx.fail('history', 'Y6-other-token-changed',
                     {'initial': init, 'ops': case['ops'][:step]},
                     snapshot(other), (None,) * 5)
            return
        # Y1
        want_auth = all(v is not None for v in model)
        if bool(tok.authenticated) is not want_auth:
            ctx.fail('history', 'Y1-authenticated', sub, tok.authenticated,
                     want_auth)
            return
        result = exc = None
        try:
            if name == 'authenticate':
                result = tok.authenticate(op[1], op[2], op[3])
            elif name == 'refresh':
                result = tok.refresh()
            elif name == 'validate':
                result = tok.validate()
            elif name == 'invalidate':
                result = tok.invalidate()
            elif name == 'join':
                result = tok.join(op[1])
            elif name == 'sign_out':
                result = A.AuthenticationToken.sign_out(op[1], op[2])
        except Exception as e:
            exc = e
        reqs = list(srv.requests)
        # ---- preconditions: no request at all
        pre_fail = None
        if name == 'refresh' and (model[1] is None or model[2] is None):
            pre_fail = ValueError
        if name == 'validate' and model[1] is None:
            pre_fail = ValueError
        if name == 'join' and not want_auth:
            pre_fail = YggdrasilError
        if pre_fail is not None:
            if reqs:
                ctx.fail('history', 'Y2-request-despite-precondition', sub,
                         reqs[0]['path'], 'no request')
            if not isinstance(exc, pre_fail):
                ctx.fail('history', 'Y2-precondition-error', sub, repr(exc),
                         pre_fail.__name__)
            if snapshot(tok) != before:
                ctx.fail('history', 'Y5-state-changed-on-error', sub,
                         snapshot(tok), before)
                return
            ctx.label('precondition_refused')
            continue
        # ---- Y2: exactly one documented request
        if len(reqs) != 1:
            ctx.fail('history', 'Y2-request-count', sub, len(reqs), 1)
            return
        r = reqs[0]
        want_path = {'authenticate': '/authenticate', 'refresh': '/refresh',
                     'validate': '/validate', 'invalidate': '/invalidate',
                     'sign_out': '/signout',
                     'join': '/session/minecraft/join'}[name]
        try:
            payload = json.loads(r['body'].decode('utf-8'))
        except ValueError:
            payload = None
        if r['path'] != want_path or \
                (r['ctype'] or '').split(';')[0].strip() != \
                'application/json':
            ctx.fail('history', 'Y2-endpoint', sub, (r['path'], r['ctype']),
                     (want_path, 'application/json'))
        if name == 'authenticate':
            want = {'agent': dict(agent),
                    'username': op[1], 'password': op[2]}
            ok = isinstance(payload, dict)
            if ok and not op[3]:
                ct = payload.pop('clientToken', None)
                ok = isinstance(ct, str) and ct != '' and \
                    (model[2] is None or ct == model[2])
            ok = ok and payload == want
        elif name == 'refresh':
            ok = payload == {'accessToken': model[1],
                             'clientToken': model[2]}
        elif name == 'validate':
            ok = payload == {'accessToken': model[1]}
        elif name == 'invalidate':
            ok = payload == {'accessToken': model[1],
                             'clientToken': model[2]}
        elif name == 'sign_out':
            ok = payload == {'username': op[1], 'password': op[2]}
        else:
            ok = payload == {'accessToken': model[1],
                             'selectedProfile': {'id': model[3],
                                                 'name': model[4]},
                             'serverId': op[1]}
        if not ok:
            ctx.fail('history', 'Y2-payload', sub, payload)
        # ---- outcome
        if name == 'validate':
            if exc is not None:
                if status >= 400 and isinstance(exc, YggdrasilError):
                    pass      # the docstring allows raising
                else:
                    ctx.fail('history', 'Y3-validate-raised', sub, repr(exc))
            elif (result is True) != (status == 204):
                ctx.fail('history', 'Y3-validate-result', sub, result,
                         status == 204)
            if snapshot(tok) != before:
                ctx.fail('history', 'Y5-validate-changed-state', sub)
                return
            continue
        if status >= 400:
            # Y4
            if not isinstance(exc, YggdrasilError):
                ctx.fail('history', 'Y4-error-type', sub, repr(exc),
                         'YggdrasilError')
            else:
                if exc.status_code != status:
                    ctx.fail('history', 'Y4-status-code', sub,
                             exc.status_code, status)
                if err is not None:
                    if (exc.yggdrasil_error, exc.yggdrasil_message,
                        exc.yggdrasil_cause) != (
                            err['error'], err['errorMessage'],
                            err.get('cause')) or any(
                                err[k_] is not None and
                                err[k_] not in str(exc)
                                for k_ in ('error', 'errorMessage')):
                        ctx.fail('history', 'Y4-error-fields', sub,
                                 (exc.yggdrasil_error, exc.yggdrasil_message,
                                  exc.yggdrasil_cause, str(exc)), err)
                else:
                    if 'alformed' not in str(exc) or (
                            exc.yggdrasil_error, exc.yggdrasil_message,
                            exc.yggdrasil_cause) != (None, None, None):
                        ctx.fail('history', 'Y4-malformed', sub,
                                 (str(exc), exc.yggdrasil_error), 'Malformed')
            if snapshot(tok) != before:
                ctx.fail('history', 'Y5-state-changed-on-error', sub,
                         snapshot(tok), before)
                return
            if all(v is not None for v in model):
                had_error_on_populated = True
            ctx.label('error_reply')
            continue
        # success statuses
        if exc is not None and snapshot(tok) != before:
            ctx.fail('history', 'Y5-state-changed-on-error', sub,
                     snapshot(tok), before)
            return
        if name in ('authenticate', 'refresh') and status == 200 and \
                (kind == 'valid' or kind.startswith('valid:')):
            k = step + 1
            if exc is not None or result is not True:
                ctx.fail('history', 'Y3-success-result', sub,
                         repr(exc or result), True)
                return
            if name == 'authenticate':
                model[0] = op[1]
            model[1:] = list(valid_fields(kind, k))
            if list(snapshot(tok)) != model:
                ctx.fail('history', 'Y3-stored-fields', sub, snapshot(tok),
                         model)
                return
            if had_error_on_populated:
                good_after_error = True
            ctx.label('success_' + name)
        elif name in ('invalidate', 'join') and status == 204:
            if exc is not None or result is not True:
                ctx.fail('history', 'Y3-success-result', sub,
                         repr(exc or result), True)
            if snapshot(tok) != before:
                ctx.fail('history', 'Y5-state-changed', sub)
                return
            if had_error_on_populated:
                good_after_error = True
            ctx.label('success_' + name)
        elif name == 'sign_out' and status == 200:
            if exc is not None or result is not True:
                ctx.fail('history', 'Y3-success-result', sub,
                         repr(exc or result), True)
            ctx.label('success_sign_out')
        else:
            ctx.label('unspecified_reply')
            model = list(snapshot(tok)) if exc is None else model
    if snapshot(other) != (None,) * 5:
        ctx.fail('history', 'Y6-other-token-changed', case,
                 snapshot(other), (None,) * 5)
        return
    if good_after_error:
        ctx.nt(repr(case))


def overlap_case(ctx, case):
    """Two operations overlapping in time (two connections logging in with
    one shared token, or two tokens used by two threads): operation A is
    suspended at its k-th line inside the library, B runs to completion, A
    resumes.  The requests posted, the results and the stored state must be
    what each operation produces alone.  case {a: [op, args..], b: [...],
    same_token: bool, k}; with one shared token only operations that do not
    store anything (join, validate, invalidate)."""
    from minecraft import authentication as A
    from vlib.budget import run_interleaved
    srv = stand_in()
    ctx.ev()
    srv.reply_by_path = {
        '/authenticate': (200,) + body_for('valid', 'authenticate', 9)[:2],
        '/refresh': (200,) + body_for('valid', 'refresh', 9)[:2],
        '/validate': (204, b'', 'text/plain'),
        '/invalidate': (204, b'', 'text/plain'),
        '/session/minecraft/join': (204, b'', 'text/plain')}

    fails = case.get('a_fails')
    if fails:
        # A ends in an HTTP error reply ('without altering stored
        # credentials') while B, on the same token, succeeds in between
        paths = {'authenticate': '/authenticate', 'refresh': '/refresh',
                 'validate': '/validate', 'invalidate': '/invalidate',
                 'join': '/session/minecraft/join',
                 'sign_out': '/signout'}
        b_, ct_, _e = body_for(fails[1], case['a'][0], 3)
        srv.reply_by_path[paths[case['a'][0]]] = (fails[0], b_, ct_)

    def token(tag):
        t = A.AuthenticationToken(username='user' + tag,
                                  access_token='acc' + tag,
                                  client_token='cli' + tag)
        t.profile.id_ = 'pid' + tag
        t.profile.name = 'Name' + tag
        return t

    def call(tok, op):
        name = op[0]
        if name == 'join':
            return lambda: tok.join(op[1])
        if name == 'authenticate':
            return lambda: tok.authenticate(op[1], op[2])
        return getattr(tok, name)

    def body_of(r):
        try:
            return json.loads(r['body'].decode('utf-8'))
        except ValueError:
            return r['body']

    def outcome(fn):
        # an operation's result: its return value or the error it raises
        def run():
            try:
                return ('returned', fn())
            except Exception as e:
                return ('raised', type(e).__name__,
                        getattr(e, 'status_code', None), str(e))
        return run
    try:
        alone = []
        for tag, op in (('A', case['a']), ('B', case['b'])):
            t = token('A' if case['same_token'] else tag)
            del srv.requests[:]
            res = outcome(call(t, op))()
            alone.append((res, [(r['path'], body_of(r))
                                for r in srv.requests], snapshot(t)))
        ta = token('A')
        tb = ta if case['same_token'] else token('B')
        del srv.requests[:]
        ra, rb, ran = run_interleaved(outcome(call(ta, case['a'])),
                                      outcome(call(tb, case['b'])),
                                      case['k'])
        reqs = [(r['path'], body_of(r)) for r in srv.requests]
    except Exception as e:
        ctx.fail('overlap', 'Y-overlapping-operations-raise', case, exc=e)
        return
    finally:
        srv.reply_by_path = {}
    if not ran:
        ctx.label('overlap_point_beyond_call')
        return
    if fails:
        # A stores nothing at any point, so the token ends up holding what
        # B stored; A's request may be built from the credentials before or
        # after B's store (only its endpoint is compared)
        if (alone[0][0][0] != 'raised' and case['a'][0] != 'validate') or \
                alone[1][0][0] != 'returned':
            from vlib.core import HarnessError
            raise HarnessError('C19 overlap: stand-in replies %r' % (alone,))
        if sorted(p_ for p_, b_ in reqs) != sorted(
                p_ for p_, b_ in alone[0][1] + alone[1][1]):
            ctx.fail('overlap', 'Y2-payload', case, reqs,
                     alone[0][1] + alone[1][1])
            return
        if (ra, rb) != (alone[0][0], alone[1][0]):
            ctx.fail('overlap', 'Y4-results', case, (ra, rb),
                     (alone[0][0], alone[1][0]))
            return
        if snapshot(ta) != alone[1][2]:
            ctx.fail('overlap', 'Y4-failed-operation-altered-credentials',
                     case, snapshot(ta), alone[1][2])
            return
        ctx.nt('overlap', repr(case))
        ctx.label('overlap_failing_with_succeeding')
        return
    want_reqs = alone[0][1] + alone[1][1]
    key = lambda r: json.dumps(r, sort_keys=True, default=repr)   # noqa
    if sorted(map(key, reqs)) != sorted(map(key, want_reqs)):
        ctx.fail('overlap', 'Y2-payload', case, reqs, want_reqs)
        return
    if (ra, rb) != (alone[0][0], alone[1][0]) or \
            snapshot(ta) != alone[0][2] or \
            (not case['same_token'] and snapshot(tb) != alone[1][2]):
        ctx.fail('overlap', 'Y3-stored-fields', case,
                 (ra, rb, snapshot(ta), snapshot(tb)),
                 (alone[0][0], alone[1][0], alone[0][2], alone[1][2]))
        return
    ctx.nt('overlap', repr(case))
    ctx.label('overlap')


COMPONENTS = {'history': history_case, 'overlap': overlap_case}


def op_strategy():
    err_body = st.sampled_from(['full', 'full_cause', 'partial_error',
                                'partial_msg', 'null', 'number', 'string',
                                'array', 'text', 'empty', 'true',
                                'null_message', 'null_error', 'full_latin1',
                                'full_utf8_raw', 'full_utf8_charset',
                                'full_big', 'full_huge', 'full_ws_lf',
                                'full_ws_crlf', 'full_ws_sp',
                                'full_ws_tail', 'full_extra'])
    err = st.tuples(st.sampled_from(ERR_STATUS), err_body)
    user = st.sampled_from(['alice@example.org', 'bob', 'é'])
    pw = st.sampled_from(['hunter2', ''])
    auth = st.one_of(st.just((200, 'valid')), st.just((200, 'valid')),
                     st.sampled_from(['valid:i', 'valid:n', 'valid:ac',
                                      'valid:in', 'valid:a', 'valid:aci',
                                      'valid:acin']).map(lambda k_: (200, k_)),
                     err)
    ok204 = st.one_of(st.just((204, 'empty')), st.just((204, 'empty')), err,
                      st.just((200, 'empty')))
    return st.one_of(
        st.tuples(st.just('authenticate'), user, pw, st.booleans(),
                  auth).map(lambda t: t[:4] + t[4]),
        st.tuples(st.just('refresh'), auth).map(lambda t: t[:1] + t[1]),
        st.tuples(st.just('validate'), ok204).map(lambda t: t[:1] + t[1]),
        st.tuples(st.just('invalidate'), ok204).map(lambda t: t[:1] + t[1]),
        st.tuples(st.just('join'), st.sampled_from(['-', 'abc', '']),
                  ok204).map(lambda t: t[:2] + t[2]),
        st.tuples(st.just('sign_out'), user, pw,
                  st.one_of(st.just((200, 'empty')), err)).map(
                      lambda t: t[:3] + t[3]))


def t_subsets(ctx, lo, hi):
    """every subset of initial fields x every operation x key replies"""
    import itertools
    subsets = list(itertools.product([False, True], repeat=5))[lo:hi]
    replies = [(200, 'valid'), (204, 'empty'), (403, 'full'),
               (500, 'null'), (400, 'text'), (429, 'partial_error'),
               (403, 'null_message'), (503, 'null_error'),
               (403, 'full_latin1'), (401, 'full_utf8_raw'),
               (403, 'full_utf8_charset'), (500, 'full_big'),
               (403, 'full_huge'), (403, 'full_ws_lf'),
               (400, 'full_ws_crlf'), (403, 'full_ws_sp'),
               (403, 'full_extra')]
    for init in subsets:
        for rep in replies:
            for op in (('authenticate', 'u', 'p', False),
                       ('authenticate', 'u', 'p', True), ('refresh',),
                       ('validate',), ('invalidate',), ('join', 'sid'),
                       ('sign_out', 'u', 'p')):
                if rep == (204, 'empty') and op[0] in ('authenticate',
                                                       'refresh',
                                                       'sign_out'):
                    continue
                if rep == (200, 'valid') and op[0] in ('validate',
                                                       'invalidate', 'join'):
                    continue
                history_case(ctx, {'initial': list(init),
                                   'ops': [op + rep]})
    # a renamed player (same profile id, new name), unchanged tokens, ...
    for seq in (['valid', 'valid:i', 'valid:i'], ['valid:n', 'valid:n'],
                ['valid', 'valid:ac', 'valid:aci'], ['valid:acin'] * 2,
                ['valid:i', 'valid', 'valid:i']):
        for first in ('authenticate', 'refresh'):
            ops = [((('authenticate', 'u', 'p', False) if j == 0 and
                     first == 'authenticate' else ('refresh',)) + (200, k_))
                   for j, k_ in enumerate(seq)] + [('join', 'sid', 204,
                                                    'empty')]
            history_case(ctx, {'initial': [True] * 5, 'ops': ops})
    ctx.sample({'initial': [True, True, False, True, False],
                'ops': [('refresh', 403, 'full')]}, 'subsets')
    ctx.exhaustive_done('all 32 initial field subsets x 7 operations x 17 '
                        'reply classes (single step)')


def t_overlap(ctx, part):
    ro = [['join', 'hashA'], ['join', '-5f3a'], ['validate'], ['invalidate']]
    rw = ro + [['refresh'], ['authenticate', 'bob', 'pw']]
    for same in (True, False):
        if part != (0 if same else 1):
            continue
        ops = ro if same else rw
        for a in ops:
            for b in ops:
                if a == b and a[0] != 'join':
                    continue
                if a[0] == 'join' and b[0] == 'join' and a == b:
                    b = ['join', 'other-' + a[1]]
                for k in range(1, 80):
                    before = ctx.labels.get('overlap_point_beyond_call', 0)
                    overlap_case(ctx, {'a': a, 'b': b, 'same_token': same,
                                       'k': k})
                    if ctx.labels.get('overlap_point_beyond_call',
                                      0) > before:
                        break
    # a failing operation overlapped by a succeeding, storing one on the
    # same token
    store = [['refresh'], ['authenticate', 'bob', 'pw']]
    for a in rw:
        for b in store:
            if a[0] == b[0]:
                continue
            for fi, fl in enumerate(([403, 'full'], [500, 'text'],
                                     [400, 'partial_error'])):
                if part != 2 + fi:
                    continue
                for k in range(1, 80):
                    before = ctx.labels.get('overlap_point_beyond_call', 0)
                    overlap_case(ctx, {'a': a, 'b': b, 'same_token': True,
                                       'k': k, 'a_fails': fl})
                    if ctx.labels.get('overlap_point_beyond_call',
                                      0) > before:
                        break
    ctx.sample({'a': ['join', 'hashA'], 'b': ['join', 'other-hashA'],
                'same_token': True, 'k': 5}, 'overlap')
    ctx.exhaustive_done('overlapping operations: every line of A as the '
                        'suspension point, shared token (read-only '
                        'operations) and two tokens (all operations)')


def t_random(ctx, n):
    strat = st.fixed_dictionaries({
        'initial': st.lists(st.booleans(), min_size=5, max_size=5),
        'ops': st.lists(op_strategy(), min_size=1, max_size=25)})

    def body(c, case):
        history_case(c, case)
        if c.evaluations % 60 == 1:
            c.sample(case, 'history')
    hyp(ctx, 'random', strat, body, n)


def tasks(tier):
    q = tier == 'quick'
    tl = [('overlap_%d' % i, t_overlap, dict(part=i)) for i in range(5)]
    for i in range(4):
        tl.append(('subsets_%d' % i, t_subsets, dict(lo=8 * i, hi=8 * i + 8)))
    for i in range(8 if q else 14):
        tl.append(('random_%d' % i, t_random, dict(n=250 if q else 3000)))
    return tl
