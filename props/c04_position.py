"""C04 - block positions use the 26/12/26-bit packing of the connection's
protocol; chunk-section positions and multi-block records are exact
inverses.  Differential against vlib.wire, exhaustive over versions."""
import itertools

from hypothesis import strategies as st

from vlib import wire
from vlib.budget import CountingStream, Sink
from vlib.runner import hyp

PROPERTY = 'C04'
LEVEL = 'exploration'
RULE = ('Through a connection: a packet with a Position field and a '
        'context of another version written via Connection.write_packet goes '
        'out in the layout of the connection\'s version. '
        'All known protocol numbers (every one, enumerated from the version '
        'records) x the full product of per-axis boundary sets (10 x 7 x 10 '
        'triples) given as Position, Vector and plain tuple, plus every '
        '64-bit word with one bit / two adjacent bits set and the sign '
        'boundaries of each field decoded and re-encoded, plus Hypothesis '
        'random triples/words; chunk-section positions (22/22/20) and '
        'multi-block records on both sides of protocol 741; arrays of '
        'positions through the context-aware array codec. Oracle: bytes == '
        'reference packing for the layout the statement assigns to the '
        'version (x|z|y from 477, x|y|z up to 404, single upward-closed '
        'switch in between), decode returns the same signed triple, exact '
        '8-byte consumption. Non-trivial: a negative coordinate or one at a '
        'field boundary, and y != z; distinct by (version, triple, form).')
RULE += (' ' +
         'Added in later rounds: packets with a foreign context written '
         'through a logged-in Connection; overlapping encode/decode under '
         'two contexts on opposite sides of 443/741 (positions, block '
         'records); component carrier: every library packet with a Position '
         'field x 7 triples x every supported version, its decoded fields '
         'read after the context object moved to a version of the other '
         'layout. Round 14: every layout obtained is compared with the one a '
         'fresh interpreter computes in chronological order (history '
         'independence); carriers include packets with section positions and '
         'block records; every other reassigned-context case uses a later '
         'era as the previous version. ')
LEVEL_TEXT = ('Differential testing against an independent bit-packing '
              'reference, exhaustive over all known protocol versions and a '
              'full boundary product of coordinates, sampled for random '
              'triples and words.')
LEVEL_NOTE = ('Trusted: vlib/wire.py packing reference; the rank of a '
              'protocol is taken from an independent projection of the '
              'version records (first occurrence). Coordinates are sampled, '
              'not all 2^64 words.')
TECHNIQUE = ('exhaustive enumeration over versions x boundary product + '
             'property-based differential testing against reference packing')
ASSUMPTIONS = ['reference packing in vlib/wire.py is correct',
               'version rank = first occurrence in the version record list']

XZ = [-2 ** 25, -2 ** 25 + 1, -1, 0, 1, 2 ** 25 - 1, 2 ** 12, -2 ** 12,
      2 ** 24, -2 ** 24]
Y = [-2 ** 11, -2 ** 11 + 1, -1, 0, 1, 255, 2 ** 11 - 1]


def _records():
    import minecraft
    return minecraft.KNOWN_MINECRAFT_VERSION_RECORDS


_KP = []
_RANK = {}


def known_protocols():
    if not _KP:
        for r in _records():
            if r.protocol not in _RANK:
                _RANK[r.protocol] = len(_KP)
                _KP.append(r.protocol)
    return _KP


def rank(p):
    known_protocols()
    return _RANK[p]


_CTX = {}


def ctx_for(v):
    """One shared ConnectionContext whose protocol_version is reassigned
    for every use - exactly what Connection.connect() does with its context
    on each reconnect/negotiation.  Anything memoised per context object
    instead of per version therefore shows up in every check that goes
    through this function (C04-C07, C11).  Callers use the returned context
    before asking for another version."""
    if _CTX.get('private') is not None:
        # inside reassigned(): a context object private to the running case
        _CTX['private'].protocol_version = v
        return _CTX['private']
    if 'shared' not in _CTX:
        from minecraft.networking.connection import ConnectionContext
        _CTX['shared'] = ConnectionContext(protocol_version=v)
    c = _CTX['shared']
    c.protocol_version = v
    if not _RECENT or _RECENT[-1] != v:
        if len(_FIRST) < 2 and v not in _FIRST:
            _FIRST.append(v)
        _RECENT.append(v)
        del _RECENT[:-4]
    return c


# The shared context makes a case depend on which versions the context
# carried before (that is the point: per-context memoisation must show).  To
# keep failing cases replayable in a fresh process the first two and the
# last three earlier versions are stored with the case; a replay first runs
# the same case under those versions on the shared context (vlib.runner).
_FIRST, _RECENT = [], []


def _annotate(case):
    if '_ctx_history' in case or not (
            'version' in case or 'release' in case):
        return case
    cur = case.get('version', case.get('release'))
    hist = []
    for v in _FIRST + _RECENT[:-1]:
        if v != cur and (not hist or hist[-1] != v):
            hist.append(v)
    return dict(case, _ctx_history=hist) if hist else case


from vlib import core as _core      # noqa: E402
if _annotate not in _core.CASE_ANNOTATORS:
    _core.CASE_ANNOTATORS.append(_annotate)

ERAS = [47, 107, 210, 316, 340, 393, 404, 477, 498, 573, 578, 735, 751, 757]
_calls = [0]


class _Renamed(object):
    """ctx proxy: failures found in reassigned mode get their own signature
    (and therefore their own, self-contained replay file)."""

    def __init__(self, ctx):
        self.__dict__['_c'] = ctx

    def __getattr__(self, n):
        return getattr(self._c, n)

    def __setattr__(self, n, v):
        setattr(self._c, n, v)

    def fail(self, component, clause, case, *a, **k):
        return self._c.fail(component, clause + '@reassigned-context', case,
                            *a, **k)


def reassigned(fn, key='version', every=4):
    """Wrap a component so that a case can carry 'prev_version': the case is
    then run on a context object of its own that first carried prev_version
    (same operation, results discarded) and is then reassigned - the
    self-contained form of what the shared context does across cases.  Every
    `every`-th ordinary case is additionally run in that form with a
    prev_version from a rotating list of era versions."""
    def private(ctx, case):
        from minecraft.networking.connection import ConnectionContext
        pv = case['prev_version']
        saved = _CTX.get('private')
        _CTX['private'] = ConnectionContext(protocol_version=pv)
        try:
            scratch = _core.Ctx(ctx.prop, ctx.tier, ctx.seed, 'scratch')
            c0 = dict(case)
            c0[key] = pv
            try:
                fn(scratch, c0)
            except Exception:
                pass
            return fn(_Renamed(ctx), case)
        finally:
            _CTX['private'] = saved

    def wrapped(ctx, case):
        if isinstance(case, dict) and case.get('prev_version') is not None:
            return private(ctx, case)
        r = fn(ctx, case)
        if isinstance(case, dict) and key in case:
            _calls[0] += 1
            if _calls[0] % every == 0:
                k_ = _calls[0] // every
                pv = ERAS[k_ % len(ERAS)]
                if k_ % 2:
                    # every other time: the nearest era AFTER the case's
                    # version (an ascending sweep never visits a later
                    # version first - a process serving mixed clients does)
                    later = [e for e in ERAS if isinstance(case[key], int)
                             and e in _RANK and case[key] in _RANK and
                             _RANK[e] > _RANK[case[key]]]
                    if later:
                        pv = later[(k_ // 2) % min(2, len(later))]
                if pv != case[key]:
                    ctx.label('reassigned_context_cases')
                    private(ctx, dict(case, prev_version=pv))
        return r
    wrapped.__name__ = getattr(fn, '__name__', 'component')
    wrapped.__doc__ = fn.__doc__
    return wrapped


def fresh_ctx(v):
    from minecraft.networking.connection import ConnectionContext
    return ConnectionContext(protocol_version=v)


def make_form(form, x, y, z):
    from minecraft.networking.types import Position, Vector
    if form == 'Position':
        return Position(x, y, z)
    if form == 'Vector':
        return Vector(x, y, z)
    return (x, y, z)


def probe_layout(v):
    """Which layout does pyCraft use at version v? 'new' | 'old' | None."""
    from minecraft.networking.types import Position
    s = Sink()
    Position.send_with_context((1, 2, 3), s, fresh_ctx(v))
    if s.value == wire.position_word(1, 2, 3, True).to_bytes(8, 'big'):
        return 'new'
    if s.value == wire.position_word(1, 2, 3, False).to_bytes(8, 'big'):
        return 'old'
    return None


def required_layout(v):
    r = rank(v)
    if r >= rank(477):
        return 'new'
    if r <= rank(404):
        return 'old'
    return None       # either, but single switch-over


def layout_case(ctx, case):
    """case {version}: layout used at version must match the statement."""
    v = case['version']
    ctx.ev()
    got = probe_layout(v)
    req = required_layout(v)
    if got is None or (req is not None and got != req):
        ctx.fail('layout', 'P1-layout-for-version', case, got, req)
    ctx.nt('layout', v)
    return got


def switch_case(ctx, case):
    """Whole-table clause: versions using the new layout are upward closed."""
    ctx.ev()
    seen_new = None
    for p in known_protocols():
        lay = probe_layout(p)
        if lay == 'new' and seen_new is None:
            seen_new = p
        if lay != 'new' and seen_new is not None:
            ctx.fail('switch', 'P1-single-switch', {'version': p},
                     'layout %s at %d after new layout at %d'
                     % (lay, p, seen_new), 'upward closed')
            return
    ctx.nt('switch')


def position_case(ctx, case):
    from minecraft.networking.types import Position
    v, (x, y, z), form = case['version'], case['xyz'], case.get('form',
                                                                'Position')
    ctx.ev()
    req = required_layout(v)
    lay = req or probe_layout(v)
    want = wire.position_word(x, y, z, lay == 'new').to_bytes(8, 'big')
    c = ctx_for(v)
    s = Sink()
    try:
        Position.send_with_context(make_form(form, x, y, z), s, c)
    except Exception as e:
        ctx.fail('position', 'P1-encode-raises', case, exc=e)
        return
    if s.value != want:
        ctx.fail('position', 'P1-bytes', case, s.value.hex(), want.hex())
    st_ = CountingStream(want + b'\x55')
    try:
        got = Position.read_with_context(st_, c)
    except Exception as e:
        ctx.fail('position', 'P2-decode-raises', case, exc=e)
        return
    if tuple(got) != (x, y, z) or not isinstance(got, Position) or \
            st_.pos != 8:
        ctx.fail('position', 'P2-decode', case, (tuple(got), st_.pos),
                 ((x, y, z), 8))
    if (x < 0 or y < 0 or z < 0 or abs(x) >= 2 ** 24 or abs(z) >= 2 ** 24 or
            abs(y) >= 2 ** 10) and y != z:
        ctx.nt(v, x, y, z, form)


def word_case(ctx, case):
    from minecraft.networking.types import Position
    v, w = case['version'], case['word']
    ctx.ev()
    lay = required_layout(v) or probe_layout(v)
    want = wire.position_from_word(w, lay == 'new')
    c = ctx_for(v)
    try:
        got = Position.read_with_context(
            CountingStream(w.to_bytes(8, 'big')), c)
    except Exception as e:
        ctx.fail('word', 'P2-decode-raises', case, exc=e)
        return
    if tuple(got) != want:
        ctx.fail('word', 'P2-decode', case, tuple(got), want)
        return
    s = Sink()
    Position.send_with_context(got, s, c)
    if s.value != w.to_bytes(8, 'big'):
        ctx.fail('word', 'P2-reencode', case, s.value.hex(), '%016x' % w)
    ctx.nt(v, w)


def section_case(ctx, case):
    from minecraft.networking.packets.clientbound.play import \
        MultiBlockChangePacket as M
    CSP = M.ChunkSectionPos
    ctx.ev()
    if 'word' in case:
        w = case['word']
        want = wire.section_pos_from_word(w)
        try:
            got = CSP.read(CountingStream(w.to_bytes(8, 'big')))
        except Exception as e:
            ctx.fail('section', 'P3-decode-raises', case, exc=e)
            return
        if tuple(got) != want:
            ctx.fail('section', 'P3-decode', case, tuple(got), want)
            return
        s = Sink()
        CSP.send(got, s)
        if s.value != w.to_bytes(8, 'big'):
            ctx.fail('section', 'P3-reencode', case, s.value.hex(),
                     '%016x' % w)
        ctx.nt('sw', w)
        return
    x, y, z = case['xyz']
    want = wire.section_pos_word(x, y, z).to_bytes(8, 'big')
    s = Sink()
    try:
        CSP.send(make_form(case.get('form', 'tuple'), x, y, z), s)
    except Exception as e:
        ctx.fail('section', 'P3-encode-raises', case, exc=e)
        return
    if s.value != want:
        ctx.fail('section', 'P3-bytes', case, s.value.hex(), want.hex())
    st_ = CountingStream(want + b'\x01')
    got = CSP.read(st_)
    if tuple(got) != (x, y, z) or st_.pos != 8 or not isinstance(got, CSP):
        ctx.fail('section', 'P3-decode', case, (tuple(got), st_.pos),
                 ((x, y, z), 8))
    if x < 0 or y < 0 or z < 0:
        ctx.nt('s', x, y, z)


def ref_record(v, x, y, z, bs):
    if rank(v) >= rank(741):
        return wire.varint(bs << 12 | x << 8 | z << 4 | y)
    return bytes([x << 4 | z, y]) + wire.varint(bs)


def record_case(ctx, case):
    from minecraft.networking.packets.clientbound.play import \
        MultiBlockChangePacket as M
    v, x, y, z, bs = (case[k] for k in ('version', 'x', 'y', 'z', 'bs'))
    ctx.ev()
    c = ctx_for(v)
    want = ref_record(v, x, y, z, bs)
    rec = M.Record(x=x, y=y, z=z, block_state_id=bs)
    s = Sink()
    try:
        M.Record.send_with_context(rec, s, c)
    except Exception as e:
        ctx.fail('record', 'P3-record-encode-raises', case, exc=e)
        return
    if s.value != want:
        ctx.fail('record', 'P3-record-bytes', case, s.value.hex(),
                 want.hex())
    st_ = CountingStream(want + b'\x00\xff')
    try:
        got = M.Record.read_with_context(st_, c)
    except Exception as e:
        ctx.fail('record', 'P3-record-decode-raises', case, exc=e)
        return
    if (got.x, got.y, got.z, got.block_state_id) != (x, y, z, bs) or \
            st_.pos != len(want):
        ctx.fail('record', 'P3-record-decode', case,
                 (got.x, got.y, got.z, got.block_state_id, st_.pos),
                 (x, y, z, bs, len(want)))
    if bs >= 128 and (x or z):
        ctx.nt('r', v, x, y, z, bs)


def array_case(ctx, case):
    """PrefixedArray(VarInt, Position) through the context-aware codec."""
    from minecraft.networking.types import PrefixedArray, VarInt, Position
    v, pts = case['version'], [tuple(p) for p in case['points']]
    ctx.ev()
    lay = required_layout(v) or probe_layout(v)
    want = wire.varint(len(pts)) + b''.join(
        wire.position_word(x, y, z, lay == 'new').to_bytes(8, 'big')
        for x, y, z in pts)
    A = PrefixedArray(VarInt, Position)
    c = ctx_for(v)
    s = Sink()
    try:
        A.send_with_context([Position(*p) for p in pts], s, c)
    except Exception as e:
        ctx.fail('array', 'P1-array-encode-raises', case, exc=e)
        return
    if s.value != want:
        ctx.fail('array', 'P1-array-bytes', case, s.value.hex(), want.hex())
    st_ = CountingStream(want)
    try:
        got = A.read_with_context(st_, c)
    except Exception as e:
        ctx.fail('array', 'P2-array-decode-raises', case, exc=e)
        return
    if [tuple(g) for g in got] != pts or st_.pos != len(want):
        ctx.fail('array', 'P2-array-decode', case, [tuple(g) for g in got],
                 pts)
    if pts:
        ctx.nt('a', v, tuple(pts))


def reuse_case(ctx, case):
    """One ConnectionContext object whose protocol_version is reassigned
    (as Connection.connect() does on every reconnect / negotiation): the
    layout must follow the *current* version each time.
    case {versions: [v...], xyz}"""
    from minecraft.networking.connection import ConnectionContext
    from minecraft.networking.types import Position
    x, y, z = case['xyz']
    vs = case['versions']
    ctx.ev()
    c = ConnectionContext(protocol_version=vs[0])
    for i, v in enumerate(vs):
        c.protocol_version = v
        lay = required_layout(v) or probe_layout(v)
        want = wire.position_word(x, y, z, lay == 'new').to_bytes(8, 'big')
        s = Sink()
        sub = {'versions': vs[:i + 1], 'xyz': (x, y, z)}
        try:
            Position.send_with_context((x, y, z), s, c)
            got = Position.read_with_context(CountingStream(want), c)
        except Exception as e:
            ctx.fail('reuse', 'P1-reuse-raises', sub, exc=e)
            return
        if s.value != want:
            ctx.fail('reuse', 'P1-layout-follows-current-version', sub,
                     s.value.hex(), want.hex())
            return
        if tuple(got) != (x, y, z):
            ctx.fail('reuse', 'P2-layout-follows-current-version', sub,
                     tuple(got), (x, y, z))
            return
    if len(set(required_layout(v) for v in vs)) > 1 and y != z:
        ctx.nt('reuse', tuple(vs), x, y, z)


def via_connection_case(ctx, case):
    """The statement is about "the connection's protocol": a packet with a
    Position field written through Connection.write_packet goes out in the
    layout of THAT connection, whatever context the packet object carried
    before (built with context=..., or already written on a connection of
    another version).  case {version, other, xyz, how: 'kw'|'attr'|'none',
    queued: bool}"""
    from vlib import vnet, servers
    from minecraft.networking.connection import ConnectionContext
    from minecraft.networking.packets import Packet
    from minecraft.networking.types import Position
    v, other = case['version'], case['other']
    x, y, z = case['xyz']
    ctx.ev()
    cls = type('PosPacket', (Packet,), {
        'id': 0x7A, 'packet_name': 'pos probe',
        'definition': [{'location': Position}]})
    srv = servers.Server({'version': v, 'login': [('success',)],
                          'play': {'bursts': [], 'end': 'silent'}})
    world = vnet.World(servers=[srv])
    with vnet.installed(world):
        conn, o = servers.make_connection(world, allowed_versions={v})
        try:
            conn.connect()
            for _ in range(2000):
                if world.links and world.links[0].script.play_started:
                    break
                import time as _t
                _t.sleep(0.001)
            if not world.wait_idle(world.links[0], conn):
                from vlib.core import HarnessError
                raise HarnessError('C04 via_connection: login did not '
                                   'settle')
            oc = ConnectionContext(protocol_version=other)
            if case['how'] == 'kw':
                pk = cls(context=oc, location=Position(x, y, z))
            else:
                pk = cls(location=Position(x, y, z))
                if case['how'] == 'attr':
                    pk.context = oc
            conn.write_packet(pk, force=not case.get('queued'))
            world.wait_idle(world.links[0], conn)
            conn.disconnect()
            world.settle()
        except Exception as e:
            if type(e).__name__ == 'HarnessError':
                raise
            ctx.fail('via_connection', 'P1-write-raises', case, exc=e)
            return
    lay = required_layout(v) or probe_layout(v)
    want = wire.position_word(x, y, z, lay == 'new').to_bytes(8, 'big')
    got = [pl for pid, pl in srv.other_play_frames if pid == 0x7A]
    if got != [want]:
        ctx.fail('via_connection', 'P1-layout-of-the-connection', case,
                 [g.hex() for g in got], [want.hex()])
        return
    if required_layout(v) != required_layout(other) and y != z:
        ctx.nt('via', v, other, x, y, z, case['how'])


def overlap_case(ctx, case):
    """Two connections of different protocol versions coding positions /
    block records at the same time: one call suspended at its k-th line, the
    other runs in between (C05's overlap machinery restricted to the
    packets that carry positions and multi-block-change records)."""
    from props import c05_roundtrip as P5
    P5.overlap_case(ctx, case)


def carrier_case(ctx, case):
    """A library packet with a Position field, written and read back under
    its version's layout; the decoded coordinates are looked at after the
    context object has moved on to a version of the other layout (C05's
    packet machinery restricted to position carriers)."""
    from props import c05_roundtrip as P5
    P5.defn_case(ctx, case)


COMPONENTS = {'overlap': overlap_case, 'carrier': carrier_case,
              'defn': carrier_case,     # C05 files failures under its name
              'via_connection': via_connection_case,
              'reuse': reuse_case, 'layout': layout_case,
              'switch': switch_case,
              'position': position_case, 'word': word_case,
              'section': section_case, 'record': record_case,
              'array': array_case}


# -------------------------------------------------------------------- tasks

def special_words():
    ws = set()
    for i in range(64):
        ws.add(1 << i)
        ws.add((3 << i) & (2 ** 64 - 1))
        ws.add((2 ** 64 - 1) ^ (1 << i))
    for sh, bits in ((38, 26), (12, 26), (0, 12), (26, 12), (0, 26)):
        for val in ((1 << (bits - 1)) - 1, 1 << (bits - 1),
                    (1 << bits) - 1):
            ws.add(val << sh)
    ws |= {0, 2 ** 64 - 1, 0x0123456789ABCDEF, 0xFEDCBA9876543210}
    return sorted(ws)


def t_versions(ctx, lo, hi):
    protos = known_protocols()[lo:hi]
    triples = list(itertools.product(XZ, Y, XZ))
    words = special_words()
    forms = ('Position', 'Vector', 'tuple')
    for v in protos:
        layout_case(ctx, {'version': v})
        for i, (x, y, z) in enumerate(triples):
            position_case(ctx, {'version': v, 'xyz': (x, y, z),
                                'form': forms[i % 3]})
        for w in words:
            word_case(ctx, {'version': v, 'word': w})
        array_case(ctx, {'version': v,
                         'points': [(1, 2, 3), (-1, -2, -3),
                                    (2 ** 25 - 1, -2 ** 11, -2 ** 25)]})
    ctx.sample({'version': protos[0], 'xyz': (-2 ** 25, 2 ** 11 - 1, 1),
                'form': 'tuple'}, 'position')
    ctx.sample({'version': protos[-1], 'word': 1 << 37}, 'word')
    ctx.exhaustive_done('positions: known protocols x 700 boundary triples x '
                        '%d special words' % len(words))


def t_switch(ctx):
    kp = known_protocols()
    near = [p for p in kp if abs(rank(p) - rank(443)) <= 4] + \
        [kp[0], 47, 340, 404, 477, 498, 578, 757]
    for a in near:
        for b in near:
            reuse_case(ctx, {'versions': [a, b, a], 'xyz': (1200, 65, -420)})
    for a in kp[::7]:
        reuse_case(ctx, {'versions': [a, 404, 477, a, 757, 47],
                         'xyz': (-1, 2, -3)})
    ctx.sample({'versions': [404, 477, 404], 'xyz': (1200, 65, -420)},
               'reuse')
    ctx.exhaustive_done('context reuse: every ordered pair of versions near '
                        'the layout switch + releases (a, b, a)')
    switch_case(ctx, {})
    ctx.exhaustive_done('layout switch-over: every known protocol probed')


def t_sections_records(ctx):
    SX = [-2 ** 21, -2 ** 21 + 1, -1, 0, 1, 2 ** 21 - 1, 12345, -54321]
    SY = [-2 ** 19, -2 ** 19 + 1, -1, 0, 1, 15, 2 ** 19 - 1]
    forms = ('Position', 'Vector', 'tuple')
    for i, (x, y, z) in enumerate(itertools.product(SX, SY, SX)):
        section_case(ctx, {'xyz': (x, y, z), 'form': forms[i % 3]})
    for w in special_words():
        section_case(ctx, {'word': w})
    for sh, bits in ((42, 22), (20, 22), (0, 20)):
        for val in ((1 << (bits - 1)) - 1, 1 << (bits - 1), (1 << bits) - 1):
            section_case(ctx, {'word': val << sh})
    ctx.sample({'xyz': (-2 ** 21, 2 ** 19 - 1, -1)}, 'section')
    protos = known_protocols()
    r741 = rank(741)
    near = [p for p in protos if abs(rank(p) - r741) <= 3] + \
        [protos[0], 47, 340, 404, 578, 736, 754, 757]
    for v in near:
        new = rank(v) >= r741
        for x in (0, 1, 15):
            for z in (0, 7, 15):
                for y in ((0, 9, 15) if new else (0, 15, 128, 255)):
                    for bs in ((0, 1, 127, 128, 2 ** 31 - 1, 2 ** 40,
                                2 ** 51 - 1) if new else
                               (0, 1, 127, 128, 16383, 16384, 2 ** 31 - 1)):
                        record_case(ctx, {'version': v, 'x': x, 'y': y,
                                          'z': z, 'bs': bs})
    ctx.sample({'version': 741, 'x': 15, 'y': 9, 'z': 7, 'bs': 2 ** 40},
               'record')
    ctx.exhaustive_done('section positions: 8x7x8 boundary product + special '
                        'words; records: boundary product at versions around '
                        '741 and releases')


def t_random(ctx, n):
    protos = known_protocols()
    r741 = rank(741)
    xz = st.integers(-2 ** 25, 2 ** 25 - 1)
    yy = st.integers(-2 ** 11, 2 ** 11 - 1)
    ver = st.sampled_from(protos)

    def body(c, t):
        kind = t[0]
        if kind == 'p':
            case = {'version': t[1], 'xyz': t[2], 'form': t[3]}
            position_case(c, case)
        elif kind == 'w':
            case = {'version': t[1], 'word': t[2]}
            word_case(c, case)
        elif kind == 's':
            case = {'xyz': t[1], 'form': t[2]}
            section_case(c, case)
        elif kind == 'sw':
            case = {'word': t[1]}
            section_case(c, case)
        elif kind == 'a':
            case = {'version': t[1], 'points': t[2]}
            array_case(c, case)
        elif kind == 'u':
            case = {'versions': t[1], 'xyz': t[2]}
            reuse_case(c, case)
        else:
            v, x, y, z, bs = t[1:]
            new = rank(v) >= r741
            if new:
                y %= 16
            else:
                bs %= 2 ** 31
            case = {'version': v, 'x': x, 'y': y, 'z': z, 'bs': bs}
            record_case(c, case)
        if c.evaluations % 700 == 0:
            c.sample(case, {'p': 'position', 'w': 'word', 's': 'section',
                            'sw': 'section', 'a': 'array',
                            'u': 'reuse'}.get(kind,
                                                               'record'))
    form = st.sampled_from(['Position', 'Vector', 'tuple'])
    strat = st.one_of(
        st.tuples(st.just('p'), ver, st.tuples(xz, yy, xz), form),
        st.tuples(st.just('w'), ver, st.integers(0, 2 ** 64 - 1)),
        st.tuples(st.just('s'),
                  st.tuples(st.integers(-2 ** 21, 2 ** 21 - 1),
                            st.integers(-2 ** 19, 2 ** 19 - 1),
                            st.integers(-2 ** 21, 2 ** 21 - 1)), form),
        st.tuples(st.just('sw'), st.integers(0, 2 ** 64 - 1)),
        st.tuples(st.just('a'), ver,
                  st.lists(st.tuples(xz, yy, xz), max_size=5)),
        st.tuples(st.just('u'), st.lists(ver, min_size=2, max_size=6),
                  st.tuples(xz, yy, xz)),
        st.tuples(st.just('r'), ver, st.integers(0, 15),
                  st.integers(0, 255), st.integers(0, 15),
                  st.one_of(st.integers(0, 2 ** 51 - 1),
                            st.integers(0, 70000))))
    hyp(ctx, 'random', strat, body, n)


def t_overlap(ctx, step):
    # indices 5..8 of C05's packet list: waypoint arrays at 340 / 498,
    # multi-block-change at 736 / 751
    for a, b in ((5, 6), (6, 5), (7, 8), (8, 7), (5, 8), (7, 6)):
        for ops in ('ww', 'rr', 'wr', 'rw'):
            for k in range(1, 3000, step):
                before = ctx.labels.get('overlap_point_beyond_call', 0)
                overlap_case(ctx, {'version': 757, 'a': a, 'b': b,
                                   'ta': None, 'tb': None, 'k': k,
                                   'ops': ops})
                if ctx.labels.get('overlap_point_beyond_call', 0) > before:
                    break
    ctx.sample({'a': 7, 'b': 8, 'ops': 'rr', 'k': 40}, 'overlap')
    ctx.exhaustive_done('position arrays (340/498) and block records '
                        '(736/751): suspension points x 4 read/write pairs')


def prepare(tier):
    from props import c05_roundtrip as P5
    P5.canonical_layouts()


def t_carriers(ctx, lo, hi):
    from props import c05_roundtrip as P5
    kp = known_protocols()
    sup = [v for v in P5.supported() if v in kp][lo:hi]
    triples = [(0, 0, 0), (-2 ** 25, -2 ** 11, -2 ** 25),
               (2 ** 25 - 1, 2 ** 11 - 1, 2 ** 25 - 1), (1200, 65, -420),
               (-1, 2047, 1), (1, -2048, -1), (12345, 255, -54321)]
    n = 0
    for d, s_, cls, v in P5.pairs_for(sup):
        try:
            fl = P5.fields_of(cls, v)
        except Exception:
            continue
        kinds = {'Position', 'ChunkSectionPos', 'MBRecord'}

        def has(sp):
            n_ = P5.T2.spec_name(sp)
            return n_ in kinds or (n_ == 'PrefixedArray' and has(sp[2]))
        if not any(has(sp) for _n, _t, sp in fl):
            continue
        for r, xyz in enumerate(triples):
            vals = {}
            for i, (name, t, sp) in enumerate(fl):
                if P5.T2.spec_name(sp) == 'Position':
                    vals[name] = xyz
                else:
                    b = P5.boundaries(sp, v)
                    vals[name] = b[(r + i) % len(b)]
            case = {'direction': d, 'state': s_, 'cls': cls.__name__,
                    'version': v, 'values': vals}
            carrier_case(ctx, case)
            n += 1
            if n % 400 == 1:
                ctx.sample(case, 'carrier')
    ctx.label("carrier_task")


def t_via_connection(ctx, n):
    import minecraft
    sup = list(minecraft.SUPPORTED_PROTOCOL_VERSIONS)
    xyz = (1200, 65, -420)
    k = 0
    for v in (47, 340, 404, 477, 498, 757):
        for other in (47, 404, 477, 757):
            if other == v:
                continue
            k += 1
            via_connection_case(ctx, {
                'version': v, 'other': other, 'xyz': xyz,
                'how': ['kw', 'attr', 'none'][k % 3], 'queued': bool(k % 2)})
    coord = st.tuples(st.integers(-2 ** 25, 2 ** 25 - 1),
                      st.integers(-2 ** 11, 2 ** 11 - 1),
                      st.integers(-2 ** 25, 2 ** 25 - 1))
    strat = st.fixed_dictionaries({
        'version': st.sampled_from(sup), 'other': st.sampled_from(sup),
        'xyz': coord, 'how': st.sampled_from(['kw', 'attr', 'none']),
        'queued': st.booleans()})

    def body(c, case):
        via_connection_case(c, case)
        if c.evaluations % 40 == 1:
            c.sample(case, 'via_connection')
    hyp(ctx, 'via_connection', strat, body, n)


def tasks(tier):
    q = tier == 'quick'
    n = len(known_protocols())
    tl = [('switch', t_switch, {}), ('sections_records',
                                     t_sections_records, {}),
          ('via_connection', t_via_connection, dict(n=60 if q else 1500)),
          ('overlap', t_overlap, dict(step=2 if q else 1))]
    ns = len(known_protocols())
    for i in range(4):
        tl.append(('carriers_%d' % i, t_carriers,
                   dict(lo=ns * i // 4, hi=ns * (i + 1) // 4)))
    nsh = 14
    for i in range(nsh):
        tl.append(('versions_%d' % i, t_versions,
                   dict(lo=n * i // nsh, hi=n * (i + 1) // nsh)))
    for i in range(2 if q else 16):
        tl.append(('random_%d' % i, t_random,
                   dict(n=4000 if q else 120000)))
    return tl
