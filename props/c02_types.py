"""C02 - primitive wire types encode/decode exactly as the protocol
prescribes.  Differential against vlib.wire in both directions, exact
consumption, strict-prefix rejection."""
import math
from fractions import Fraction

from hypothesis import strategies as st

from vlib import wire
from vlib.budget import (run_with_line_budget, BudgetExceeded,
                         CountingStream, Sink)
from vlib.runner import hyp

PROPERTY = 'C02'
LEVEL = 'exploration'
RULE = ('Strings also with BOM, NUL, U+FFFD, separators, whitespace and '
        'quotes in first, last and middle position. '
'Type specs: Boolean, (Unsigned)Byte/Short/Long, Integer, Float, '
        'Double, String, UUID, Angle, VarInt/Short-prefixed byte arrays, '
        'TrailingByteArray, FixedPoint(carrier, n), FixedPointInteger, '
        'PrefixedArray(length type, element spec) nested to depth 3; values '
        'exhaustive for bool/8/16-bit/angle bytes, boundary + Hypothesis '
        'random otherwise; every call form (send/read, *_with_context on '
        'class and instance). Oracle per value: bytes == reference encoding '
        '(E1), no exception and bounded line events (E2), read of the '
        'reference bytes returns the value and consumes exactly the encoding '
        'even when junk follows (D1/D2), every strict prefix raises (T1). '
        'Non-trivial: value outside the repository TEST_DATA and, for '
        'variable-length types, encoded length >= 2; distinct by (spec, '
        'value) and (spec, value, cut).')
RULE += (' ' +
         'Added in later rounds: strings of 1-2 MiB with multi-byte '
         'characters off alignment and the 2^21 length-prefix boundary; BOM '
         '/ NUL / line-separator characters; 31 look-alike texts (ids, '
         'numbers, keys, JSON in non-canonical spellings); angles of any '
         'finite magnitude (floats to 1e300, ints to 2^80) against the exact '
         'rational oracle; overlapping calls (harness-owned preemption) on '
         'every type. Round 11: every boundary value also dressed as another '
         'Python type that is == to it (str subclass / str-mixin enum member '
         'with a different str(), IntEnum member, int subclass, bool, int '
         'for float, bytearray, bytes subclass, tuple for list). Round 12: '
         'angles and fixed-point values as Fraction and Decimal. Round 15: '
         'codec calls run with warnings escalated to errors. Round 16: '
         'off-grid fixed-point values inside the last partial quantum at '
         'either end of the range. Final sweep: look-alike texts with one '
         "control / whitespace character at either end ('a\\r', '\\ra', "
         "'a\\x00', ...). ")
LEVEL_TEXT = ('Differential testing of every primitive wire type against an '
              'independent reference codec in both directions, exhaustive '
              'for all 8/16-bit types, booleans and angle bytes, sampled '
              '(boundary sets + seeded random) for wider types, nested '
              'arrays and strings, including every strict prefix of each '
              'encoding.')
LEVEL_NOTE = ('Trusted: vlib/wire.py (arithmetic IEEE-754/UTF-8/two\'s '
              'complement reference, self-tested against struct on 12k '
              'values), CPython. Off-grid angle / fixed-point values accept '
              'either neighbouring quantum (the statement allows one '
              'quantum). Sampled beyond the exhaustive sub-domains.')
TECHNIQUE = ('property-based differential testing against a reference codec '
             '+ exhaustive enumeration of 8/16-bit domains + strict-prefix '
             'truncation')
ASSUMPTIONS = [
    'reference codec vlib/wire.py is correct',
    'angle/fixed-point values off the grid may encode to either neighbour',
    'Float domain = binary32-representable values (plus values that round)',
]

LINE_BUDGET = 20000

INT_RANGES = {
    'Byte': (-2 ** 7, 2 ** 7 - 1, 8, True),
    'UnsignedByte': (0, 2 ** 8 - 1, 8, False),
    'Short': (-2 ** 15, 2 ** 15 - 1, 16, True),
    'UnsignedShort': (0, 2 ** 16 - 1, 16, False),
    'Integer': (-2 ** 31, 2 ** 31 - 1, 32, True),
    'Long': (-2 ** 63, 2 ** 63 - 1, 64, True),
    'UnsignedLong': (0, 2 ** 64 - 1, 64, False),
}
LEN_MAX = {'VarInt': 2 ** 31 - 1, 'Byte': 127, 'Short': 2 ** 15 - 1,
           'Integer': 2 ** 31 - 1, 'UnsignedByte': 255}

REPO_TEST_DATA = {
    'Boolean': [True, False], 'UnsignedByte': [0, 125], 'Byte': [-22, 22],
    'Short': [-340, 22, 350], 'UnsignedShort': [0, 400],
    'UnsignedLong': [0, 400], 'Integer': [-1000, 1000],
    'Angle': [0, 360.0, 720, 47.12947238973, -108.7],
    'VarInt': [1, 250, 50000, 10000000], 'Long': [50000000],
    'Float': [21.000301], 'Double': [36.004002],
}


def spec_name(spec):
    return spec if isinstance(spec, str) else spec[0]


def build(spec):
    """pyCraft type object for a spec."""
    from minecraft.networking import types as T
    if isinstance(spec, str):
        return getattr(T, spec)
    if spec[0] == 'FixedPoint':
        return T.FixedPoint(getattr(T, spec[1]), spec[2])
    if spec[0] == 'PrefixedArray':
        return T.PrefixedArray(getattr(T, spec[1]), build(spec[2]))
    raise ValueError(spec)


def build_for(spec, case, ctx):
    """The type object a case uses.  Parametrised types are objects, and an
    object reaches the codec in whatever way the user's program moved it
    there: built in place, or as a copy of a definition (copy.copy /
    copy.deepcopy of a field list, a layout received from another process
    through pickle).  A copy of FixedPoint(Integer, 5) is the same wire
    type.  Where the interpreter cannot copy the object at all the case
    falls back to the built one (counted, never a violation)."""
    T = build(spec)
    if isinstance(spec, str):
        return T
    key = case.get('value', case.get('data'))
    how = len(repr(key)) % 4
    if how == 0:
        return T
    import copy
    import pickle
    try:
        C = (None, copy.copy, copy.deepcopy,
             lambda t: pickle.loads(pickle.dumps(t)))[how](T)
    except Exception:
        ctx.label('type_object_not_copyable')
        return T
    ctx.label('type_object_%s' % ('', 'copied', 'deep_copied',
                                   'pickled')[how])
    return C


# ------------------------------------------------------ reference encoding

def ref_enc(spec, v):
    n = spec_name(spec)
    if n == 'Boolean':
        return wire.boolean(v)
    if n in INT_RANGES:
        lo, hi, bits, signed = INT_RANGES[n]
        return wire.sint(v, bits) if signed else wire.uint(v, bits)
    if n in ('VarInt', 'VarLong'):
        return wire.varint(v)
    if n == 'Float':
        return wire.f32(v)
    if n == 'Double':
        return wire.f64(v)
    if n == 'String':
        return wire.string(v)
    if n == 'UUID':
        return wire.uuid_bytes(v)
    if n == 'VarIntPrefixedByteArray':
        return wire.varint_bytes(v)
    if n == 'ShortPrefixedByteArray':
        return wire.short_bytes(v)
    if n == 'TrailingByteArray':
        return bytes(v)
    if n == 'Angle':
        return bytes([sorted(wire.angle_bytes_allowed(v))[0]])
    if n in ('FixedPoint', 'FixedPointInteger'):
        carrier, fb = ('Integer', 5) if n == 'FixedPointInteger' \
            else (spec[1], spec[2])
        return ref_enc(carrier, wire.fixed_point_int(v, fb))
    if n == 'PrefixedArray':
        return ref_enc(spec[1], len(v)) + b''.join(ref_enc(spec[2], e)
                                                   for e in v)
    raise ValueError(spec)


def allowed_encodings(spec, v):
    """Set of acceptable encodings (more than one only for off-grid angle /
    fixed-point values at top level)."""
    n = spec_name(spec)
    if n == 'Angle':
        q = Fraction(v) / 360 * 256
        fl = q.numerator // q.denominator
        c = {fl} if q == fl else {fl, fl + 1}
        return {bytes([x % 256]) for x in c}
    if n in ('FixedPoint', 'FixedPointInteger'):
        carrier, fb = ('Integer', 5) if n == 'FixedPointInteger' \
            else (spec[1], spec[2])
        q = Fraction(v) * (1 << fb)
        fl = q.numerator // q.denominator
        c = {fl} if q == fl else {fl, fl + 1}
        lo, hi = INT_RANGES[carrier][:2]
        return {ref_enc(carrier, x) for x in c if lo <= x <= hi}
    return {ref_enc(spec, v)}


def ref_dec(spec, data, pos):
    """Reference decode -> (value, newpos); raises wire.EOF on truncation."""
    n = spec_name(spec)
    if n == 'Boolean':
        v, p = wire.read_uint(data, pos, 8)
        return v != 0, p
    if n in INT_RANGES:
        lo, hi, bits, signed = INT_RANGES[n]
        return (wire.read_sint if signed else wire.read_uint)(data, pos, bits)
    if n == 'VarInt':
        return wire.read_varint(data, pos)
    if n == 'VarLong':
        return wire.read_varint(data, pos, 11)
    if n == 'Float':
        return wire.read_f32(data, pos)
    if n == 'Double':
        return wire.read_f64(data, pos)
    if n == 'String':
        return wire.read_string(data, pos)
    if n == 'UUID':
        if pos + 16 > len(data):
            raise wire.EOF('uuid')
        return wire.uuid_text(data[pos:pos + 16]), pos + 16
    if n == 'VarIntPrefixedByteArray':
        return wire.read_varint_bytes(data, pos)
    if n == 'ShortPrefixedByteArray':
        k, p = wire.read_sint(data, pos, 16)
        if k < 0 or p + k > len(data):
            raise wire.EOF('short bytes')
        return bytes(data[p:p + k]), p + k
    if n == 'TrailingByteArray':
        return bytes(data[pos:]), len(data)
    if n == 'Angle':
        b, p = wire.read_uint(data, pos, 8)
        return float(wire.angle_value(b)), p
    if n in ('FixedPoint', 'FixedPointInteger'):
        carrier, fb = ('Integer', 5) if n == 'FixedPointInteger' \
            else (spec[1], spec[2])
        i, p = ref_dec(carrier, data, pos)
        return float(Fraction(i, 1 << fb)), p
    if n == 'PrefixedArray':
        k, p = ref_dec(spec[1], data, pos)
        out = []
        for _ in range(k):
            e, p = ref_dec(spec[2], data, p)
            out.append(e)
        return out, p
    raise ValueError(spec)


def quantum(spec):
    n = spec_name(spec)
    if n == 'Angle':
        return 360.0 / 256
    if n == 'FixedPointInteger':
        return 1.0 / 32
    if n == 'FixedPoint':
        return 1.0 / (1 << spec[2])
    return None


def same(spec, want, got):
    """Is `got` (decoded by pyCraft) the value `want` (reference decode)?"""
    n = spec_name(spec)
    if n == 'PrefixedArray':
        return isinstance(got, list) and len(got) == len(want) and all(
            same(spec[2], a, b) for a, b in zip(want, got))
    if n in ('Float', 'Double', 'Angle', 'FixedPoint', 'FixedPointInteger'):
        if not isinstance(got, (int, float)):
            return False
        if isinstance(want, float) and math.isnan(want):
            return isinstance(got, float) and math.isnan(got)
        return got == want and \
            math.copysign(1, got) == math.copysign(1, want)
    if n == 'Boolean':
        return got is want or (type(got) is bool and got == want)
    if n in ('VarIntPrefixedByteArray', 'ShortPrefixedByteArray',
             'TrailingByteArray'):
        return isinstance(got, (bytes, bytearray)) and bytes(got) == want
    return type(got) is type(want) and got == want


# -------------------------------------------------------------- the oracle

MODES = ('plain', 'ctx_class', 'ctx_instance', 'instance')


class _Ctx(object):
    protocol_version = 757

    def protocol_later_eq(self, v):
        return True

    def protocol_earlier(self, v):
        return False


DRESSES = ['subclass', 'enum_member', 'other_number', 'other_buffer',
           'tuple', 'fraction', 'decimal']


def dress(spec, v, how):
    """The same value as an object of another Python type that IS (a
    subclass of) the documented type or the number the field stands for:
    a str subclass / str-mixin enum member whose str() and repr() say
    something else, an IntEnum member or bool, an int for a float field, a
    bytearray or bytes subclass, a tuple for a list.  Returns None when the
    dress does not apply to this type/value."""
    import enum
    n = spec_name(spec)
    if n == 'PrefixedArray':
        if how == 'tuple':
            return tuple(v)
        inner = [dress(spec[2], e, how) for e in v]
        if not v or any(e is None for e in inner):
            return None
        return inner
    if n == 'String':
        if how == 'subclass':
            class Text(str):
                def __str__(self):
                    return 'Text object'
                __repr__ = __str__
            return Text(v)
        if how == 'enum_member':
            return enum.Enum('Channel', [('BRAND', v)], type=str).BRAND
        return None
    if n in INT_RANGES or n in ('VarInt', 'VarLong'):
        if isinstance(v, bool) or not isinstance(v, int):
            return None
        if how == 'enum_member':
            return enum.IntEnum('Code', [('VALUE', v)]).VALUE
        if how == 'subclass':
            class Count(int):
                def __str__(self):
                    return 'Count object'
                __repr__ = __str__
            return Count(v)
        if how == 'other_number' and v in (0, 1):
            return bool(v)
        return None
    if n in ('Float', 'Double'):
        if how == 'other_number' and isinstance(v, float) and \
                v == int(v if abs(v) < 2 ** 60 and v == v else 0.5) and \
                (v != 0 or str(v) == '0.0'):
            return int(v)
        return None
    if n in ('Angle', 'FixedPoint', 'FixedPointInteger'):
        # an angle / a coordinate is a real number: exact rationals and
        # decimals (whose % keeps the dividend's sign) are numbers too
        import decimal
        import fractions
        if isinstance(v, bool) or v != v or abs(v) > 1e15:
            return None
        if how == 'fraction':
            return fractions.Fraction(v)
        if how == 'decimal':
            return decimal.Decimal(v)
        if how == 'other_number' and v == int(v):
            return int(v)
        return None
    if n == 'Boolean':
        return int(v) if how == 'other_number' else None
    if n in ('VarIntPrefixedByteArray', 'ShortPrefixedByteArray',
             'TrailingByteArray'):
        if how == 'other_buffer':
            return bytearray(v)
        if how == 'subclass':
            class Blob(bytes):
                def __str__(self):
                    return 'Blob object'
                __repr__ = __str__
            return Blob(v)
        return None
    return None


def _send(T, mode, v, sink):
    import inspect
    if mode == 'plain':
        return T.send(v, sink)
    if mode == 'ctx_class':
        return T.send_with_context(v, sink, _Ctx())
    inst = T() if inspect.isclass(T) else T
    if mode == 'ctx_instance':
        return inst.send_with_context(v, sink, _Ctx())
    return inst.send(v, sink)


def _read(T, mode, stream):
    import inspect
    if mode == 'plain':
        return T.read(stream)
    if mode == 'ctx_class':
        return T.read_with_context(stream, _Ctx())
    inst = T() if inspect.isclass(T) else T
    if mode == 'ctx_instance':
        return inst.read_with_context(stream, _Ctx())
    return inst.read(stream)


def is_repo_test_value(spec, v):
    if not isinstance(spec, str):
        return False
    try:
        return v in REPO_TEST_DATA.get(spec, ())
    except Exception:
        return False


def value_case(ctx, case):
    """case: {spec, value, mode?, traced?, prefixes?: 'all'|'none'|[cuts]}"""
    spec, v = case['spec'], case['value']
    mode = case.get('mode', 'plain')
    if isinstance(spec, list):
        spec = _tup(spec)
    T = build_for(spec, case, ctx)
    ctx.ev()
    allowed = allowed_encodings(spec, v)
    name = spec_name(spec)
    ctx.label('type_' + name)

    # E1/E2
    sink = Sink()
    v_sent = v
    if case.get('dress'):
        v_sent = dress(spec, v, case['dress'])
        if v_sent is None:
            return
        ctx.label('dressed_' + case['dress'])
    import warnings
    try:
        with warnings.catch_warnings():
            # (also in a process that escalates warnings to errors)
            warnings.simplefilter('error')
            if case.get('traced'):
                run_with_line_budget(lambda: _send(T, mode, v_sent, sink),
                                     LINE_BUDGET)
            else:
                _send(T, mode, v_sent, sink)
    except BudgetExceeded:
        ctx.fail('value', 'E2-terminates', case, 'line budget exceeded')
        return
    except Exception as e:
        ctx.fail('value', 'E2-encode-raises', case, None, 'no exception',
                 exc=e)
        sink = None
    if _has_nan(v) and sink is not None:
        # any NaN bit pattern is a correct encoding of NaN: compare the
        # reference decoding (NaN-aware) and the length instead of bytes
        try:
            dv, dp = ref_dec(spec, sink.value, 0)
            rv = ref_dec(spec, sorted(allowed)[0], 0)[0]
            ok = same(spec, rv, dv) and dp == len(sink.value) and \
                len(sink.value) in {len(a) for a in allowed}
        except wire.WireError:
            ok = False
        if not ok:
            ctx.fail('value', 'E1-bytes', case, sink.value.hex(), 'a NaN')
    elif sink is not None and sink.value not in allowed:
        ctx.fail('value', 'E1-bytes', case, sink.value.hex(),
                 sorted(a.hex() for a in allowed))

    enc_lens = {len(a) for a in allowed}
    nontriv = not is_repo_test_value(spec, v) and (
        name in ('Boolean', 'VarLong') or name in INT_RANGES or
        name in ('Float', 'Double', 'UUID', 'Angle', 'FixedPoint',
                 'FixedPointInteger') or max(enc_lens) >= 2)
    if nontriv:
        ctx.nt(spec, repr(v), mode)

    # D1/D2 on every allowed reference encoding, with and without trailer
    for data in sorted(allowed):
        want, wpos = ref_dec(spec, data, 0)
        for trailer in ((b'',) if name == 'TrailingByteArray'
                        else (b'', b'\xa5\x80\xff')):
            s = CountingStream(data + trailer)
            try:
                with warnings.catch_warnings():
                    warnings.simplefilter('error')
                    got = _read(T, mode, s)
            except Exception as e:
                ctx.fail('value', 'D1-decode-raises', case, None, want,
                         exc=e)
                continue
            if not same(spec, want, got):
                ctx.fail('value', 'D1-value', case, got, want)
            elif s.pos != len(data):
                ctx.fail('value', 'D1-consumption', case,
                         'consumed %d' % s.pos, len(data))
        # decoded value vs. original: exact, or within one quantum
        q = quantum(spec)
        if q is None:
            if name not in ('Float', 'UUID', 'PrefixedArray') and \
                    not same(spec, v if name != 'TrailingByteArray'
                             else bytes(v), want) and name != 'Double':
                ctx.fail('value', 'D1-roundtrip', case, want, v)
        else:
            d = abs(Fraction(want) - Fraction(v))
            if name == 'Angle':
                d = d % 360
                d = min(d, 360 - d)
            if d >= Fraction(q):
                ctx.fail('value', 'D1-quantum', case, want, v)

    # T1: strict prefixes
    pf = case.get('prefixes', 'all')
    if pf != 'none' and name != 'TrailingByteArray' and \
            not _contains_trailing(spec):
        data = sorted(allowed)[0]
        cuts = range(len(data)) if pf == 'all' else pf
        if pf == 'all' and len(data) > 48:
            cuts = sorted(set(list(range(10)) +
                              list(range(len(data) - 10, len(data))) +
                              [len(data) // 2, len(data) // 3]))
        for cut in cuts:
            if not 0 <= cut < len(data):
                continue
            ctx.ev()
            if nontriv:
                ctx.nt(spec, repr(v), 'cut', cut)
            s = CountingStream(data[:cut])
            try:
                got = _read(T, mode, s)
            except Exception:
                continue
            ctx.fail('value', 'T1-prefix-accepted',
                     dict(case, prefixes=[cut]),
                     'returned %r for %d of %d bytes' % (got, cut, len(data)),
                     'raises')


def _has_nan(v):
    if isinstance(v, float):
        return math.isnan(v)
    if isinstance(v, list):
        return any(_has_nan(e) for e in v)
    return False


def _contains_trailing(spec):
    if isinstance(spec, str):
        return spec == 'TrailingByteArray'
    return any(_contains_trailing(s) for s in spec[1:]
               if isinstance(s, (str, tuple, list)))


def _tup(spec):
    return tuple(_tup(s) if isinstance(s, list) else s for s in spec)


def decode_case(ctx, case):
    """Reference bytes for a *decoded* word: {spec, data}: pyCraft read must
    equal reference decode (used for the exhaustive byte sweeps)."""
    spec, data = case['spec'], case['data']
    if isinstance(spec, list):
        spec = _tup(spec)
    T = build_for(spec, case, ctx)
    ctx.ev()
    want, wpos = ref_dec(spec, data, 0)
    s = CountingStream(data)
    try:
        got = T.read(s)
    except Exception as e:
        ctx.fail('decode', 'D2-decode-raises', case, None, want, exc=e)
        return
    if not same(spec, want, got) or s.pos != wpos:
        ctx.fail('decode', 'D2-value', case, (got, s.pos), (want, wpos))
    ctx.nt(spec, data)


def interleaved_case(ctx, case):
    """Two codec calls that overlap in time (two threads on two sockets):
    call A is suspended at its k-th line, call B runs to completion, A
    resumes.  Each must give what it gives alone.  case {a: [op, spec,
    value], b: [op, spec, value], k}; op 'send' | 'read'."""
    from vlib.budget import run_interleaved

    def make(t):
        op, spec, v = t
        if isinstance(spec, list):
            spec = _tup(spec)
        T = build(spec)
        if op == 'send':
            sink = Sink()
            alone = Sink()
            _send(T, 'plain', v, alone)
            return (lambda: _send(T, 'plain', v, sink)), \
                (lambda r: sink.value), alone.value
        data = ref_enc(spec, v)
        alone = _read(T, 'plain', CountingStream(data))
        st_ = CountingStream(data)
        return (lambda: _read(T, 'plain', st_)), (lambda r: r), alone
    ctx.ev()
    try:
        fa, ga, wa = make(case['a'])
        fb, gb, wb = make(case['b'])
    except Exception:
        return          # the value is not encodable alone: value_case's job
    try:
        ra, rb, ran = run_interleaved(fa, fb, case['k'])
    except Exception as e:
        ctx.fail('interleaved', 'E-overlapping-calls-raise', case, exc=e)
        return
    if not ran:
        ctx.label('interleave_point_beyond_call')
        return
    xa, xb = ga(ra), gb(rb)
    if repr(xa) != repr(wa) or repr(xb) != repr(wb):
        ctx.fail('interleaved', 'E-overlapping-calls', case,
                 (repr(xa)[:100], repr(xb)[:100]),
                 (repr(wa)[:100], repr(wb)[:100]))
        return
    ctx.label('interleaved')


COMPONENTS = {'value': value_case, 'decode': decode_case,
              'interleaved': interleaved_case}


# ---------------------------------------------------------------- strategies

def f32_values():
    return st.integers(0, 2 ** 32 - 1).map(
        lambda w: wire.float_bits_to_value(w, 32))


def f64_values():
    return st.integers(0, 2 ** 64 - 1).map(
        lambda w: wire.float_bits_to_value(w, 64))


_TEXT = st.text(st.one_of(
    st.characters(min_codepoint=0, max_codepoint=0x7F),
    st.characters(min_codepoint=0x80, max_codepoint=0x7FF),
    st.characters(min_codepoint=0x800, max_codepoint=0xFFFF,
                  blacklist_categories=('Cs',)),
    st.characters(min_codepoint=0x10000, max_codepoint=0x10FFFF)),
    max_size=60)


# characters that codecs, JSON layers and text APIs like to treat specially:
# they are ordinary characters of a protocol string and must survive in
# any position (a BOM-stripping or whitespace-stripping decoder drops them)
# text that looks like something with a canonical form (an id, a number, a
# namespaced key, JSON, a path): a String field carries it verbatim
LOOKALIKES = [
    '123456781234567812345678123456ab',
    '12345678-1234-5678-1234-5678123456AB',
    '{12345678-1234-5678-1234-567812345678}',
    'urn:uuid:12345678-1234-5678-1234-567812345678',
    '007', '1e3', '+5', '0x1F', ' true', 'NaN', 'None', 'null',
    'minecraft:stone', 'MINECRAFT:Stone', 'stone', ':stone', 'a:b:c',
    '{ "text" : "x" }', '{"text":"x"} ', '"x"', 'a//b/../c', 'C:\\x',
    'Stra\u00dfe', 'A\u030a', '\u212b', '\uff21', 'x\t', '%s %d {0}',
    '\\n', 'localhost.', 'EXAMPLE.com:25565', '&amp;', '\u00a7cred',
    # names the protocol itself knows (plugin channels old and new, common
    # identifiers): carried verbatim like any other text
    'MC|Brand', 'REGISTER', 'UNREGISTER', 'BungeeCord', 'MC|BEdit',
    'FML|HS', 'minecraft:brand', 'minecraft:register', 'bungeecord:main',
    'minecraft:overworld', 'default', 'flat', 'vanilla', 'en_US', 'en_us',
    # one control / whitespace character at either end (what a terminal or a
    # config file leaves behind): carried as given
    'a\r', 'a\n', '\ra', 'a\x00', 'a\u2028', 'a ', '\r',
]

SPECIAL_CHARS = ['\ufeff', '\x00', '\ufffd', '\u2028', '\u2029', '\x85',
                 '\r', '\n', '\t', ' ', '\ufffe', '\uffff', '\u200b',
                 '\ud7ff', '\ue000', '\\', '"', '\x7f', '\xa0']
_SPECIAL_TEXT = st.tuples(
    st.lists(st.sampled_from(SPECIAL_CHARS), max_size=2).map(''.join),
    _TEXT.map(lambda s: s[:5]),
    st.lists(st.sampled_from(SPECIAL_CHARS), max_size=2).map(''.join),
    _TEXT.map(lambda s: s[:3])).map(''.join)


def _sized_text(n):
    """text whose UTF-8 length is exactly n (pad with ASCII)."""
    def fix(s):
        b = wire.utf8(s)
        while len(b) > n:
            s = s[:-1]
            b = wire.utf8(s)
        return s + 'x' * (n - len(b))
    return _TEXT.map(fix)


def value_strategy(spec, small=False):
    n = spec_name(spec)
    if n == 'Boolean':
        return st.booleans()
    if n in INT_RANGES:
        lo, hi = INT_RANGES[n][:2]
        return st.one_of(st.integers(lo, hi),
                         st.sampled_from([lo, hi, 0, lo + 1, hi - 1,
                                          max(lo, -1), 1]))
    if n == 'VarInt':
        return st.one_of(st.integers(0, 2 ** 32 - 1), st.sampled_from(
            [0, 127, 128, 16383, 16384, 2 ** 21 - 1, 2 ** 21, 2 ** 28,
             2 ** 31 - 1, 2 ** 31, 2 ** 32 - 1]))
    if n == 'VarLong':
        return st.one_of(st.integers(0, 2 ** 64 - 1),
                         st.integers(0, 2 ** 33), st.sampled_from(
            [0, 127, 128, 2 ** 31 - 1, 2 ** 31, 2 ** 32 - 1, 2 ** 32,
             2 ** 35 - 1, 2 ** 35, 2 ** 63 - 1, 2 ** 63, 2 ** 64 - 1]))
    if n == 'Float':
        return st.one_of(f32_values(), st.sampled_from(
            [0.0, -0.0, 1.0, -1.0, float('inf'), float('-inf'),
             float('nan'), 1.401298464324817e-45, 1.1754943508222875e-38,
             3.4028234663852886e+38, 0.1, 21.000301, 1e-40]))
    if n == 'Double':
        return st.one_of(f64_values(), st.floats(), st.sampled_from(
            [0.0, -0.0, 5e-324, 2.2250738585072014e-308,
             1.7976931348623157e308, float('inf'), float('-inf'),
             float('nan'), 0.1]))
    if n == 'String':
        if small:
            return st.one_of(_TEXT.map(lambda s: s[:6]),
                             _SPECIAL_TEXT.map(lambda s: s[:6]),
                             st.sampled_from(LOOKALIKES))
        return st.one_of(_TEXT, _SPECIAL_TEXT, st.sampled_from(LOOKALIKES),
                         st.sampled_from(
            [126, 127, 128, 129, 300]).flatmap(_sized_text))
    if n == 'UUID':
        return st.one_of(
            st.sampled_from([bytes(16), b'\xff' * 16]),
            st.binary(min_size=16, max_size=16)).map(wire.uuid_text)
    if n in ('VarIntPrefixedByteArray', 'TrailingByteArray'):
        if small:
            return st.binary(max_size=5)
        return st.one_of(st.binary(max_size=40), st.sampled_from(
            [127, 128, 129, 1000]).flatmap(
                lambda k: st.binary(min_size=k, max_size=k)))
    if n == 'ShortPrefixedByteArray':
        if small:
            return st.binary(max_size=5)
        return st.one_of(st.binary(max_size=40), st.sampled_from(
            [255, 256, 257, 1000]).flatmap(
                lambda k: st.binary(min_size=k, max_size=k)))
    if n == 'Angle':
        grid = st.integers(-1000, 1000).map(lambda k: k * 360 / 256)
        if small:
            return grid
        return st.one_of(
            grid,
            st.floats(min_value=-1e6, max_value=1e6, allow_nan=False,
                      allow_subnormal=False).filter(lambda x: abs(x) < 1e6),
            st.floats(allow_nan=False, allow_infinity=False,
                      allow_subnormal=False),
            st.integers(-2 ** 80, 2 ** 80),
            st.sampled_from([359.9, -0.1, 359.3, 359.296875, 359.2968751,
                             719.99, 0.0, 360.0, -360.0, 180.0, 1.40625 / 2,
                             -1e-9, 1e-9, 358.6, 999999.99]))
    if n in ('FixedPoint', 'FixedPointInteger'):
        carrier, fb = ('Integer', 5) if n == 'FixedPointInteger' \
            else (spec[1], spec[2])
        lo, hi = INT_RANGES[carrier][:2]
        grid = st.one_of(st.integers(lo, hi), st.sampled_from(
            [lo, hi, 0, 1, -1])).map(lambda i: i / (1 << fb))
        if small:
            return grid
        # off-grid values strictly inside the carrier range
        off = st.tuples(st.integers(lo + 1, hi - 1),
                        st.floats(0.01, 0.99)).map(
            lambda t: (t[0] + t[1]) / (1 << fb))
        return st.one_of(grid, grid, off)
    if n == 'PrefixedArray':
        mx = min(LEN_MAX[spec[1]], 4 if small else 9)
        return st.lists(value_strategy(spec[2], small=True), max_size=mx)
    raise ValueError(spec)


LEAVES = ['Boolean', 'Byte', 'UnsignedByte', 'Short', 'UnsignedShort',
          'Integer', 'Long', 'UnsignedLong', 'VarInt', 'VarLong', 'Float',
          'Double',
          'String', 'UUID', 'VarIntPrefixedByteArray',
          'ShortPrefixedByteArray', 'Angle', 'FixedPointInteger']


def spec_strategy(top=True):
    fixed = st.tuples(st.just('FixedPoint'),
                      st.sampled_from(['Byte', 'Short', 'Integer']),
                      st.one_of(st.sampled_from([5, 12]), st.integers(0, 15)))
    leaf = st.one_of(st.sampled_from(LEAVES), fixed)
    arr = st.recursive(
        leaf,
        lambda inner: st.tuples(
            st.just('PrefixedArray'),
            st.sampled_from(['VarInt', 'Byte', 'Short', 'Integer']), inner),
        max_leaves=3)
    if top:
        return st.one_of(leaf, arr, st.just('TrailingByteArray'))
    return arr


def case_strategy(specs=None):
    sp = spec_strategy() if specs is None else st.sampled_from(specs)
    return sp.flatmap(lambda s: st.tuples(
        st.just(s), value_strategy(s), st.sampled_from(MODES)))


# --------------------------------------------------------------------- tasks

def t_exhaustive_ints(ctx, name, lo, hi):
    lo0, hi0, bits, signed = INT_RANGES[name]
    for v in range(lo, hi):
        value_case(ctx, {'spec': name, 'value': v, 'prefixes': 'all'})
        w = (v % (1 << bits)).to_bytes(bits // 8, 'big')
        decode_case(ctx, {'spec': name, 'data': w})
    ctx.sample({'spec': name, 'value': lo}, 'value')
    ctx.exhaustive_done('%s: every value in [%d, %d]' % (name, lo0, hi0))


def t_exhaustive_small(ctx):
    for v in (True, False):
        for mode in MODES:
            value_case(ctx, {'spec': 'Boolean', 'value': v, 'mode': mode})
    for b in (0, 1):
        decode_case(ctx, {'spec': 'Boolean', 'data': bytes([b])})
    ctx.exhaustive_done('Boolean: both values x 4 call forms')
    for b in range(256):
        decode_case(ctx, {'spec': 'Angle', 'data': bytes([b])})
        for m in (-2, -1, 0, 1, 3):
            v = b * 360 / 256 + 360 * m
            value_case(ctx, {'spec': 'Angle', 'value': v})
        for eps in (1e-6, -1e-6, 0.7, -0.7, 0.70312, 0.70313):
            value_case(ctx, {'spec': 'Angle', 'value': b * 360 / 256 + eps})
    ctx.sample({'spec': 'Angle', 'value': 255 * 360 / 256 + 0.7}, 'value')
    ctx.exhaustive_done('Angle: all 256 bytes decoded; k*360/256 + 360m and '
                        '+-eps for every k')
    for carrier in ('Byte',):
        for fb in (0, 3, 5, 7):
            lo, hi = INT_RANGES[carrier][:2]
            for i in range(lo, hi + 1):
                value_case(ctx, {'spec': ('FixedPoint', carrier, fb),
                                 'value': i / (1 << fb)})
    ctx.exhaustive_done('FixedPoint(Byte, n) n in {0,3,5,7}: all 256 values')
    for name in ('Byte', 'UnsignedByte'):
        lo, hi = INT_RANGES[name][:2]
        for v in range(lo, hi + 1):
            for mode in MODES:
                value_case(ctx, {'spec': name, 'value': v, 'mode': mode})
            decode_case(ctx, {'spec': name,
                              'data': bytes([v % 256])})
        ctx.exhaustive_done('%s: every value x 4 call forms' % name)


def t_boundaries(ctx):
    B = {
        'Integer': [0, 1, -1, 2 ** 31 - 1, -2 ** 31] +
                   [s * (2 ** k + d) for k in range(1, 31) for d in (-1, 0, 1)
                    for s in (1, -1)],
        'Long': [0, 1, -1, 2 ** 63 - 1, -2 ** 63] +
                [s * (2 ** k + d) for k in range(1, 63) for d in (-1, 0, 1)
                 for s in (1, -1)],
        'UnsignedLong': [0, 2 ** 64 - 1] +
                        [2 ** k + d for k in range(1, 64) for d in (-1, 0)],
        'VarInt': [0, 1, 127, 128, 16383, 16384, 2 ** 21 - 1, 2 ** 21,
                   2 ** 28 - 1, 2 ** 28, 2 ** 31 - 1, 2 ** 31, 2 ** 32 - 1],
        'VarLong': [0, 1, 127, 128] + [2 ** k + d for k in range(8, 64)
                                       for d in (-1, 0)] + [2 ** 64 - 1],
        'Float': [0.0, -0.0, 1.401298464324817e-45, -1.401298464324817e-45,
                  1.1754942106924411e-38, 1.1754943508222875e-38,
                  3.4028234663852886e+38, -3.4028234663852886e+38,
                  float('inf'), float('-inf'), float('nan'), 1.0, 0.5,
                  16777216.0, 16777217.0, 0.1, 1e-40, 3.0000001],
        'Double': [0.0, -0.0, 5e-324, -5e-324, 2.2250738585072009e-308,
                   2.2250738585072014e-308, 1.7976931348623157e308,
                   float('inf'), float('-inf'), float('nan'), 0.1,
                   9007199254740993.0],
        'String': ['', 'a', '\x7f', '\x80', '߿', 'ࠀ', '￿',
                   '\U00010000', '\U0010ffff', 'x' * 127, 'x' * 128,
                   'é' * 64, 'é' * 63 + 'x', '世' * 5461 + 'x',
                   'x' * 16383, 'x' * 16384, '\U0001f600' * 4096,
                   'x' * 40000] + SPECIAL_CHARS +
        [c + 'abc' for c in SPECIAL_CHARS] +
        ['abc' + c for c in SPECIAL_CHARS] +
        ['a' + c + 'b' for c in SPECIAL_CHARS] + ['\ufeff\ufeffx'] +
        # MiB scale: multi-byte characters across every 64 KiB / 1 MiB
        # boundary, and the 3/4-byte length prefix boundary (2^21)
        ['a' + '\u00e9' * 524288 + 'z', '\u20ac' * 349526,
         'x' * (2 ** 21 - 1), 'x' * 2 ** 21, 'ab' + '\U0001f600' * 300000],
        'UUID': ['00000000-0000-0000-0000-000000000000',
                 'ffffffff-ffff-ffff-ffff-ffffffffffff',
                 '12345678-1234-5678-1234-567812345678'],
        'VarIntPrefixedByteArray': [bytes(range(256)) * 4097,
                                    b'', b'\0', bytearray(b'\x01\xff'),
                                    bytes(127), bytes(128),
                                    bytes(range(256)) * 64, bytes(16383),
                                    bytes(16384)],
        'ShortPrefixedByteArray': [b'', b'\xff', bytearray(b'xyz'),
                                   bytes(255), bytes(256),
                                   bytes(32767)],
        'TrailingByteArray': [b'', b'\0', bytes(range(256)),
                              bytearray(b'abc')],
        'FixedPointInteger': [0.0, 1 / 32, -1 / 32, (2 ** 31 - 1) / 32,
                              -2 ** 31 / 32, 1.5, -1.5, 100.03125, 0.99 / 32,
                              -0.99 / 32, 12.345],
        'Angle': [0.0, 359.9, -0.1, 359.99999, 359.296875, 359.2968751,
                  359.3, 360.0, 720.0, -360.0, 47.12947238973, -108.7,
                  999999.999, -999999.999, 1e-12, -1e-12,
                  # any finite magnitude is an angle (exact rational oracle)
                  1e16 + 90, 1e18, -1e18, 12345678901234567.0, 2.0 ** 60 + 512,
                  3.4028234663852886e+38, -3.4028234663852886e+38, 1e300,
                  10 ** 19 + 90, -(10 ** 19) - 90, 2 ** 70 + 45],
        'Short': [], 'Byte': [],
    }
    for spec, vals in sorted(B.items()):
        for v in vals:
            for mode in MODES:
                value_case(ctx, {'spec': spec, 'value': v, 'mode': mode,
                                 'traced': mode == 'plain' and
                                 not (isinstance(v, (str, bytes)) and
                                      len(v) > 2000)})
            if isinstance(v, (str, bytes)) and len(v) > 2000:
                continue
            for k, how in enumerate(DRESSES):
                value_case(ctx, {'spec': spec, 'value': v,
                                 'mode': MODES[k % len(MODES)],
                                 'dress': how})
    for carrier in ('Byte', 'Short', 'Integer'):
        lo, hi = INT_RANGES[carrier][:2]
        for fb in (0, 1, 5, 12, 15):
            for i in (lo, lo + 1, -1, 0, 1, hi - 1, hi, 33, -33):
                for mode in ('plain', 'ctx_instance'):
                    value_case(ctx, {'spec': ('FixedPoint', carrier, fb),
                                     'value': i / (1 << fb), 'mode': mode})
            # off-grid values anywhere in the range, also in the last
            # partial quantum at either end (still within one quantum of a
            # representable value)
            for i, off in ((hi, 0.25), (hi, 0.5), (hi, 0.75), (hi, 0.984375),
                           (lo, -0.25), (lo, -0.75), (hi - 1, 0.5),
                           (0, 0.5), (-1, 0.5), (33, 0.99)):
                value_case(ctx, {'spec': ('FixedPoint', carrier, fb),
                                 'value': (i + off) / (1 << fb),
                                 'mode': 'ctx_instance'})
    # UUID spellings uuid.UUID accepts: E1 only (decode returns canonical)
    from minecraft.networking.types import UUID
    for txt in ('12345678123456781234567812345678',
                '12345678-1234-5678-1234-567812345678'.upper(),
                '{12345678-1234-5678-1234-567812345678}'):
        ctx.ev()
        sink = Sink()
        try:
            UUID.send(txt, sink)
            if sink.value != bytes.fromhex('12345678123456781234567812345678'):
                ctx.fail('value', 'E1-bytes', {'spec': 'UUID', 'value': txt},
                         sink.value.hex())
        except Exception as e:
            ctx.fail('value', 'E2-encode-raises',
                     {'spec': 'UUID', 'value': txt}, exc=e)
    # nested arrays, fixed shapes
    A = [
        (('PrefixedArray', 'VarInt', 'String'), [[], [''], ['a', 'é世'],
                                                 ['x' * 130, '', 'y']]),
        (('PrefixedArray', 'Byte', 'Short'), [[], [1, -1, 32767],
                                              list(range(127))]),
        (('PrefixedArray', 'Short', 'UUID'),
         [[], ['00000000-0000-0000-0000-000000000000'] * 3]),
        (('PrefixedArray', 'Integer', ('PrefixedArray', 'VarInt', 'Byte')),
         [[], [[]], [[1, 2], [], [-128]]]),
        (('PrefixedArray', 'VarInt',
          ('PrefixedArray', 'Byte', ('PrefixedArray', 'Short', 'String'))),
         [[], [[[]]], [[['a'], []], [], [['', 'bc', 'é']]]]),
        (('PrefixedArray', 'VarInt', ('FixedPoint', 'Short', 5)),
         [[0.5, -0.03125, 1023.96875]]),
        (('PrefixedArray', 'VarInt', 'Angle'), [[0.0, 180.0, 358.59375]]),
        (('PrefixedArray', 'VarInt', 'Double'), [[0.1, -0.0, 1e300]]),
        (('PrefixedArray', 'VarInt', 'VarInt'), [list(range(0, 3000, 7))]),
    ]
    for spec, vals in A:
        for v in vals:
            for mode in MODES:
                if mode in ('plain', 'ctx_class'):
                    continue      # arrays are instances
                value_case(ctx, {'spec': spec, 'value': v, 'mode': mode})
                for how in DRESSES:
                    value_case(ctx, {'spec': spec, 'value': v, 'mode': mode,
                                     'dress': how})
    ctx.sample({'spec': A[4][0], 'value': A[4][1][2]}, 'value')
    ctx.exhaustive_done('boundary table (ints 2^k+-1, float specials, UTF-8 '
                        'width and length-prefix boundaries, nested arrays)')


def t_random(ctx, n, specs=None):
    def body(c, x):
        spec, v, mode = x
        if not isinstance(spec, str) and mode in ('plain', 'ctx_class'):
            mode = 'instance' if mode == 'plain' else 'ctx_instance'
        case = {'spec': spec, 'value': v, 'mode': mode,
                'traced': c.evaluations % 5 == 0}
        value_case(c, case)
        if c.evaluations % 400 < 3:
            c.sample(case, 'value')
    hyp(ctx, 'random', case_strategy(specs), body, n)


def t_interleaved(ctx, part, nparts):
    samples = {
        'Boolean': True, 'Byte': -3, 'UnsignedByte': 200, 'Short': -300,
        'UnsignedShort': 50000, 'Integer': -70000, 'Long': -2 ** 40,
        'UnsignedLong': 2 ** 63, 'Float': 1.5, 'Double': -2.25,
        'VarInt': 300, 'VarLong': 2 ** 40, 'String': 'h\u00e9llo',
        'UUID': '12345678-1234-5678-1234-567812345678',
        'VarIntPrefixedByteArray': b'abc', 'TrailingByteArray': b'xyz',
        'ShortPrefixedByteArray': b'pq', 'Angle': 90.0,
        'FixedPointInteger': 2.5, 'Position': (1, 2, 3)}
    calls = []
    for name in LEAVES:
        nm = name if isinstance(name, str) else spec_name(name)
        if nm in samples:
            calls.append(('send', name, samples[nm]))
            calls.append(('read', name, samples[nm]))
    calls.append(('send', ('PrefixedArray', 'VarInt', 'String'), ['a', 'bc']))
    calls.append(('read', ('PrefixedArray', 'VarInt', 'String'), ['a', 'bc']))
    n = 0
    for i, a in enumerate(calls):
        if i % nparts != part:
            continue
        for j, b in enumerate(calls):
            if (i + j) % 3:
                continue
            for k in range(1, 60):
                before = ctx.labels.get('interleave_point_beyond_call', 0)
                interleaved_case(ctx, {'a': list(a), 'b': list(b), 'k': k})
                n += 1
                if ctx.labels.get('interleave_point_beyond_call', 0) > before:
                    break
    ctx.sample({'a': ['send', 'VarInt', 300], 'b': ['send', 'String', 'x'],
                'k': 3}, 'interleaved')


def tasks(tier):
    q = tier == 'quick'
    tl = [('small', t_exhaustive_small, {}), ('boundaries', t_boundaries, {})]
    for i in range(4):
        tl.append(('interleaved_%d' % i, t_interleaved,
                   dict(part=i, nparts=4)))
    for name in ('Short', 'UnsignedShort'):
        lo, hi = INT_RANGES[name][:2]
        nsh = 5
        span = hi + 1 - lo
        for i in range(nsh):
            tl.append(('%s_%d' % (name, i), t_exhaustive_ints,
                       dict(name=name, lo=lo + span * i // nsh,
                            hi=lo + span * (i + 1) // nsh)))
    for i in range(4 if q else 12):
        tl.append(('random_%d' % i, t_random,
                   dict(n=1500 if q else 30000)))
    per_type = LEAVES + [('FixedPoint', 'Short', 5),
                         ('FixedPoint', 'Integer', 12),
                         ('FixedPoint', 'Byte', 5)]
    chunk = 5
    for i in range(0, len(per_type), chunk):
        tl.append(('per_type_%d' % (i // chunk), t_random,
                   dict(n=(300 if q else 8000) * chunk,
                        specs=per_type[i:i + chunk])))
    return tl
