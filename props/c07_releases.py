"""C07 - core packets match the published protocol for every supported
release: ids and byte layouts against vlib.refproto (independent table)."""
import importlib

from hypothesis import strategies as st

from vlib import wire, refproto
from vlib.budget import Sink
from vlib.runner import hyp
from props import c04_position as P4
from props import c05_roundtrip as P5

PROPERTY = 'C07'
LEVEL = 'exploration'
RULE = ('Through a connection: the four serverbound play core packets, '
        'carrying a context of another release, written through a logged-in '
        'Connection at sampled releases must equal the reference frame of '
        'the connection\'s release. '
        'The 30 release protocols 1.8..1.18.1 (literal list in '
        'vlib/refproto.py, cross-checked against the library\'s release '
        'table) x the 23 core packets x field values (rotating boundary '
        'assignments per (release, packet) then Hypothesis random). Oracle: '
        'class id == table id (G1); bytes written by the library == '
        'reference encoding of the table\'s layout (G2); reference bytes '
        'decode into the same field values with exact consumption (G3); the '
        'class is registered for the release exactly when the table lists '
        'the packet (G4). Non-trivial: (release, packet) cases with at '
        'least one field off its zero/empty value (or field-less packets, '
        'counted once per release); distinct by (release, packet, values).')
RULE += (' ' +
         'Added in later rounds: the serverbound position-and-look packet '
         'filled through its record view; core serverbound packets carrying '
         'a foreign context written through a logged-in Connection; recycled '
         'packet objects (first written / read as the same packet of another '
         'release, then filled / read again after their context moved on). '
         'Round 11: the handshake of each via-connection session (published '
         'layout, the host name the user gave) also when the name resolves '
         'to 2-3 address records per family. Round 13: component views - '
         "Join Game's game_mode / is_hardcore / pure_game_mode under all "
         'pairs and random sequences of assignments on a decoded packet, '
         'then re-encoded. Final sweep: 20 texts with one control / '
         'whitespace character at either end in every String field of every '
         'core packet at every release. ')
LEVEL_TEXT = ('Differential testing of ids and byte layouts of the core '
              'packet set against an independent literal table and encoder, '
              'complete over releases x core packets, sampled over field '
              'values.')
LEVEL_NOTE = ('The reference table is written from memory of the published '
              'protocol documentation (no network in the sandbox); it is the '
              'part of the trusted base most likely to be wrong and covers '
              'only releases and the core packet set. Snapshot versions are '
              'outside this property.')
TECHNIQUE = ('differential testing against an independent protocol table '
             'and reference encoder; exhaustive over releases x packets')
ASSUMPTIONS = ['vlib/refproto.py reflects the published protocol',
               'vlib/wire.py and vlib/nbt.py reference encoders are correct']


def get_cls(p):
    m = importlib.import_module('minecraft.networking.packets.%s.%s'
                                % (p['direction'], p['state']))
    return m, getattr(m, p['cls'], None)


def specs_of(p):
    return {a: refproto.TAG_SPEC[t] for a, t in p['layout']}


def membership_case(ctx, case):
    rel, name = case['release'], case['packet']
    p = refproto.packet(rel, name)
    ctx.ev()
    m, cls = get_cls(p)
    if cls is None:
        ctx.fail('membership', 'G4-class-missing', case)
        return
    registered = cls in m.get_packets(P4.ctx_for(rel))
    if registered != p['present']:
        ctx.fail('membership', 'G4-membership', case, registered,
                 p['present'])
    if p['present']:
        try:
            got = cls.get_id(P4.ctx_for(rel))
        except Exception as e:
            ctx.fail('membership', 'G1-id-raises', case, exc=e)
            return
        if got != p['id']:
            ctx.fail('membership', 'G1-id', case, got, p['id'])
    ctx.nt('m', rel, name)


def packet_case(ctx, case):
    """case {release, packet, values{attr: neutral}}"""
    rel, name, vals = case['release'], case['packet'], case['values']
    p = refproto.packet(rel, name)
    ctx.ev()
    m, cls = get_cls(p)
    if cls is None:
        ctx.fail('packet', 'G4-class-missing', case)
        return
    # 'recycle': the caller's packet objects were used before, for the same
    # packet of another release (written resp. read there), and are filled /
    # read again here after their context has moved on to this release
    old_w = old_r = None
    rc = case.get('recycle')
    if rc:
        p0 = refproto.packet(rc['release'], name)
        if p0['present'] and get_cls(p0)[1] is cls:
            try:
                c0 = P4.ctx_for(rc['release'])
                specs0 = specs_of(p0)
                old_w, old_r = cls(), cls()
                old_w.context = old_r.context = c0
                for a, t in p0['layout']:
                    setattr(old_w, a, P5.to_py(specs0[a], rc['values'][a]))
                old_w.write(Sink())
                from minecraft.networking.packets import PacketBuffer
                b0 = PacketBuffer()
                b0.send(refproto.encode_fields(p0['layout'], rc['values']))
                b0.reset_cursor()
                old_r.read(b0)
                ctx.label('packet_recycled_object')
            except Exception:
                old_w = old_r = None     # judged by that release's own case
    c = P4.ctx_for(rel)
    specs = specs_of(p)
    ref_body = refproto.encode_fields(p['layout'], vals)
    if old_w is not None:
        old_w.context = old_r.context = c
        try:
            for a, t in p['layout']:
                setattr(old_w, a, P5.to_py(specs[a], vals[a]))
            s0 = Sink()
            old_w.write(s0)
            got0 = P5.frame_split(s0.value)
            if got0 != (p['id'], ref_body):
                ctx.fail('packet', 'G2-bytes-recycled-object', case,
                         (got0[0], got0[1].hex()[:300]),
                         (p['id'], ref_body.hex()[:300]))
        except Exception as e:
            ctx.fail('packet', 'G2-recycled-object-raises', case, exc=e)
        try:
            from minecraft.networking.packets import PacketBuffer
            b1 = PacketBuffer()
            b1.send(ref_body)
            b1.reset_cursor()
            old_r.read(b1)
            for a, t in p['layout']:
                if not hasattr(old_r, a) or not P5.same5(
                        specs[a], vals[a], getattr(old_r, a)):
                    ctx.fail('packet', 'G3-field-recycled-object',
                             dict(case, field=a),
                             repr(getattr(old_r, a, None))[:200],
                             repr(vals[a])[:200])
        except Exception as e:
            ctx.fail('packet', 'G3-recycled-object-raises', case, exc=e)
    # G2: pyCraft writes == reference
    pk = cls()
    pk.context = c
    for a, t in p['layout']:
        setattr(pk, a, P5.to_py(specs[a], vals[a]))
    s = Sink()
    try:
        pk.write(s)
        pid, body = P5.frame_split(s.value)
    except Exception as e:
        ctx.fail('packet', 'G2-write-raises', case, exc=e)
        pid = body = None
    if body is not None:
        if pid != p['id']:
            ctx.fail('packet', 'G1-id', case, pid, p['id'])
        if body != ref_body:
            ctx.fail('packet', 'G2-bytes', case, body.hex()[:300],
                     ref_body.hex()[:300])
    if name == 'sb position and look' and body is not None:
        # the same packet filled through its record view
        try:
            from minecraft.networking.types import PositionAndLook
            pk2 = cls()
            pk2.context = c
            pk2.position_and_look = PositionAndLook(
                x=vals['x'], y=vals['feet_y'], z=vals['z'], yaw=vals['yaw'],
                pitch=vals['pitch'])
            pk2.on_ground = vals['on_ground']
            s2 = Sink()
            pk2.write(s2)
            if P5.frame_split(s2.value)[1] != body:
                ctx.fail('packet', 'G2-bytes-via-record-view', case,
                         P5.frame_split(s2.value)[1].hex()[:200],
                         body.hex()[:200])
        except Exception as e:
            ctx.fail('packet', 'G2-record-view-raises', case, exc=e)
    # G3: reference bytes decode under pyCraft
    from minecraft.networking.packets import PacketBuffer
    q = cls()
    q.context = c
    buf = PacketBuffer()
    buf.send(ref_body)
    buf.reset_cursor()
    try:
        q.read(buf)
    except Exception as e:
        ctx.fail('packet', 'G3-read-raises', case, exc=e)
        return
    if buf.read():
        ctx.fail('packet', 'G3-consumption', case)
    for a, t in p['layout']:
        if not hasattr(q, a) or not P5.same5(specs[a], vals[a],
                                             getattr(q, a)):
            ctx.fail('packet', 'G3-field', dict(case, field=a),
                     repr(getattr(q, a, None))[:200], repr(vals[a])[:200])
    if not p['layout'] or any(not P5.is_default(specs[a], vals[a])
                              for a, t in p['layout']):
        ctx.nt(rel, name, repr(vals))


def releases_case(ctx, case):
    """the literal release list agrees with the library's release table"""
    import minecraft
    ctx.ev()
    lib = [p for p in minecraft.RELEASE_PROTOCOL_VERSIONS if p >= 47]
    sup = set(minecraft.SUPPORTED_PROTOCOL_VERSIONS)
    missing = [r for r in refproto.RELEASES if r not in sup]
    if missing:
        ctx.fail('releases', 'G4-release-unsupported', case, missing)
    extra = [r for r in lib if r not in refproto.RELEASES]
    if extra:
        ctx.label('library_release_without_reference_table')
        ctx.notes.append('releases without reference: %r' % extra)
    for r, nm in refproto.RELEASE_NAMES.items():
        if minecraft.SUPPORTED_MINECRAFT_VERSIONS.get(nm) != r:
            ctx.fail('releases', 'G4-release-name', dict(case, name=nm),
                     minecraft.SUPPORTED_MINECRAFT_VERSIONS.get(nm), r)
    ctx.nt('releases')


SB_PLAY = ['sb chat', 'sb keep alive', 'sb position and look',
           'teleport confirm']


def via_connection_case(ctx, case):
    """A serverbound core packet written through a logged-in Connection
    carries the id and layout published for the release of THAT connection,
    whatever context the packet object carried before.  case {release,
    other, packet, values, how: 'kw'|'attr'|'none', queued}"""
    from vlib import vnet, servers
    from minecraft.networking.connection import ConnectionContext
    rel, other, name = case['release'], case['other'], case['packet']
    p = refproto.packet(rel, name)
    if not p['present']:
        return
    ctx.ev()
    m, cls = get_cls(p)
    specs = specs_of(p)
    vals = case['values']
    srv = servers.Server({'version': rel, 'login': [('success',)],
                          'play': {'bursts': [], 'end': 'silent'}})
    world = vnet.World(servers=[srv])
    host = case.get('host', 'localhost')
    if case.get('dns_records'):
        world.dns_records = case['dns_records']
    with vnet.installed(world):
        conn, o = servers.make_connection(world, allowed_versions={rel},
                                          address=host)
        try:
            conn.connect()
            import time as _t
            for _ in range(3000):
                if world.links and world.links[0].script.play_started:
                    break
                _t.sleep(0.001)
            if not world.wait_idle(world.links[0], conn):
                from vlib.core import HarnessError
                raise HarnessError('C07 via_connection: login did not '
                                   'settle')
            oc = ConnectionContext(protocol_version=other)
            pk = cls(context=oc) if case['how'] == 'kw' else cls()
            if case['how'] == 'attr':
                pk.context = oc
            for a, t in p['layout']:
                setattr(pk, a, P5.to_py(specs[a], vals[a]))
            nplay = len([f for f in srv.frames if f[0] == 'play'])
            conn.write_packet(pk, force=not case.get('queued'))
            world.wait_idle(world.links[0], conn)
            conn.disconnect()
            world.settle()
        except Exception as e:
            if type(e).__name__ == 'HarnessError':
                raise
            ctx.fail('via_connection', 'G2-write-raises', case, exc=e)
            return
    # the handshake that opened this connection: published layout, the
    # host name the user gave (however many addresses it resolves to)
    want_hs = {'protocol_version': rel, 'server_address': host,
               'server_port': 25565, 'next_state': 2}
    if srv.handshake != want_hs:
        ctx.fail('via_connection', 'G2-handshake-fields', case,
                 srv.handshake, want_hs)
        return
    got = [(pid, bytes(pl)) for st_, pid, pl, comp in srv.frames
           if st_ == 'play'][nplay:]
    want = [(p['id'], refproto.encode_fields(p['layout'], vals))]
    if got != want:
        ctx.fail('via_connection', 'G1G2-frame-of-the-connections-release',
                 case, [(i, b.hex()[:80]) for i, b in got],
                 [(i, b.hex()[:80]) for i, b in want])
        return
    ctx.nt('via', rel, other, name, case['how'])


def views_case(ctx, case):
    """The three documented views of Join Game's game mode (game_mode - the
    byte as sent before 1.16.2 / the mode proper since; is_hardcore - bit 3
    of that byte resp. its own field; pure_game_mode - the mode without the
    bit) stay consistent under any sequence of assignments to a packet that
    was decoded from the wire, and the packet then encodes to the published
    bytes.  case {release, start: [mode, hardcore], ops [[view, value]..]}"""
    rel = case['release']
    p = refproto.packet(rel, 'join game')
    if not p['present']:
        return
    ctx.ev()
    m, cls = get_cls(p)
    specs = specs_of(p)
    names = [a for a, t in p['layout']]
    split = 'is_hardcore' in names          # the flag has its own field
    mode, hc = case['start'][0] & 3, bool(case['start'][1])
    vals = boundary_values(p, rel, specs, 1)

    def put(vals_, mode_, hc_):
        vals_ = dict(vals_)
        if split:
            vals_['game_mode'], vals_['is_hardcore'] = mode_, hc_
        else:
            vals_['game_mode'] = mode_ | (8 if hc_ else 0)
        return vals_
    c = P4.ctx_for(rel)
    from minecraft.networking.packets import PacketBuffer
    q = cls()
    q.context = c
    buf = PacketBuffer()
    buf.send(refproto.encode_fields(p['layout'], put(vals, mode, hc)))
    buf.reset_cursor()
    try:
        q.read(buf)
        for i, (view, value) in enumerate(case['ops']):
            if view == 'game_mode':
                value = value & (3 if split else 11)
                q.game_mode = value
                mode = value & 3
                if not split:
                    hc = bool(value & 8)
            elif view == 'is_hardcore':
                q.is_hardcore = bool(value)
                hc = bool(value)
            else:
                q.pure_game_mode = value & 3
                mode = value & 3
            got = (q.game_mode, bool(q.is_hardcore), q.pure_game_mode)
            want = (mode if split else mode | (8 if hc else 0), hc, mode)
            if got != want:
                ctx.fail('views', 'G3-join-game-views-inconsistent',
                         dict(case, step=i), got, want)
                return
        s = Sink()
        q.write(s)
        body = P5.frame_split(s.value)[1]
    except Exception as e:
        ctx.fail('views', 'G3-join-game-views-raise', case, exc=e)
        return
    ref = refproto.encode_fields(p['layout'], put(vals, mode, hc))
    if body != ref:
        ctx.fail('views', 'G2-bytes-after-view-assignments', case,
                 body.hex()[:80], ref.hex()[:80])
        return
    if len(case['ops']) >= 2:
        ctx.nt('views', rel, repr(case['start']), repr(case['ops']))
    ctx.label('views')


membership_case = P4.reassigned(membership_case, 'release')
packet_case = P4.reassigned(packet_case, 'release')
COMPONENTS = {'views': views_case, 'via_connection': via_connection_case,
              'membership': membership_case, 'packet': packet_case,
              'releases': releases_case}


_GM = [0, 1, 2, 3, 8, 11]


def tweak_strategy(p, rel, specs):
    d = {}
    for a, t in p['layout']:
        sp = specs[a]
        if a in ('game_mode',):
            d[a] = st.sampled_from(_GM if rel < 751 else [0, 1, 2, 3])
        elif a == 'previous_game_mode':
            d[a] = st.sampled_from([0, 1, 2, 3, 255])
        else:
            d[a] = P5.strat5(sp, rel)
    return st.fixed_dictionaries(d)


def boundary_values(p, rel, specs, r):
    vals = {}
    for i, (a, t) in enumerate(p['layout']):
        if a == 'game_mode':
            b = _GM if rel < 751 else [0, 1, 2, 3]
        elif a == 'previous_game_mode':
            b = [0, 255, 3]
        elif a == 'server_port':
            b = [0, 65535, 25565]
        else:
            b = P5.boundaries(specs[a], rel)
        vals[a] = b[(r + i) % len(b)] if r < 5 else b[(r * 5 + i * 3) % len(b)]
    return vals


_RECYCLE_FROM = (47, 340, 578, 757)
EDGE_TEXTS = ['a\r', 'a\n', 'a\t', 'a ', 'a\x00', 'a\r\r', '\r', '\ra',
              '\na', ' a', '\x00a', 'a\x0b', 'a\x0c', 'a\x1f', 'a\x7f',
              'a\x85', 'a\xa0', 'a\u2028', 'a\u3000', 'a\ufeff']


def t_table(ctx, rounds, part=0, parts=1):
    if part == 0:
        releases_case(ctx, {})
    for rel in list(refproto.RELEASES)[part::parts]:
        for p in refproto.core_packets(rel):
            membership_case(ctx, {'release': rel, 'packet': p['name']})
            if not p['present']:
                continue
            specs = specs_of(p)
            for r in range(rounds if p['layout'] else 1):
                case = {'release': rel, 'packet': p['name'],
                        'values': boundary_values(p, rel, specs, r)}
                packet_case(ctx, case)
                if ctx.evaluations % 900 == 5:
                    ctx.sample(case, 'packet')
                if r >= 6 or not p['layout']:
                    continue
                for r0 in _RECYCLE_FROM:
                    p0 = refproto.packet(r0, p['name'])
                    if r0 == rel or not p0['present']:
                        continue
                    packet_case(ctx, dict(case, recycle={
                        'release': r0, 'values': boundary_values(
                            p0, r0, specs_of(p0), r + 1)}))
            # texts with one control / whitespace character at either end
            # in every String field (a terminal leaves '\r' behind, a config
            # file a trailing newline): carried as given
            sfields = [a for a, t in p['layout'] if specs[a] == 'String']
            if sfields:
                base = boundary_values(p, rel, specs, 0)
                for txt in EDGE_TEXTS:
                    packet_case(ctx, {'release': rel, 'packet': p['name'],
                                      'values': dict(base, **{
                                          a: txt for a in sfields})})
    ctx.exhaustive_done('releases x core packets: ids, membership, boundary '
                        'values, edge texts in String fields')


def t_random(ctx, n):
    pairs = [(rel, p['name']) for rel in refproto.RELEASES
             for p in refproto.core_packets(rel)
             if p['present'] and p['layout']]

    def vs(pr):
        rel, name = pr
        p = refproto.packet(rel, name)
        others = [r for r in refproto.RELEASES if r != rel and
                  refproto.packet(r, name)['present']]

        def rec(r0):
            p0 = refproto.packet(r0, name)
            return st.fixed_dictionaries({
                'release': st.just(r0),
                'values': tweak_strategy(p0, r0, specs_of(p0))})
        return st.tuples(st.just(pr), tweak_strategy(p, rel, specs_of(p)),
                         st.one_of(st.none(), st.sampled_from(others)
                                   .flatmap(rec)) if others else st.none())
    strat = st.sampled_from(pairs).flatmap(vs)

    def body(c, t):
        (rel, name), vals, rc = t
        case = {'release': rel, 'packet': name, 'values': vals}
        if rc:
            case['recycle'] = rc
        packet_case(c, case)
        if c.evaluations % 500 == 5:
            c.sample(case, 'packet')
    hyp(ctx, 'random', strat, body, n)


def t_via_connection(ctx, releases):
    k = 0
    for rel in releases:
        for name in SB_PLAY:
            p = refproto.packet(rel, name)
            if not p['present']:
                continue
            for other in (47, 340, 757):
                if other == rel:
                    continue
                k += 1
                via_connection_case(ctx, {
                    'release': rel, 'other': other, 'packet': name,
                    'values': boundary_values(p, rel, specs_of(p), k % 5),
                    'how': ['kw', 'attr', 'none'][k % 3],
                    'queued': bool(k % 2),
                    'host': ['localhost', 'play.example.org',
                             '192.0.2.7'][k % 3],
                    'dns_records': [None, 2, 3, None][k % 4]})
    ctx.sample({'release': releases[0], 'other': 757, 'packet': 'sb chat'},
               'via_connection')


def t_views(ctx, n, rels=None):
    import itertools
    ops1 = [['game_mode', 1], ['game_mode', 9], ['game_mode', 0],
            ['is_hardcore', 1], ['is_hardcore', 0], ['pure_game_mode', 2],
            ['pure_game_mode', 0]]
    for rel in (rels or refproto.RELEASES):
        for start in ([0, 0], [1, 1], [3, 0], [2, 1]):
            for a, b in itertools.product(ops1, repeat=2):
                views_case(ctx, {'release': rel, 'start': start,
                                 'ops': [a, b]})
    ctx.exhaustive_done('join game views: releases x 4 decoded states x all '
                        'pairs of 7 assignments')
    strat = st.fixed_dictionaries({
        'release': st.sampled_from(list(refproto.RELEASES)),
        'start': st.tuples(st.integers(0, 3), st.booleans()).map(list),
        'ops': st.lists(st.tuples(
            st.sampled_from(['game_mode', 'is_hardcore', 'pure_game_mode']),
            st.integers(0, 11)).map(list), max_size=8)})

    def body(c, case):
        views_case(c, case)
        if c.evaluations % 300 == 5:
            c.sample(case, 'views')
    hyp(ctx, 'views', strat, body, n)


def tasks(tier):
    q = tier == 'quick'
    rels = list(refproto.RELEASES)
    tl = [('table_%d' % i, t_table,
           dict(rounds=12 if q else 40, part=i, parts=4)) for i in range(4)]
    for part in ([rels[::6], rels[3::6]] if q else
                 [rels[i::6] for i in range(6)]):
        tl.append(('via_connection_%d' % part[0], t_via_connection,
                   dict(releases=part)))
    vr = sorted(set(rels[::4] + [340, 736, 751])) if q else rels
    for i in range(3):
        tl.append(('views_%d' % i, t_views,
                   dict(n=100 if q else 2000, rels=vr[i::3])))
    for i in range(6 if q else 14):
        tl.append(('random_%d' % i, t_random, dict(n=1500 if q else 25000)))
    return tl
