"""C05 - every packet class round-trips under every supported protocol
version; user-defined field-list packets too."""
import importlib
import json
import math

from hypothesis import strategies as st

from vlib import wire, nbt
from vlib.budget import CountingStream, Sink
from vlib.runner import hyp
from props import c02_types as T2
from props import c04_position as P4

PROPERTY = 'C05'
LEVEL = 'exploration'
RULE = ('Generated definitions also group 0-3 fields per entry; strings '
        'also with BOM / NUL / whitespace edge characters; every 4th '
        'case also on a context that first carried another version. '
'Every supported protocol version x every class of the 8 '
        'get_packets tables (enumerated completely): definition-driven '
        'classes get values per field from strategies keyed by the wire '
        'type (always wire-representable: binary32-exact floats, on-grid '
        'angles/fixed point, VarInt fields in [0,2^31), mixed-width UTF-8, '
        'generated NBT trees), two rotating boundary assignments per '
        '(class, version) plus Hypothesis random values; hand-written codecs '
        '(Map, PlayerListItem, SpawnObject, CombatEvent, FacePlayer, '
        'PluginResponse) get per-class generators covering every variant '
        'and optional-field combination; plus Hypothesis-generated packet '
        'definitions (programs) of 0-8 typed fields incl. nested arrays and '
        'context-dependent Position. Oracle: frame = length|id|body with id '
        '== id registered for the version (F1); a fresh instance reads the '
        'body and consumes it exactly (F2); all fields equal (F3); '
        'repr/str succeed (F4); for definition-driven packets body == '
        'concatenated reference encodings (F5) and reference bytes decode '
        'and re-encode identically (F6). Non-trivial: at least one field '
        'off zero/empty/default; distinct by (class, version, values).')
RULE += (' ' +
         'Added in later rounds: every check also on a context object that '
         "first carried another era's version (@reassigned-context); decoded "
         'fields are read while the context carries a version across every '
         'layout change, then re-encoded (property views excepted); '
         'definition entries with several keys; 31 look-alike texts in every '
         'String field of every (class, version) pair; overlapping '
         'writes/reads of nine packets incl. cross-version pairs. Round 11: '
         'generated packets with nested Enum classes named after fields of '
         'any type and non-scalar class constants (repr must still work). '
         'Round 12: layout and id declared on each instance, or a '
         'class-level prefix the instance extends. Round 13: fields typed '
         'with a subclass of a basic wire type are judged by the base type; '
         'protocol-known channel names and identifiers among the look-alike '
         'texts. Round 14: history independence of layouts (canonical '
         'layouts from a fresh child interpreter, self-contained witness on '
         'failure); every other NBT value is taken out of a larger pynbt '
         'document. Round 15: packet write / read run with warnings '
         'escalated to errors. Final sweep: the look-alike texts include '
         'texts with one control / whitespace character at either end. ')
LEVEL_TEXT = ('Round-trip + exact-consumption + reference-encoding testing '
              'over the complete (class, supported version) configuration '
              'space with boundary and seeded random field values, and over '
              'randomly generated packet definitions.')
LEVEL_NOTE = ('Configurations are enumerated completely; field values are '
              'sampled. Trusted: vlib/wire.py and vlib/nbt.py reference '
              'encoders; pynbt (third-party) for NBT object construction. '
              'Map offsets are drawn from 0..127 (the only range both codec '
              'directions agree on, and the whole range of a 128x128 map).')
TECHNIQUE = ('exhaustive enumeration of (class, version) pairs + '
             'property-based round-trip and reference-encoding testing; '
             'generated packet definitions')
ASSUMPTIONS = ['values are wire-representable by construction',
               'map offsets restricted to 0..127',
               'VarInt-typed fields restricted to [0, 2^31)']

TABLES = [(d, s) for d in ('clientbound', 'serverbound')
          for s in ('handshake', 'status', 'login', 'play')]
PRE = 1 << 30


def later_eq(v, x):
    return P4.rank(v) >= P4.rank(x)


def supported():
    import minecraft
    out = []
    for r in minecraft.KNOWN_MINECRAFT_VERSION_RECORDS:
        if r.supported and r.protocol not in out:
            out.append(r.protocol)
    return out


def table(direction, state, version):
    m = importlib.import_module('minecraft.networking.packets.%s.%s'
                                % (direction, state))
    return sorted(m.get_packets(P4.ctx_for(version)),
                  key=lambda c: c.__name__)


def find_class(direction, state, version, name):
    for c in table(direction, state, version):
        if c.__name__ == name:
            return c
    raise KeyError(name)


# ----------------------------------------------------------- specs of types

def spec_of(t):
    from minecraft.networking import types as T
    from minecraft.networking.packets.clientbound import play as cp
    if isinstance(t, T.FixedPoint):
        bits = t.denominator.bit_length() - 1
        return ('FixedPoint', spec_of(t.integer_type), bits)
    if isinstance(t, T.PrefixedArray):
        return ('PrefixedArray', spec_of(t.length_type),
                spec_of(t.element_type))
    for n in ('Boolean', 'UnsignedByte', 'Byte', 'Short', 'UnsignedShort',
              'Integer', 'VarInt', 'VarLong', 'Long', 'UnsignedLong',
              'Float', 'Double', 'ShortPrefixedByteArray',
              'VarIntPrefixedByteArray', 'TrailingByteArray', 'String',
              'UUID', 'Position', 'NBT', 'Angle'):
        if t is getattr(T, n):
            return n
    if t is cp.ExplosionPacket.Record:
        return 'ExplosionRecord'
    if t is cp.MultiBlockChangePacket.Record:
        return 'MBRecord'
    if t is cp.MultiBlockChangePacket.ChunkSectionPos:
        return 'ChunkSectionPos'
    if t is cp.SoundEffectPacket.EffectPosition:
        return 'EffectPosition'
    if t is cp.SoundEffectPacket.Pitch:
        return 'Pitch'
    # a field declared with a subclass of a basic wire type is a field of
    # that type: judged by the base type's published encoding
    import inspect
    if inspect.isclass(t):
        for n in ('String', 'VarInt', 'VarLong', 'TrailingByteArray',
                  'VarIntPrefixedByteArray', 'ShortPrefixedByteArray',
                  'UUID', 'Position', 'Angle', 'Boolean', 'UnsignedByte',
                  'Byte', 'Short', 'UnsignedShort', 'Integer', 'Long',
                  'UnsignedLong', 'Float', 'Double'):
            if issubclass(t, getattr(T, n)):
                return n
    raise KeyError('unknown wire type %r' % (t,))


CUSTOM = ('Position', 'NBT', 'ExplosionRecord', 'MBRecord',
          'ChunkSectionPos', 'EffectPosition', 'Pitch', 'VarLong')


def enc5(spec, v, ver):
    """reference encoding (bytes) or None if no reference is defined"""
    n = T2.spec_name(spec)
    if n == 'PrefixedArray':
        parts = [enc5(spec[2], e, ver) for e in v]
        if any(p is None for p in parts):
            return None
        return T2.ref_enc(spec[1], len(v)) + b''.join(parts)
    if n == 'Position':
        lay = P4.required_layout(ver) or P4.probe_layout(ver)
        return wire.position_word(v[0], v[1], v[2],
                                  lay == 'new').to_bytes(8, 'big')
    if n == 'NBT':
        return nbt.encode_root(v)
    if n == 'ExplosionRecord':
        return b''.join(wire.sint(c, 8) for c in v)
    if n == 'MBRecord':
        return P4.ref_record(ver, *v)
    if n == 'ChunkSectionPos':
        return wire.section_pos_word(*v).to_bytes(8, 'big')
    if n == 'EffectPosition':
        return b''.join(wire.sint(int(c * 8), 32) for c in v)
    if n == 'Pitch':
        if later_eq(ver, 204):
            return wire.f32(v)
        if later_eq(ver, 201):
            return wire.f32(v * 63.5)
        return wire.sint(int(v * 63.5), 8)
    if n == 'VarLong':
        return wire.varint(v)
    return T2.ref_enc(spec, v)


def to_py(spec, v):
    """generated neutral value -> object handed to pyCraft"""
    n = T2.spec_name(spec)
    if n == 'PrefixedArray':
        return [to_py(spec[2], e) for e in v]
    if n == 'NBT':
        import pynbt          # the form the repository's own callers use
        root = pynbt.TAG_Compound(nbt.root_to_pynbt_dict(v))
        if len(repr(v)) % 2:
            # the natural way to fill such a field: the compound is taken
            # out of a larger document (a registry, a cached codec), where
            # pynbt has given it its key as name.  On the wire the root of a
            # packet's NBT field is unnamed all the same
            doc = pynbt.TAG_Compound({'element': root,
                                      'other': pynbt.TAG_Int(1)})
            root = doc['element']
        return root
    if n == 'MBRecord':
        from minecraft.networking.packets.clientbound.play import \
            MultiBlockChangePacket as M
        return M.Record(x=v[0], y=v[1], z=v[2], block_state_id=v[3])
    if n in ('Position', 'ExplosionRecord', 'ChunkSectionPos',
             'EffectPosition'):
        return tuple(v)
    return v


def same5(spec, want, got):
    n = T2.spec_name(spec)
    if n == 'PrefixedArray':
        return isinstance(got, list) and len(got) == len(want) and all(
            same5(spec[2], a, b) for a, b in zip(want, got))
    if n == 'NBT':
        try:
            return _nbt_eq(('compound', want), nbt.from_pynbt(got))
        except Exception:
            return False
    if n == 'MBRecord':
        try:
            return (got.x, got.y, got.z, got.block_state_id) == tuple(want)
        except AttributeError:
            return False
    if n in ('Position', 'ExplosionRecord', 'ChunkSectionPos',
             'EffectPosition'):
        try:
            return tuple(got) == tuple(want)
        except TypeError:
            return False
    if n in ('Pitch',):
        return isinstance(got, (int, float)) and got == want
    if n == 'VarLong':
        return type(got) is int and got == want
    return T2.same(spec, want, got)


def _nbt_eq(a, b):
    if a[0] != b[0]:
        return False
    if a[0] == 'compound':
        return list(a[1]) == list(b[1]) and all(
            _nbt_eq(a[1][k], b[1][k]) for k in a[1])
    if a[0] == 'list':
        (ta, xa), (tb, xb) = a[1], b[1]
        if len(xa) != len(xb) or (ta != tb and xa):
            return False
        return all(_nbt_eq((ta, x), (tb, y)) for x, y in zip(xa, xb))
    if a[0] in ('float', 'double'):
        return a[1] == b[1] and math.copysign(1, a[1]) == \
            math.copysign(1, b[1])
    return a[1] == b[1]


def strat5(spec, ver, small=False):
    n = T2.spec_name(spec)
    if n == 'PrefixedArray':
        mx = min(T2.LEN_MAX[spec[1]], 3 if small else 5)
        return st.lists(strat5(spec[2], ver, small=True), max_size=mx)
    if n == 'Position':
        return st.tuples(st.integers(-2 ** 25, 2 ** 25 - 1),
                         st.integers(-2 ** 11, 2 ** 11 - 1),
                         st.integers(-2 ** 25, 2 ** 25 - 1))
    if n == 'NBT':
        return nbt.strategy(4 if small else 8)
    if n == 'ExplosionRecord':
        return st.tuples(*[st.integers(-128, 127)] * 3)
    if n == 'MBRecord':
        if later_eq(ver, 741):
            return st.tuples(st.integers(0, 15), st.integers(0, 15),
                             st.integers(0, 15), st.integers(0, 2 ** 51 - 1))
        return st.tuples(st.integers(0, 15), st.integers(0, 255),
                         st.integers(0, 15), st.integers(0, 2 ** 31 - 1))
    if n == 'ChunkSectionPos':
        return st.tuples(st.integers(-2 ** 21, 2 ** 21 - 1),
                         st.integers(-2 ** 19, 2 ** 19 - 1),
                         st.integers(-2 ** 21, 2 ** 21 - 1))
    if n == 'EffectPosition':
        k = st.integers(-2 ** 31, 2 ** 31 - 1).map(lambda i: i / 8.0)
        return st.tuples(k, k, k)
    if n == 'Pitch':
        if later_eq(ver, 204):
            return T2.f32_values().filter(lambda x: x == x)
        if later_eq(ver, 201):
            return st.integers(-8, 8).map(lambda j: j / 2.0)
        return st.sampled_from([-2.0, 0.0, 2.0])
    if n == 'VarLong':
        return st.integers(0, 2 ** 63 - 1)
    if n == 'Float':
        return T2.f32_values().filter(lambda x: x == x)
    if n == 'Double':
        return st.floats(allow_nan=False)
    if n == 'Angle':
        return st.integers(0, 255).map(lambda k: k * 360 / 256)
    if n in ('FixedPoint', 'FixedPointInteger'):
        return T2.value_strategy(spec, small=True)    # on-grid only
    if n == 'String':
        return T2.value_strategy('String', small=small)
    return T2.value_strategy(spec, small=small)


_BOUND = {
    'Boolean': [False, True], 'UnsignedByte': [0, 255, 1, 128],
    'Byte': [0, -128, 127, -1], 'Short': [0, -2 ** 15, 2 ** 15 - 1, -1],
    'UnsignedShort': [0, 65535, 25565, 1],
    'Integer': [0, -2 ** 31, 2 ** 31 - 1, -1],
    'VarInt': [0, 2 ** 31 - 1, 127, 128, 16384, 2 ** 21 - 1, 2 ** 28],
    'VarLong': [0, 2 ** 63 - 1, 128, 2 ** 35],
    'Long': [0, -2 ** 63, 2 ** 63 - 1, -1], 'UnsignedLong': [0, 2 ** 64 - 1],
    'Float': [0.0, -0.0, 3.4028234663852886e+38, 1.401298464324817e-45,
              -1.5, float('inf')],
    'Double': [0.0, -0.0, 1.7976931348623157e308, 5e-324, -1.5,
               float('-inf')],
    'String': ['', 'x' * 128, 'é世\U0001f600', 'a', '{"text":"x"}',
               '\ufeff{"text":"x"}', '\ufeff', ' x ', '\x00', 'a\r\n',
               '\ufffd\u2028',
               # beyond 32767 BYTES (the protocol's string limits count
               # characters; chat / disconnect JSON may be far longer)
               'x' * 40000, '\u4e16' * 11000],
    'UUID': ['00000000-0000-0000-0000-000000000000',
             'ffffffff-ffff-ffff-ffff-ffffffffffff',
             '12345678-1234-5678-1234-567812345678'],
    'VarIntPrefixedByteArray': [b'', bytes(range(200)), b'\x00', b'\xff' * 3],
    'ShortPrefixedByteArray': [b'', bytes(range(200)), b'\x00'],
    'TrailingByteArray': [b'', bytes(range(256)), b'\x00'],
    'Angle': [0.0, 255 * 360 / 256, 180.0, 1.40625],
    'Position': [(0, 0, 0), (-2 ** 25, -2 ** 11, -2 ** 25),
                 (2 ** 25 - 1, 2 ** 11 - 1, 2 ** 25 - 1), (-1, 255, 1)],
    'ExplosionRecord': [(0, 0, 0), (-128, 127, -1)],
    'ChunkSectionPos': [(0, 0, 0), (-2 ** 21, -2 ** 19, -2 ** 21),
                        (2 ** 21 - 1, 2 ** 19 - 1, 2 ** 21 - 1)],
    'EffectPosition': [(0.0, 0.0, 0.0), (-2 ** 31 / 8.0, (2 ** 31 - 1) / 8.0,
                                        0.125)],
    'NBT': [{}, {'a': ('int', -1), 'l': ('list', ('string', ['x', ''])),
                 'c': ('compound', {'é': ('long_array', [2 ** 63 - 1])}),
                 'e': ('list', ('byte', [])),
                 'lc': ('list', ('compound', [{'d': ('double', -0.0)}]))}],
}


def boundaries(spec, ver):
    n = T2.spec_name(spec)
    if n == 'PrefixedArray':
        inner = boundaries(spec[2], ver)
        return [[], inner[:3], inner[-1:]]
    if n == 'MBRecord':
        if later_eq(ver, 741):
            return [(0, 0, 0, 0), (15, 15, 15, 2 ** 51 - 1), (1, 2, 3, 128)]
        return [(0, 0, 0, 0), (15, 255, 15, 2 ** 31 - 1), (1, 2, 3, 128)]
    if n == 'Pitch':
        if later_eq(ver, 204):
            return [0.0, 1.0, 0.5, 3.4028234663852886e+38]
        if later_eq(ver, 201):
            return [0.0, 1.0, -0.5, 2.0]
        return [0.0, 2.0, -2.0]
    if n in ('FixedPoint', 'FixedPointInteger'):
        carrier, fb = ('Integer', 5) if n == 'FixedPointInteger' \
            else (spec[1], spec[2])
        lo, hi = T2.INT_RANGES[carrier][:2]
        return [0.0, lo / (1 << fb), hi / (1 << fb), -1 / (1 << fb)]
    return _BOUND[n]


def is_default(spec, v):
    return v in (0, 0.0, '', b'', False, [], {}, None) or \
        v in ((0, 0, 0), (0, 0, 0, 0), (0.0, 0.0, 0.0))


# ---------------------------------------------------- definition-driven path

def is_definition_driven(cls):
    from minecraft.networking.packets import Packet
    return cls.read is Packet.read and cls.write_fields is Packet.write_fields


def fields_of(cls, ver):
    d = cls.get_definition(P4.ctx_for(ver))
    out = []
    for f in d:
        for name, t in f.items():
            out.append((name, t, spec_of(t)))
    return out


_CANON = {}
_CANON_SCRIPT = r"""
import json, sys
sys.dont_write_bytecode = True
sys.path.insert(0, sys.argv[1]); sys.path.insert(0, sys.argv[2])
from props import c05_roundtrip as P5
out = {}
for v in P5.supported():                 # ascending: chronological order
    for d, s in P5.TABLES:
        for cls in P5.table(d, s, v):
            try:
                fl = P5.fields_of(cls, v)
            except Exception:
                continue
            out['%s/%s/%s/%d' % (d, s, cls.__name__, v)] = \
                [[n, repr(sp)] for n, t, sp in fl]
print(json.dumps(out))
"""


def canonical_layouts():
    """The field list of every (class, version) as a FRESH interpreter
    computes it that visits the versions once, in chronological order.  A
    layout is a function of the version alone: whatever this process has
    done before (other versions first, other connections), it must arrive at
    the same list."""
    if 'table' not in _CANON:
        import os
        import subprocess
        import sys
        from vlib import core
        here = os.path.dirname(os.path.dirname(os.path.abspath(__file__)))
        try:
            r = subprocess.run([sys.executable, '-c', _CANON_SCRIPT, here,
                                core.REPO], stdout=subprocess.PIPE,
                               stderr=subprocess.PIPE, timeout=300)
            _CANON['table'] = json.loads(r.stdout.decode())
        except Exception as e:
            raise core.HarnessError('canonical layouts: %r' % (e,))
    return _CANON['table']


def prepare(tier):
    canonical_layouts()


_WITNESS_SCRIPT = r"""
import json, sys
sys.dont_write_bytecode = True
sys.path.insert(0, sys.argv[1]); sys.path.insert(0, sys.argv[2])
from props import c05_roundtrip as P5
d, s, name, pv, ver = sys.argv[3], sys.argv[4], sys.argv[5], \
    int(sys.argv[6]), int(sys.argv[7])
try:
    P5.fields_of(P5.find_class(d, s, pv, name), pv)
except Exception:
    pass
fl = P5.fields_of(P5.find_class(d, s, ver, name), ver)
print(json.dumps([[n, repr(sp)] for n, t, sp in fl]))
"""


def history_witness(case, ver, canon):
    """a single earlier version that, visited first in a fresh interpreter,
    already makes the layout at `ver` differ (so that the stored case
    reproduces on its own); None if no single version does"""
    import os
    import subprocess
    import sys
    from vlib import core
    here = os.path.dirname(os.path.dirname(os.path.abspath(__file__)))
    for pv in list(reversed(P4.ERAS)) + [748, 741, 740]:
        if pv == ver:
            continue
        try:
            r = subprocess.run(
                [sys.executable, '-c', _WITNESS_SCRIPT, here, core.REPO,
                 case['direction'], case['state'], case['cls'], str(pv),
                 str(ver)], stdout=subprocess.PIPE, stderr=subprocess.PIPE,
                timeout=120)
            if json.loads(r.stdout.decode()) != canon:
                return pv
        except Exception:
            continue
    return None


def frame_split(data):
    n, p = wire.read_varint(data, 0)
    if p + n != len(data):
        raise wire.WireError('frame length %d but %d bytes follow'
                             % (n, len(data) - p))
    pid, q = wire.read_varint(data, p)
    return pid, data[q:]


_REACTORS = {}
_IDS_BY_VERSION = {}


class _Ready(object):
    """stands in for the `select` module inside connection.py while one
    frame held in memory is handed to PacketReactor.read_packet"""
    error = OSError

    @staticmethod
    def select(r, w, x, timeout=None):
        return list(r), [], []


def delivered_leg(ctx, comp, case, cls, ver, frame):
    """The packet as a listener receives it: the frame is decoded by the
    real reactor of its state (PacketReactor.read_packet).  The decoder
    chosen must be the class whose id it is, and the object delivered
    follows its context like any other packet: given to a connection that
    speaks another version (Connection.write_packet assigns its own
    context), it carries the id registered for *that* version."""
    import io
    from minecraft.networking import connection as C
    state = case.get('state')
    rc = {'handshake': C.PacketReactor, 'status': C.StatusReactor,
          'login': C.LoginReactor, 'play': C.PlayingReactor}.get(state)
    if rc is None:
        return
    key = (state, ver)
    if key not in _REACTORS:
        if len(_REACTORS) > 64:
            _REACTORS.clear()
        conn = C.Connection('localhost', 25565, username='u',
                            allowed_versions={ver})
        _REACTORS[key] = (conn, rc(conn))
    conn, reactor = _REACTORS[key]
    saved = C.select
    C.select = _Ready
    try:
        d = reactor.read_packet(io.BytesIO(frame), timeout=0)
    except Exception as e:
        ctx.fail(comp, 'F7-delivery-raises', case, exc=e)
        return
    finally:
        C.select = saved
    if type(d) is not cls:
        ctx.fail(comp, 'F7-delivered-class', case, type(d).__name__,
                 cls.__name__)
        return
    ik = (cls.__name__, state)
    if ik not in _IDS_BY_VERSION:
        m = {}
        for v in supported():
            if any(k is cls for k in table('clientbound', state, v)):
                m[v] = cls.get_id(P4.ctx_for(v))
        _IDS_BY_VERSION[ik] = m
    ids = _IDS_BY_VERSION[ik]
    here = ids.get(ver)
    others = [v for v in ids if ids[v] != here]
    if not others:
        ctx.label('delivered_class_has_one_id_everywhere')
        return
    # the nearest versions before and after with another id
    r0 = P4.rank(ver)
    others.sort(key=lambda v: (abs(P4.rank(v) - r0), v))
    for vb in others[:2]:
        from minecraft.networking.connection import ConnectionContext
        d.context = ConnectionContext(protocol_version=vb)
        try:
            got = d.id
        except Exception as e:
            ctx.fail(comp, 'F7-retargeted-id-raises', dict(case, to=vb),
                     exc=e)
            continue
        if got != ids[vb]:
            ctx.fail(comp, 'F7-retargeted-id', dict(case, to=vb), got,
                     ids[vb])
    ctx.label('delivered_then_retargeted')


def check_packet(ctx, comp, case, cls, ver, p, expect, specs=None,
                 expect_id=None):
    """Common F1-F4 for a constructed packet p; expect: {attr: value} with
    specs {attr: spec} for spec-aware comparison (else ==).
    Returns body bytes or None."""
    c = P4.ctx_for(ver)
    s = Sink()
    import warnings
    try:
        with warnings.catch_warnings():
            # (also in a process that escalates warnings to errors)
            warnings.simplefilter('error')
            p.write(s)
    except Exception as e:
        ctx.fail(comp, 'F1-write-raises', case, exc=e)
        return None
    try:
        pid, body = frame_split(s.value)
    except wire.WireError as e:
        ctx.fail(comp, 'F1-frame', case, str(e))
        return None
    want_id = cls.get_id(c) if expect_id is None else expect_id
    if pid != want_id or p.id != want_id:
        ctx.fail(comp, 'F1-id', case, (pid, p.id), want_id)
    # writing does not consume or alter the packet: a second write of the
    # same object produces the same frame
    s2 = Sink()
    try:
        p.write(s2)
        if s2.value != s.value:
            ctx.fail(comp, 'F1-second-write-differs', case,
                     s2.value.hex()[:200], s.value.hex()[:200])
    except Exception as e:
        ctx.fail(comp, 'F1-second-write-raises', case, exc=e)
    if case.get('direction') == 'clientbound' and expect_id is None:
        delivered_leg(ctx, comp, case, cls, ver, s.value)
        c = P4.ctx_for(ver)
    q = cls()
    q.context = c
    from minecraft.networking.packets import PacketBuffer
    buf = PacketBuffer()
    buf.send(body)
    buf.reset_cursor()
    try:
        with warnings.catch_warnings():
            warnings.simplefilter('error')
            q.read(buf)
    except Exception as e:
        ctx.fail(comp, 'F2-read-raises', case, exc=e)
        return body
    rest = buf.read()
    if rest:
        ctx.fail(comp, 'F2-consumption', case,
                 '%d of %d bytes left' % (len(rest), len(body)), 0)
    # what was decoded stays what it is when the connection's context moves
    # on to another protocol version (reconnect / negotiation): the fields
    # are looked at while the context object carries a version on the other
    # side of every layout change
    moved = None
    if c.protocol_version == ver and ver in P4.known_protocols():
        moved = 47 if P4.rank(ver) >= P4.rank(401) else 757
        c.protocol_version = moved
    got_attrs = {}
    # (accessors the class defines as properties are views that are
    # documented to follow the context - JoinGamePacket.game_mode - and are
    # read under the version the packet was decoded at)
    views = {a for a in expect for k in type(q).__mro__
             if hasattr(k.__dict__.get(a), '__get__')}
    try:
        for attr in expect:
            try:
                if attr not in views and hasattr(q, attr):
                    got_attrs[attr] = getattr(q, attr)
            except Exception as e:
                ctx.fail(comp, 'F3-field-access-raises',
                         dict(case, field=attr), exc=e)
    finally:
        if moved is not None:
            c.protocol_version = ver
    for attr in views:
        if hasattr(q, attr):
            got_attrs[attr] = getattr(q, attr)
    # what was read can be written again unchanged (decode -> encode)
    s3 = Sink()
    try:
        q.write(s3)
        if frame_split(s3.value)[1] != body:
            ctx.fail(comp, 'F6-reencode', case,
                     frame_split(s3.value)[1].hex()[:200], body.hex()[:200])
    except Exception as e:
        ctx.fail(comp, 'F6-reencode-raises', case, exc=e)
    for attr, want in expect.items():
        if attr not in got_attrs:
            ctx.fail(comp, 'F3-field-missing', dict(case, field=attr))
            continue
        got = got_attrs[attr]
        sp = (specs or {}).get(attr)
        ok = same5(sp, want, got) if sp is not None else _plain_eq(want, got)
        if not ok:
            ctx.fail(comp, 'F3-field-differs', dict(case, field=attr),
                     repr(got)[:300], repr(want)[:300])
    for what, obj in (('p', p), ('q', q)):
        try:
            r = repr(obj)
            s_ = str(obj)
            if not isinstance(r, str) or not isinstance(s_, str) or \
                    type(obj).__name__ not in r:
                ctx.fail(comp, 'F4-repr', dict(case, which=what), r[:200])
        except Exception as e:
            ctx.fail(comp, 'F4-repr-raises', dict(case, which=what), exc=e)
    return body


def _plain_eq(want, got):
    if isinstance(want, float) and isinstance(got, (int, float)):
        return want == got and math.copysign(1, want) == \
            math.copysign(1, got)
    if isinstance(want, tuple) and not isinstance(got, tuple):
        try:
            got = tuple(got)
        except TypeError:
            return False
    if isinstance(want, (bytes, bytearray)):
        return isinstance(got, (bytes, bytearray)) and bytes(got) == \
            bytes(want)
    return type(want) is type(got) and want == got or \
        (want is None and got is None)


def defn_case(ctx, case):
    """case {direction, state, cls, version, values{field: neutral value}}"""
    ver = case['version']
    cls = find_class(case['direction'], case['state'], ver, case['cls'])
    ctx.ev()
    fl = fields_of(cls, ver)
    canon = canonical_layouts().get('%s/%s/%s/%d' % (
        case['direction'], case['state'], case['cls'], ver))
    now = [[n_, repr(sp_)] for n_, t_, sp_ in fl]
    if canon is not None and now != canon:
        lab = 'layout_history_witness_searched' + (
            '@' if case.get('prev_version') is not None else '')
        if not ctx.labels.get(lab):
            # make the stored case self-contained (once per task and mode)
            ctx.label(lab)
            pv = history_witness(case, ver, canon)
            if pv is not None:
                case = dict(case, prev_version=pv)
        ctx.fail('defn', 'F5-layout-depends-on-history', case,
                 [x[0] for x in now], [x[0] for x in canon])
        return
    vals = case['values']
    specs = {name: sp for name, t, sp in fl}
    p = cls()
    p.context = P4.ctx_for(ver)
    for name, t, sp in fl:
        setattr(p, name, to_py(sp, vals[name]))
    expect = {name: vals[name] for name, t, sp in fl}
    body = check_packet(ctx, 'defn', case, cls, ver, p, expect, specs)
    if any(not is_default(sp, vals[name]) for name, t, sp in fl):
        ctx.nt(case['cls'], ver, repr(vals))
    ctx.label('defn_roundtrip')
    if body is None:
        return
    parts = [enc5(sp, vals[name], ver) for name, t, sp in fl]
    if all(x is not None for x in parts):
        ref = b''.join(parts)
        if body != ref:
            ctx.fail('defn', 'F5-reference-bytes', case, body.hex()[:400],
                     ref.hex()[:400])
        else:
            # F6 decode-first: reference bytes decode and re-encode equal
            q = cls()
            q.context = P4.ctx_for(ver)
            from minecraft.networking.packets import PacketBuffer
            buf = PacketBuffer()
            buf.send(ref)
            buf.reset_cursor()
            try:
                q.read(buf)
                s = Sink()
                q.write(s)
                if frame_split(s.value)[1] != ref:
                    ctx.fail('defn', 'F6-reencode', case)
            except Exception as e:
                ctx.fail('defn', 'F6-decode-reencode-raises', case, exc=e)


# ----------------------------------------------------------- hand-written

def _cp():
    from minecraft.networking.packets.clientbound import play
    return play


def build_map(ver, v):
    M = _cp().MapPacket
    p = M()
    p.map_id, p.scale = v['map_id'], v['scale']
    p.is_tracking_position, p.is_locked = v['tracking'], v['locked']
    p.icons = [M.MapIcon(type=t, direction=d, location=(x, z),
                         display_name=nm) for t, d, x, z, nm in v['icons']]
    p.width = v['width']
    if v['width']:
        p.height, p.offset, p.pixels = v['height'], tuple(v['offset']), \
            v['pixels']
    exp = {'map_id': v['map_id'], 'scale': v['scale'],
           'is_tracking_position': v['tracking'], 'is_locked': v['locked'],
           'width': v['width'],
           'height': v['height'] if v['width'] else 0,
           'offset': tuple(v['offset']) if v['width'] else None,
           'pixels': v['pixels'] if v['width'] else None}
    return M, p, exp, ('icons', [(t, d, (x, z), nm)
                                 for t, d, x, z, nm in v['icons']])


def strat_map(ver):
    new_icons = later_eq(ver, 373)
    names = later_eq(ver, 364)
    icon = st.tuples(
        st.integers(0, 300) if new_icons else st.integers(0, 15),
        st.integers(0, 255) if new_icons else st.integers(0, 15),
        st.integers(-128, 127), st.integers(-128, 127),
        st.one_of(st.none(), st.text(max_size=6)) if names else st.none())
    dims = st.one_of(st.just((0, 0)), st.tuples(st.integers(1, 128),
                                                st.integers(1, 128)),
                     st.tuples(st.integers(1, 8), st.integers(1, 8)))

    def with_pixels(d):
        w, h = d
        return st.fixed_dictionaries({
            'width': st.just(w), 'height': st.just(h),
            'offset': st.tuples(st.integers(0, 127), st.integers(0, 127)),
            'pixels': st.binary(min_size=w * h, max_size=w * h)
            if w * h <= 64 else st.integers(0, 255).map(
                lambda b: bytes((b + i) % 256 for i in range(w * h)))})
    return st.tuples(
        st.fixed_dictionaries({
            'map_id': st.sampled_from([0, 1, 127, 128, 2 ** 31 - 1]),
            'scale': st.integers(-128, 127),
            'tracking': st.booleans() if later_eq(ver, 107)
            else st.just(True),
            'locked': st.booleans() if later_eq(ver, 452)
            else st.just(False),
            'icons': st.lists(icon, max_size=3)}),
        dims.flatmap(with_pixels)).map(lambda t: dict(t[0], **t[1]))


def build_pli(ver, v):
    P = _cp().PlayerListItemPacket
    kinds = [P.AddPlayerAction, P.UpdateGameModeAction,
             P.UpdateLatencyAction, P.UpdateDisplayNameAction,
             P.RemovePlayerAction]
    K = kinds[v['kind']]
    acts = []
    for a in v['actions']:
        if v['kind'] == 0:
            props = [P.PlayerProperty(name=n, value=val, signature=sig)
                     for n, val, sig in a['properties']]
            acts.append(K(uuid=a['uuid'], name=a['name'], properties=props,
                          gamemode=a['gamemode'], ping=a['ping'],
                          display_name=a['display_name']))
        elif v['kind'] == 1:
            acts.append(K(uuid=a['uuid'], gamemode=a['gamemode']))
        elif v['kind'] == 2:
            acts.append(K(uuid=a['uuid'], ping=a['ping']))
        elif v['kind'] == 3:
            acts.append(K(uuid=a['uuid'], display_name=a['display_name']))
        else:
            acts.append(K(uuid=a['uuid']))
    p = P()
    p.action_type = K
    p.actions = acts
    return P, p, {'action_type': K}, ('actions', v)


def _pli_extract(q, kind):
    out = []
    for a in q.actions:
        d = {'uuid': a.uuid}
        if kind == 0:
            d.update(name=a.name, gamemode=a.gamemode, ping=a.ping,
                     display_name=a.display_name,
                     properties=[(pp.name, pp.value, pp.signature)
                                 for pp in a.properties])
        elif kind == 1:
            d.update(gamemode=a.gamemode)
        elif kind == 2:
            d.update(ping=a.ping)
        elif kind == 3:
            d.update(display_name=a.display_name)
        out.append(d)
    return out


def strat_pli(ver):
    uu = st.sampled_from(_BOUND['UUID'])
    txt = st.text(max_size=5)
    vi = st.sampled_from([0, 1, 3, 127, 128, 2 ** 31 - 1])
    prop = st.tuples(txt, txt, st.one_of(st.none(), txt))

    def acts(kind):
        base = {'uuid': uu}
        if kind == 0:
            base.update(name=txt, properties=st.lists(prop, max_size=2),
                        gamemode=vi, ping=vi,
                        display_name=st.one_of(st.none(), txt))
        elif kind == 1:
            base.update(gamemode=vi)
        elif kind == 2:
            base.update(ping=vi)
        elif kind == 3:
            base.update(display_name=st.one_of(st.none(), txt))
        return st.fixed_dictionaries({
            'kind': st.just(kind),
            'actions': st.lists(st.fixed_dictionaries(base), max_size=3)})
    return st.integers(0, 4).flatmap(acts)


def build_spawn(ver, v):
    S = _cp().SpawnObjectPacket
    p = S()
    exp = {}
    names = ['entity_id', 'type_id', 'x', 'y', 'z', 'pitch', 'yaw', 'data']
    if later_eq(ver, 49):
        names.append('object_uuid')
    if later_eq(ver, 49) or v['data'] > 0:
        names += ['velocity_x', 'velocity_y', 'velocity_z']
    for n in names:
        setattr(p, n, v[n])
        exp[n] = v[n]
    return S, p, exp, None


def strat_spawn(ver):
    xyz = st.floats(allow_nan=False) if later_eq(ver, 100) else \
        st.integers(-2 ** 31, 2 ** 31 - 1)
    ang = st.integers(0, 255).map(lambda k: k * 360 / 256)
    sh = st.integers(-2 ** 15, 2 ** 15 - 1)
    return st.fixed_dictionaries({
        'entity_id': st.sampled_from([0, 1, 128, 2 ** 31 - 1]),
        'object_uuid': st.sampled_from(_BOUND['UUID']),
        'type_id': st.integers(0, 200) if later_eq(ver, 458)
        else st.integers(-128, 127),
        'x': xyz, 'y': xyz, 'z': xyz, 'pitch': ang, 'yaw': ang,
        'data': st.one_of(st.sampled_from([0, -1, 1, 2 ** 31 - 1,
                                           -2 ** 31]),
                          st.integers(-5, 5)),
        'velocity_x': sh, 'velocity_y': sh, 'velocity_z': sh})


def build_combat(ver, v):
    C = _cp().CombatEventPacket
    p = C()
    if v['kind'] == 0:
        p.event = C.EnterCombatEvent()
    elif v['kind'] == 1:
        p.event = C.EndCombatEvent(duration=v['duration'],
                                   entity_id=v['entity_id'])
    else:
        p.event = C.EntityDeadEvent(player_id=v['player_id'],
                                    entity_id=v['entity_id'],
                                    message=v['message'])
    return C, p, {}, ('event', v)


def strat_combat(ver):
    return st.fixed_dictionaries({
        'kind': st.integers(0, 2),
        'duration': st.sampled_from([0, 1, 128, 2 ** 31 - 1]),
        'player_id': st.sampled_from([0, 1, 128, 2 ** 31 - 1]),
        'entity_id': st.sampled_from([0, -1, 2 ** 31 - 1, -2 ** 31]),
        'message': st.text(max_size=8)})


def build_face(ver, v):
    F = _cp().FacePlayerPacket
    p = F()
    exp = {}
    if later_eq(ver, 353):
        p.origin, p.x, p.y, p.z = v['origin'], v['x'], v['y'], v['z']
        exp.update(origin=v['origin'], x=v['x'], y=v['y'], z=v['z'])
        if v['entity']:
            p.entity_id, p.entity_origin = v['entity_id'], v['entity_origin']
            exp.update(entity_id=v['entity_id'],
                       entity_origin=v['entity_origin'])
        else:
            p.entity_id = None
            exp.update(entity_id=None)
    else:
        if v['entity']:
            p.entity_id = v['entity_id']
            exp.update(entity_id=v['entity_id'])
        else:
            p.entity_id = None
            p.x, p.y, p.z = v['x'], v['y'], v['z']
            exp.update(entity_id=None, x=v['x'], y=v['y'], z=v['z'])
    return F, p, exp, None


def strat_face(ver):
    d = st.floats(allow_nan=False)
    return st.fixed_dictionaries({
        'origin': st.integers(0, 1), 'x': d, 'y': d, 'z': d,
        'entity': st.booleans(),
        'entity_id': st.sampled_from([0, 1, 128, 2 ** 31 - 1]),
        'entity_origin': st.integers(0, 1)})


def build_plugin_response(ver, v):
    from minecraft.networking.packets.serverbound.login import \
        PluginResponsePacket as R
    if v['style'] == 'kw':
        p = R(message_id=v['message_id'], successful=v['successful'])
        if v['successful']:
            p.data = v['data']
    else:
        p = R()
        p.message_id = v['message_id']
        p.data = v['data'] if v['successful'] else None
    return R, p, {'message_id': v['message_id'],
                  'successful': v['successful'],
                  'data': v['data'] if v['successful'] else None}, None


def strat_plugin_response(ver):
    return st.fixed_dictionaries({
        'message_id': st.sampled_from([0, 1, 127, 128, 2 ** 31 - 1]),
        'successful': st.booleans(), 'data': st.binary(max_size=40),
        'style': st.sampled_from(['kw', 'attr'])})


HAND = {
    'MapPacket': (build_map, strat_map),
    'PlayerListItemPacket': (build_pli, strat_pli),
    'SpawnObjectPacket': (build_spawn, strat_spawn),
    'CombatEventPacket': (build_combat, strat_combat),
    'FacePlayerPacket': (build_face, strat_face),
    'PluginResponsePacket': (build_plugin_response, strat_plugin_response),
}


def hand_case(ctx, case):
    """case {direction, state, cls, version, values}"""
    ver = case['version']
    cls = find_class(case['direction'], case['state'], ver, case['cls'])
    ctx.ev()
    build = HAND[case['cls']][0]
    v = case['values']
    K, p, exp, extra = build(ver, v)
    p.context = P4.ctx_for(ver)
    c = P4.ctx_for(ver)
    body = check_packet(ctx, 'hand', case, cls, ver, p, exp)
    ctx.label('hand_' + case['cls'])
    ctx.nt(case['cls'], ver, repr(v))
    if body is None or extra is None:
        return
    # structured extras compared after an independent re-read
    from minecraft.networking.packets import PacketBuffer
    q = cls()
    q.context = c
    buf = PacketBuffer()
    buf.send(body)
    buf.reset_cursor()
    try:
        q.read(buf)
    except Exception:
        return      # already reported by check_packet
    kind, want = extra
    if kind == 'icons':
        got = [(i.type, i.direction, tuple(i.location), i.display_name)
               for i in q.icons]
        if got != want:
            ctx.fail('hand', 'F3-field-differs', dict(case, field='icons'),
                     got, want)
    elif kind == 'actions':
        got = _pli_extract(q, want['kind'])
        if got != want['actions']:
            ctx.fail('hand', 'F3-field-differs', dict(case, field='actions'),
                     got, want['actions'])
    elif kind == 'event':
        e = q.event
        C = _cp().CombatEventPacket
        K = [C.EnterCombatEvent, C.EndCombatEvent,
             C.EntityDeadEvent][want['kind']]
        ok = type(e) is K
        if ok and want['kind'] == 1:
            ok = (e.duration, e.entity_id) == (want['duration'],
                                               want['entity_id'])
        if ok and want['kind'] == 2:
            ok = (e.player_id, e.entity_id, e.message) == (
                want['player_id'], want['entity_id'], want['message'])
        if not ok:
            ctx.fail('hand', 'F3-field-differs', dict(case, field='event'),
                     repr(e), want)


# ------------------------------------------------------ generated programs

def program_case(ctx, case):
    """case {version, id, fields: [(name, spec)], values: [neutral...]}"""
    from minecraft.networking.packets import Packet
    ver = case['version']
    ctx.ev()
    fields = [(n, T2._tup(s) if isinstance(s, list) else s)
              for n, s in case['fields']]
    # the definition is a list of dicts; an entry may declare several
    # attributes (in dict order) and may be empty.  'groups' says how many
    # consecutive fields go into each entry (default: one each).
    definition = []
    groups = list(case.get('groups') or [])
    k = 0
    while k < len(fields):
        g = groups.pop(0) if groups else 1
        definition.append({n: build_type(sp) for n, sp in fields[k:k + g]})
        k += g
    body_ = {'id': case['id'], 'definition': definition,
             'packet_name': 'generated'}
    # 'enums': indices of fields that get a nested Enum class named after
    # them (the library's idiom for naming field values in repr()), whatever
    # the field's type; 'consts': the packet class also carries upper-case
    # class constants that are not scalars
    from minecraft.networking.types import Enum as _Enum
    for i in case.get('enums') or ():
        if fields:
            n = fields[i % len(fields)][0]
            body_[''.join(x.capitalize() for x in n.split('_'))] = type(
                'Names', (_Enum,), {'ZERO': 0, 'ONE': 1, 'TEXT': 'a',
                                    'PAIR': (0, 0), 'MANY': [0, 1]})
            ctx.label('program_field_enum')
    if case.get('consts'):
        body_.update({'ALL_MODES': [0, 1], 'TABLE': {'a': 1}})
    # 'declare': where the layout (and id) are declared - on the class
    # (default), on each instance ('definition' and 'id' are documented as
    # overridable by instance attributes), or a class-level prefix that the
    # instance extends
    declare = case.get('declare') or 'class'
    if declare != 'class':
        ctx.label('program_declared_on_' + declare)
        full, pid_ = definition, case['id']
        half = len(full) // 2
        body_.pop('id')
        if declare == 'instance':
            body_.pop('definition')
        else:
            body_['definition'] = full[:half]

        def __init__(self, *a, **k):
            Packet.__init__(self, *a, **k)
            self.id = pid_
            self.definition = full if declare == 'instance' else \
                type(self).definition + full[half:]
        body_['__init__'] = __init__
    cls = type('GeneratedPacket', (Packet,) + (
        (_Enum,) if case.get('consts') else ()), body_)
    p = cls()
    p.context = P4.ctx_for(ver)
    vals = case['values']
    for (n, sp), v in zip(fields, vals):
        setattr(p, n, to_py(sp, v))
    expect = {n: v for (n, sp), v in zip(fields, vals)}
    specs = dict(fields)
    body = check_packet(ctx, 'program', case, cls, ver, p, expect, specs,
                        expect_id=case['id'])
    if len(fields) >= 2 and any(not is_default(sp, v)
                                for (n, sp), v in zip(fields, vals)):
        ctx.nt('program', ver, repr(fields), repr(vals))
    if body is not None:
        ref = b''.join(enc5(sp, v, ver) for (n, sp), v in zip(fields, vals))
        if body != ref:
            ctx.fail('program', 'F5-reference-bytes', case, body.hex()[:400],
                     ref.hex()[:400])


def build_type(spec):
    from minecraft.networking import types as T
    if isinstance(spec, str):
        return getattr(T, spec)
    if spec[0] == 'FixedPoint':
        return T.FixedPoint(getattr(T, spec[1]), spec[2])
    return T.PrefixedArray(getattr(T, spec[1]), build_type(spec[2]))


_overlap_cache = {}


def _overlap_packets(ver):
    if ver not in _overlap_cache:
        _overlap_cache[ver] = _build_overlap_packets(ver)
    return _overlap_cache[ver]


def _build_overlap_packets(ver):
    from minecraft.networking.packets import Packet
    from minecraft.networking import types as T
    from minecraft.networking.packets import serverbound as sb
    c = P4.fresh_ctx(ver)
    G1 = type('G1Packet', (Packet,), {
        'id': 0x10, 'packet_name': 'g1', 'definition': [
            {'a': T.VarInt}, {'s': T.String},
            {'arr': T.PrefixedArray(T.VarInt, T.String)}]})
    G2 = type('G2Packet', (Packet,), {
        'id': 0x22, 'packet_name': 'g2', 'definition': [
            {'x': T.Double, 'b': T.VarIntPrefixedByteArray},
            {'pos': T.Position}, {'t': T.TrailingByteArray}]})
    out = [
        G1(context=c, a=300, s='h\u00e9llo' * 20, arr=['a', 'bc', '']),
        G2(context=c, x=-2.5, b=b'\x01' * 90, pos=T.Position(1, 2, 3),
           t=b'tail'),
        sb.play.ChatPacket(context=c, message='hello world ' * 8),
        sb.play.KeepAlivePacket(context=c, keep_alive_id=2 ** 31 - 1),
        sb.handshake.HandShakePacket(context=c, protocol_version=ver,
                                     server_address='localhost',
                                     server_port=25565, next_state=2),
    ]
    # the same class (static definition: one array-type object) and the
    # library's multi-block-change packet under two contexts on opposite
    # sides of a layout switch - two connections of different versions
    from minecraft.networking.packets import clientbound as cb
    WP = type('WaypointsPacket', (Packet,), {
        'id': 0x33, 'packet_name': 'waypoints', 'definition': [
            {'name': T.String},
            {'points': T.PrefixedArray(T.VarInt, T.Position)}]})
    pts = [T.Position(100, 64, -200), T.Position(-3000, 12, 4500),
           T.Position(7, -5, 9), T.Position(1, 2, 3)]
    for v2 in (340, 498):
        out.append(WP(context=P4.fresh_ctx(v2), name='wp', points=pts))
    M = cb.play.MultiBlockChangePacket
    recs = [M.Record(x=1, y=239 % 16, z=13, block_state_id=19766),
            M.Record(x=15, y=0, z=0, block_state_id=1),
            M.Record(x=3, y=7, z=9, block_state_id=300)]
    out.append(M(context=P4.fresh_ctx(736), chunk_x=3, chunk_z=-4,
                 records=recs))
    out.append(M(context=P4.fresh_ctx(751),
                 chunk_section_pos=T.Vector(3, 5, -4),
                 invert_trust_edges=False, records=recs))
    return out


def overlap_case(ctx, case):
    """Two packets being written (or read) at the same time on different
    sockets (two connections, or a user thread and a networking thread of
    different connections): operation A is suspended at its k-th line, B
    runs completely, A resumes.  Each must give what it gives alone.
    case {version, a, b, ta, tb, k, ops?: 'ww'|'rr'|'wr'|'rw'} (indices into
    a fixed packet list; ta/tb compression thresholds or None)."""
    from vlib.budget import run_interleaved
    from minecraft.networking.packets import PacketBuffer
    ver = case['version']
    ctx.ev()
    L = _overlap_packets(ver)
    pa, pb = L[case['a']], L[case['b']]
    ops = case.get('ops', 'ww')

    def w(p, t, sink):
        if t is None:
            p.write(sink)
        else:
            p.write(sink, t)
        return sink.value

    def make(p, t, op):
        if op == 'w':
            alone = w(p, t, Sink())
            s_ = Sink()
            return (lambda: w(p, t, s_)), alone
        body = frame_split(w(p, None, Sink()))[1]

        def rd():
            q = type(p)()
            q.context = p.context
            buf = PacketBuffer()
            buf.send(body)
            buf.reset_cursor()
            q.read(buf)
            return repr(sorted((k_, repr(v)) for k_, v in vars(q).items()
                               if k_ != 'context')), len(buf.read())
        return rd, rd()
    try:
        fa, alone_a = make(pa, case['ta'], ops[0])
        fb, alone_b = make(pb, case['tb'], ops[1])
    except Exception as e:
        # the same call alone, before anything overlaps
        ctx.fail('overlap', 'F0-call-alone-raises', case, exc=e)
        return
    try:
        ra, rb, ran = run_interleaved(fa, fb, case['k'])
    except Exception as e:
        ctx.fail('overlap', 'F1-overlapping-calls-raise', case, exc=e)
        return
    if not ran:
        ctx.label('overlap_point_beyond_call')
        return
    if ra != alone_a or rb != alone_b:
        ctx.fail('overlap', 'F1-overlapping-writes' if ops == 'ww' else
                 'F2-overlapping-reads', case,
                 (repr(ra)[:160], repr(rb)[:160]),
                 (repr(alone_a)[:160], repr(alone_b)[:160]))
        return
    ctx.label('overlap')


defn_case = P4.reassigned(defn_case)
hand_case = P4.reassigned(hand_case)
program_case = P4.reassigned(program_case)
COMPONENTS = {'defn': defn_case, 'hand': hand_case, 'program': program_case,
              'overlap': overlap_case}


# --------------------------------------------------------------------- tasks

def pairs_for(versions):
    out = []
    for v in versions:
        for d, s in TABLES:
            for cls in table(d, s, v):
                out.append((d, s, cls, v))
    return out


def t_sweep(ctx, lo, hi, rounds):
    """every (class, version) pair in the shard: rotating boundary values,
    then Hypothesis random values for hand-written codecs."""
    vs = supported()[lo:hi]
    pairs = pairs_for(vs)
    seen = set()
    for d, s, cls, v in pairs:
        seen.add((cls.__name__, v))
        if cls.__name__ in HAND:
            continue
        if not is_definition_driven(cls):
            # a class that carries a field definition is described by it
            # even when it brings its own read()/write_fields(); one without
            # a definition that the harness has no layout for cannot be
            # judged (counted, never a violation)
            try:
                described = cls.get_definition(P4.ctx_for(v)) is not None
            except Exception:
                described = False
            if not described:
                ctx.label('unjudged_handwritten_class:' + cls.__name__)
                continue
            ctx.label('own_codec_with_definition')
        fl = fields_of(cls, v)
        for r in range(rounds):
            vals = {}
            for i, (name, t, sp) in enumerate(fl):
                b = boundaries(sp, v)
                vals[name] = b[(r + i) % len(b)] if r < 4 else \
                    b[(r * 7 + i * 3) % len(b)]
            case = {'direction': d, 'state': s, 'cls': cls.__name__,
                    'version': v, 'values': vals}
            defn_case(ctx, case)
            if ctx.evaluations % 3000 == 7:
                ctx.sample(case, 'defn')
    ctx.label('pairs_covered', )
    ctx.labels['pairs_covered'] += len(seen) - 1
    ctx.exhaustive_done('every (class, supported version) pair of the 8 '
                        'tables with rotating boundary values')


def t_lookalikes(ctx, lo, hi):
    """every (class, version) pair with String fields x every look-alike
    text (ids, numbers, keys, JSON ... in non-canonical spellings) in all of
    its String fields at once: carried verbatim."""
    vs = supported()[lo:hi]
    n = 0
    for d, s, cls, v in pairs_for(vs):
        if cls.__name__ in HAND:
            continue
        try:
            fl = fields_of(cls, v)
        except Exception:
            continue
        if not any(sp == 'String' for _n, _t, sp in fl):
            continue
        for r, text in enumerate(T2.LOOKALIKES):
            vals = {}
            for i, (name, t, sp) in enumerate(fl):
                if sp == 'String':
                    vals[name] = text
                else:
                    b = boundaries(sp, v)
                    vals[name] = b[(r + i) % len(b)]
            case = {'direction': d, 'state': s, 'cls': cls.__name__,
                    'version': v, 'values': vals}
            defn_case(ctx, case)
            n += 1
            if n % 2500 == 1:
                ctx.sample(case, 'defn')
    ctx.label('lookalike_task')


def t_hand(ctx, lo, hi, n):
    vs = supported()[lo:hi]
    pairs = [(d, s, cls, v) for d, s, cls, v in pairs_for(vs)
             if cls.__name__ in HAND]
    if not pairs:
        return
    strat = st.sampled_from(pairs).flatmap(
        lambda pr: st.tuples(st.just(pr), HAND[pr[2].__name__][1](pr[3])))

    def body(c, t):
        (d, s, cls, v), vals = t
        case = {'direction': d, 'state': s, 'cls': cls.__name__,
                'version': v, 'values': vals}
        hand_case(c, case)
        if c.evaluations % 600 == 3:
            c.sample(case, 'hand')
    # make sure every pair is visited at least `k` times first
    for pr in pairs:
        ex = HAND[pr[2].__name__][1](pr[3])
        hyp(ctx, 'hand_%s_%d' % (pr[2].__name__, pr[3]),
            st.tuples(st.just(pr), ex), body, 4)
    hyp(ctx, 'hand_random', strat, body, n)


def t_defn_random(ctx, lo, hi, n):
    vs = supported()[lo:hi]
    pairs = [(d, s, cls, v) for d, s, cls, v in pairs_for(vs)
             if cls.__name__ not in HAND]

    def vals_strategy(pr):
        d, s, cls, v = pr
        fl = fields_of(cls, v)
        return st.fixed_dictionaries({name: strat5(sp, v)
                                      for name, t, sp in fl})
    strat = st.sampled_from(pairs).flatmap(
        lambda pr: st.tuples(st.just(pr), vals_strategy(pr)))

    def body(c, t):
        (d, s, cls, v), vals = t
        case = {'direction': d, 'state': s, 'cls': cls.__name__,
                'version': v, 'values': vals}
        defn_case(c, case)
        if c.evaluations % 600 == 3:
            c.sample(case, 'defn')
    hyp(ctx, 'defn_random', strat, body, n)


def t_programs(ctx, n):
    vs = supported()
    leaf = st.one_of(
        st.sampled_from([x for x in T2.LEAVES if x != 'FixedPointInteger'] +
                        ['Position', 'VarLong']),
        st.tuples(st.just('FixedPoint'),
                  st.sampled_from(['Byte', 'Short', 'Integer']),
                  st.integers(0, 15)))
    spec = st.recursive(leaf, lambda inner: st.tuples(
        st.just('PrefixedArray'),
        st.sampled_from(['VarInt', 'Byte', 'Short', 'Integer']), inner),
        max_leaves=3)
    names = st.lists(st.sampled_from(['a', 'b', 'c', 'x', 'y', 'z', 'data',
                                      'name', 'flags', 'entity_id', 'w',
                                      'q']), max_size=8, unique=True)

    def mk(t):
        ver, pid, ns, trailing = t
        return st.tuples(*[spec] * len(ns)).flatmap(lambda sps: st.tuples(
            st.just(ver), st.just(pid),
            st.just(list(zip(ns, sps)) +
                    ([('tail', 'TrailingByteArray')] if trailing else [])),
            st.tuples(*[strat5(sp, ver) for sp in sps] +
                      ([st.binary(max_size=20)] if trailing else []))))
    strat = st.tuples(st.sampled_from(vs),
                      st.sampled_from([0, 1, 0x7F, 0x80, 0xFF, 300, 2 ** 21]),
                      names, st.booleans()).flatmap(mk)

    def body(c, t):
        ((ver, pid, fields, vals), grp), en, co = t
        case = {'version': ver, 'id': pid, 'fields': fields,
                'values': list(vals)}
        if en:
            case['enums'] = en
        if co:
            case['consts'] = True
        if len(en) == 1 or (co and not en):
            case['declare'] = ['instance', 'instance_extends'][pid % 2]
        if grp:
            case['groups'] = grp
            c.label('program_multi_key_entries')
        program_case(c, case)
        if c.evaluations % 150 == 3:
            c.sample(case, 'program')
    strat = st.tuples(strat, st.one_of(
        st.just([]), st.lists(st.integers(0, 3), max_size=6)))
    strat = st.tuples(strat, st.one_of(
        st.just([]), st.lists(st.integers(0, 7), max_size=3)),
        st.sampled_from([False, False, True]))
    for ver in (757, 340, 47):
        for declare in ('class', 'instance', 'instance_extends'):
            program_case(ctx, {
                'version': ver, 'id': 0x7A, 'declare': declare,
                'fields': [['a', 'VarInt'], ['note', 'String'],
                           ['refs', ['PrefixedArray', 'VarInt', 'Short']],
                           ['where', 'Position']],
                'values': [300, 'caf\u00e9', [1, -2, 3], [1, 2, -3]],
                'enums': [2], 'consts': declare != 'class'})
    hyp(ctx, 'programs', strat, body, n)


def t_overlap(ctx, a, step):
    n = len(_overlap_packets(757))
    for b in range(n):
        if a >= 5 or b >= 5:
            # the cross-version pairs: also decoding
            for ops in ('rr', 'wr'):
                for k in range(1, 2000, step):
                    before = ctx.labels.get('overlap_point_beyond_call', 0)
                    overlap_case(ctx, {'version': 757, 'a': a, 'b': b,
                                       'ta': None, 'tb': None, 'k': k,
                                       'ops': ops})
                    if ctx.labels.get('overlap_point_beyond_call',
                                      0) > before:
                        break
        for ta, tb in ((None, None), (0, 64), (64, None)):
            for k in range(1, 2000, step):
                before = ctx.labels.get('overlap_point_beyond_call', 0)
                overlap_case(ctx, {'version': 757, 'a': a, 'b': b, 'ta': ta,
                                   'tb': tb, 'k': k})
                if ctx.labels.get('overlap_point_beyond_call', 0) > before:
                    break
    ctx.sample({'version': 757, 'a': a, 'b': 0, 'ta': 0, 'tb': 64, 'k': 7},
               'overlap')


def tasks(tier):
    q = tier == 'quick'
    n = len(supported())
    tl = [('overlap_%d' % a, t_overlap, dict(a=a, step=3 if q else 1))
          for a in range(9)]
    nsh = 12
    for i in range(nsh):
        tl.append(('sweep_%d' % i, t_sweep,
                   dict(lo=n * i // nsh, hi=n * (i + 1) // nsh,
                        rounds=3 if q else 8)))
    for i in range(8):
        tl.append(('lookalikes_%d' % i, t_lookalikes,
                   dict(lo=n * i // 8, hi=n * (i + 1) // 8)))
    for i in range(6 if q else 12):
        k = 6 if q else 12
        tl.append(('hand_%d' % i, t_hand,
                   dict(lo=n * i // k, hi=n * (i + 1) // k,
                        n=300 if q else 6000)))
    for i in range(4 if q else 12):
        k = 4 if q else 12
        tl.append(('defn_random_%d' % i, t_defn_random,
                   dict(lo=n * i // k, hi=n * (i + 1) // k,
                        n=600 if q else 20000)))
    for i in range(2 if q else 8):
        tl.append(('programs_%d' % i, t_programs,
                   dict(n=150 if q else 2500)))
    return tl
