"""C08 - protocol versions are totally ordered by publication; derived
tables agree with the records; re-initialisation is idempotent and survives
run-time extension.  Exhaustive pairs/triples + stateful histories."""
import re
from collections import OrderedDict

from hypothesis import strategies as st
from hypothesis.stateful import (RuleBasedStateMachine, rule, invariant,
                                 precondition, initialize)

from vlib.runner import hyp_machine

PROPERTY = 'C08'
LEVEL = 'exploration'
RULE = ('Static: every ordered pair of the known protocol numbers through '
        'utility.protocol_earlier/_eq and the five ConnectionContext '
        'predicates, compared with rank = first occurrence in the record '
        'list (independent projection); irreflexive/asymmetric/total by '
        'construction of the comparison, transitivity checked on the '
        'observed truth matrix with bitset rows (all triples); in_range for '
        'all (start,end) pairs at a boundary sample of context versions '
        '(quick) / all contexts (thorough); chronology oracle on the record '
        'list (ordinary numbers increasing, PRE numbers increasing, snapshot '
        'ids YYwWWx non-decreasing). Histories: Hypothesis rule-based '
        'machine over append/insert/duplicate-protocol/flip-supported/'
        'legacy-dict-extension/rebinding the records attribute to a new '
        'list/reinit(known)/reinit(default) on the real '
        'module-level tables, compared after every step with a model '
        'projection; table object identity, idempotence, Connection accepts '
        'newly supported versions. Non-trivial: static pairs a!=b where '
        'numeric order and rank disagree or exactly one has the PRE bit; '
        'history steps after a non-tail insertion followed by a '
        'reinit(known). Distinct by pair / by (history fingerprint).')
RULE += (' ' +
         'Round 15: records that repeat an existing id with another protocol '
         'number. ')
LEVEL_TEXT = ('Exhaustive enumeration of all pairs and (via the truth '
              'matrix) all triples of known protocol numbers against an '
              'independent rank projection, plus model-based stateful '
              'testing of run-time record extension and re-initialisation.')
LEVEL_NOTE = ('Trusted: the harness projection (first occurrence order) as '
              'the meaning of "chronological position"; snapshot-id date '
              'parsing for the chronology clause. Histories are sampled.')
TECHNIQUE = ('exhaustive pair/triple enumeration against a rank oracle + '
             'Hypothesis rule-based state machine against a model projection')
ASSUMPTIONS = ['the version record list is in chronological order as its '
               'comment states; the harness checks internal consistency of '
               'that order, not the historical dates themselves']

PRE = 1 << 30


def _mc():
    import minecraft
    return minecraft


def projection(records):
    """Independent model of all derived tables from a record list."""
    known, sup = OrderedDict(), OrderedDict()
    kp, idx = [], {}
    for r in records:
        rid, proto, supported = r[0], r[1], r[2]
        known[rid] = proto
        if proto not in idx:
            idx[proto] = len(kp)
            kp.append(proto)
        if supported:
            sup[rid] = proto
    return known, sup, kp, idx


def sup_projection(sup):
    sp, rel, rp = [], OrderedDict(), []
    for vid, proto in sup.items():
        if re.match(r'\d+(\.\d+)+$', vid):
            rel[vid] = proto
            if proto not in rp:
                rp.append(proto)
        if proto not in sp:
            sp.append(proto)
    return sp, rel, rp


# ------------------------------------------------------------ static checks

def _ctxcls():
    from minecraft.networking.connection import ConnectionContext
    return ConnectionContext


def pairs_case(ctx, case):
    """case {a: protocol}: all b against a, all predicates."""
    mc = _mc()
    from minecraft import utility
    recs = list(mc.KNOWN_MINECRAFT_VERSION_RECORDS)
    known, sup, kp, idx = projection(recs)
    a = case['a']
    cx = _ctxcls()(protocol_version=a)
    ra = idx[a]
    for b in kp:
        rb = idx[b]
        ctx.ev()
        got = (utility.protocol_earlier(a, b),
               utility.protocol_earlier_eq(a, b),
               cx.protocol_earlier(b), cx.protocol_earlier_eq(b),
               cx.protocol_later(b), cx.protocol_later_eq(b))
        want = (ra < rb, ra <= rb, ra < rb, ra <= rb, ra > rb, ra >= rb)
        if got != want or any(type(g) is not bool for g in got):
            ctx.fail('pairs', 'O1-order', {'a': a, 'b': b}, got, want)
        if a != b and (((a < b) != (ra < rb)) or
                       (bool(a & PRE) != bool(b & PRE))):
            ctx.nt(a, b)


def matrix_case(ctx, case):
    """Observed truth matrix of protocol_earlier: strict total order."""
    mc = _mc()
    from minecraft import utility
    kp = projection(list(mc.KNOWN_MINECRAFT_VERSION_RECORDS))[2]
    n = len(kp)
    rows = []
    for i, a in enumerate(kp):
        bits = 0
        for j, b in enumerate(kp):
            if utility.protocol_earlier(a, b):
                bits |= 1 << j
        rows.append(bits)
    ctx.ev(n * n)
    for i in range(n):
        if rows[i] >> i & 1:
            ctx.fail('matrix', 'O1-irreflexive', {'a': kp[i]})
        for j in range(i + 1, n):
            ij, ji = rows[i] >> j & 1, rows[j] >> i & 1
            if ij + ji != 1:
                ctx.fail('matrix', 'O1-total-asymmetric',
                         {'a': kp[i], 'b': kp[j]}, (ij, ji), 'exactly one')
    # transitivity: a<b implies {c: b<c} subset of {c: a<c}  (all triples)
    for i in range(n):
        ri = rows[i]
        m = ri
        j = 0
        while m:
            if m & 1 and rows[j] & ~ri:
                k = (rows[j] & ~ri).bit_length() - 1
                ctx.fail('matrix', 'O1-transitive',
                         {'a': kp[i], 'b': kp[j], 'c': kp[k]})
                break
            m >>= 1
            j += 1
    ctx.ev(n * n)
    ctx.nt('matrix', n)
    ctx.exhaustive_done('all triples of known protocols (transitivity via '
                        'bitset rows)')


def in_range_case(ctx, case):
    mc = _mc()
    kp, idx = projection(list(mc.KNOWN_MINECRAFT_VERSION_RECORDS))[2:]
    v = case['v']
    cx = _ctxcls()(protocol_version=v)
    rv = idx[v]
    starts = case.get('starts') or kp
    for s in starts:
        rs = idx[s]
        for e in kp:
            ctx.ev()
            got = cx.protocol_in_range(s, e)
            want = rs <= rv < idx[e]
            if got is not want:
                ctx.fail('in_range', 'O1-in_range',
                         {'v': v, 'starts': [s], 'end': e}, got, want)
    ctx.nt('in_range', v)


_SNAP = re.compile(r'^(\d\d)w(\d\d)([a-z])$')


def chronology_case(ctx, case):
    mc = _mc()
    recs = list(mc.KNOWN_MINECRAFT_VERSION_RECORDS)
    seen = set()
    last_ord = last_pre = None
    last_snap = None
    for r in recs:
        ctx.ev()
        p = r.protocol
        if p not in seen:
            seen.add(p)
            if p & PRE:
                if last_pre is not None and p <= last_pre:
                    ctx.fail('chronology', 'O2-pre-increasing',
                             {'id': r.id, 'protocol': p}, p, '> %d' % last_pre)
                last_pre = p
            else:
                if last_ord is not None and p <= last_ord:
                    ctx.fail('chronology', 'O2-ordinary-increasing',
                             {'id': r.id, 'protocol': p}, p, '> %d' % last_ord)
                last_ord = p
        m = _SNAP.match(r.id)
        if m:
            key = (int(m.group(1)), int(m.group(2)), m.group(3))
            if last_snap is not None and key < last_snap:
                ctx.fail('chronology', 'O2-snapshot-dates',
                         {'id': r.id}, key, '>= %r' % (last_snap,))
            last_snap = key
            ctx.nt('snap', r.id)


def tables_case(ctx, case):
    """O3/O4 on the tables as they are now vs the projection of records."""
    mc = _mc()
    ctx.ev()
    compare_tables(ctx, 'tables', list(mc.KNOWN_MINECRAFT_VERSION_RECORDS),
                   None, {})
    ids = {n: id(getattr(mc, n)) for n in TABLE_NAMES}
    mc.initglobals(use_known_records=True)
    compare_tables(ctx, 'tables', list(mc.KNOWN_MINECRAFT_VERSION_RECORDS),
                   None, {'after': 'reinit'})
    mc.initglobals()
    compare_tables(ctx, 'tables', list(mc.KNOWN_MINECRAFT_VERSION_RECORDS),
                   None, {'after': 'reinit_default'})
    for n in TABLE_NAMES:
        if id(getattr(mc, n)) != ids[n]:
            ctx.fail('tables', 'O4-identity', {'table': n})
    ctx.nt('tables')
    ctx.nt('tables', 'reinit')


TABLE_NAMES = ['KNOWN_MINECRAFT_VERSIONS', 'SUPPORTED_MINECRAFT_VERSIONS',
               'RELEASE_MINECRAFT_VERSIONS', 'KNOWN_PROTOCOL_VERSIONS',
               'SUPPORTED_PROTOCOL_VERSIONS', 'RELEASE_PROTOCOL_VERSIONS',
               'PROTOCOL_VERSION_INDICES']


def compare_tables(ctx, comp, known_records, sup_model, case):
    """known_records: records as of the last reinit(known) (model);
    sup_model: the model of SUPPORTED_MINECRAFT_VERSIONS as of the last
    reinit of any kind (None: projection of known_records)."""
    mc = _mc()
    known, sup, kp, idx = projection(known_records)
    if sup_model is not None:
        sup = sup_model
    sp, rel, rp = sup_projection(sup)
    want = {
        'KNOWN_MINECRAFT_VERSIONS': list(known.items()),
        'SUPPORTED_MINECRAFT_VERSIONS': list(sup.items()),
        'RELEASE_MINECRAFT_VERSIONS': list(rel.items()),
        'KNOWN_PROTOCOL_VERSIONS': kp,
        'SUPPORTED_PROTOCOL_VERSIONS': sp,
        'RELEASE_PROTOCOL_VERSIONS': rp,
        'PROTOCOL_VERSION_INDICES': sorted(idx.items()),
    }
    for n in TABLE_NAMES:
        t = getattr(mc, n)
        if n == 'PROTOCOL_VERSION_INDICES':
            got = sorted(t.items())
        elif isinstance(t, dict):
            got = list(t.items())
        else:
            got = list(t)
        if got != want[n]:
            diff = [x for x in got if x not in want[n]][:3] + \
                   [x for x in want[n] if x not in got][:3]
            ctx.fail(comp, 'O3-table-' + n, case,
                     'len %d, differs e.g. %r' % (len(got), diff),
                     'len %d' % len(want[n]))


def machine_case(ctx, case):
    """Replay of a recorded history [(rule name, kwargs)...]."""
    VersionsMachine.ctx = ctx
    m = VersionsMachine()
    try:
        for name, kw in case['history']:
            if name == 'flip_supported' and not m.added:
                continue
            fn = getattr(VersionsMachine, name)
            fn = getattr(fn, '__wrapped__', fn)
            # hypothesis rule objects keep the function on .function
            getattr(m, name)(**kw)
    finally:
        m.teardown()


COMPONENTS = {'machine': machine_case, 'pairs': pairs_case, 'matrix': matrix_case,
              'in_range': in_range_case, 'chronology': chronology_case,
              'tables': tables_case}


# ------------------------------------------------------------ state machine

_ids_release = st.builds(lambda a, b, c: '%d.%d.%d' % (a, b, c),
                         st.integers(2, 9), st.integers(0, 40),
                         st.integers(0, 9))
_ids_snap = st.builds(lambda y, w, x: '%02dw%02d%s' % (y, w, x),
                      st.integers(30, 60), st.integers(1, 52),
                      st.sampled_from('abc'))
_ids_free = st.text('abcdefXYZ-_ 0123456789.', min_size=1, max_size=12)
# ids that contain a release-looking part without being one (the version
# manifest has 'b1.8.1', 'a1.2.6', '3D Shareware v1.34',
# '1.19_experimental-snapshot-1.1'), and release ids of 2 and 4 parts
_ids_tricky = st.builds(
    lambda pre, core, suf: pre + core + suf,
    st.sampled_from(['', '', 'b', 'a', 'v', '3D Shareware v', 'fabric-',
                     'x ', '.', '1.19_experimental-snapshot-', '-']),
    st.one_of(_ids_release,
              st.builds(lambda a, b: '%d.%d' % (a, b), st.integers(0, 3),
                        st.integers(0, 99)),
              st.builds(lambda a, b: '1.%d.%d.1' % (a, b),
                        st.integers(20, 30), st.integers(0, 9))),
    st.sampled_from(['', '', '', '-pre1', ' Pre-Release 1', 'x', '.', ' ',
                     '-rc2', '_01']))

# ids whose components are "digits" to str.isdigit() / str.isnumeric() without
# being decimal numbers (superscripts, circled and other digit-like
# characters pasted from formatted text): not dotted decimal numbers under any
# reading, so never releases.  Ids on which readings of "dotted decimal
# number" can differ (a trailing newline, non-ASCII decimal digits) are
# deliberately not generated.
_DIGITLIKE = ['\u00b9', '\u00b2', '\u00b3', '\u2460', '\u2474', '\u2081',
              '\u2079', '\u00bd', '\u2162', '\u3007', '\u4e09']
_ids_digitlike = st.builds(
    lambda base, pos, ch, dbl: (
        lambda parts: '.'.join(
            (q + ch if dbl % 3 == 0 else ch if dbl % 3 == 1 else ch + q)
            if i == pos % len(parts) else q for i, q in enumerate(parts)))(
                base.split('.')),
    st.one_of(_ids_release, st.builds(lambda a, b: '%d.%d' % (a, b),
                                      st.integers(0, 3), st.integers(0, 99))),
    st.integers(0, 5), st.sampled_from(_DIGITLIKE), st.integers(0, 2))
_ids_tricky = st.one_of(_ids_tricky, _ids_tricky, _ids_digitlike)


class VersionsMachine(RuleBasedStateMachine):
    ctx = None

    def __init__(self):
        super().__init__()
        mc = _mc()
        self.mc = mc
        self.orig_records = list(mc.KNOWN_MINECRAFT_VERSION_RECORDS)
        self.orig_list_obj = mc.KNOWN_MINECRAFT_VERSION_RECORDS
        self.orig_sup = list(mc.SUPPORTED_MINECRAFT_VERSIONS.items())
        self.ids = {n: id(getattr(mc, n)) for n in TABLE_NAMES}
        self.ids['records'] = id(mc.KNOWN_MINECRAFT_VERSION_RECORDS)
        # model
        self.records = [tuple(r) for r in self.orig_records]
        self.snapshot = list(self.records)      # as of last reinit(known)
        self.sup_model = OrderedDict(self.orig_sup)   # mirrors the real dict
        # contexts created BEFORE any extension (like the context of a
        # long-lived Connection): they must compare correctly afterwards
        kp0 = projection(self.orig_records)[2]
        self.old_contexts = [
            _ctxcls()(protocol_version=v)
            for v in (kp0[0], kp0[len(kp0) // 2], kp0[-30], kp0[-3],
                      kp0[-1])]
        self.fresh = 0
        self.hist = []
        self.nontail = False
        self.added = []          # (id, proto) of harness-added records

    def teardown(self):
        mc = self.mc
        self.orig_list_obj[:] = self.orig_records
        mc.KNOWN_MINECRAFT_VERSION_RECORDS = self.orig_list_obj
        # The property speaks about *extending* the records.  Undoing the
        # extension (removing records) is the harness's business, so the
        # harness empties every table itself before the rebuild: the next
        # case then starts from a state that is reachable by extension
        # alone, whatever the library does about entries of removed records.
        for n in TABLE_NAMES:
            getattr(mc, n).clear()
        mc.SUPPORTED_MINECRAFT_VERSIONS.clear()
        mc.initglobals(use_known_records=True)

    def _new_proto(self, kind):
        self.fresh += 1
        if kind == 'pre':
            return PRE | (1000 + self.fresh)
        return 100000 + self.fresh

    def _add(self, pos, vid, proto, supported):
        mc = self.mc
        if any(r[0] == vid for r in self.records):
            return
        rec = mc.Version(vid, proto, supported)
        if pos is None or pos >= len(self.records):
            mc.KNOWN_MINECRAFT_VERSION_RECORDS.append(rec)
            self.records.append(tuple(rec))
        else:
            mc.KNOWN_MINECRAFT_VERSION_RECORDS.insert(pos, rec)
            self.records.insert(pos, tuple(rec))
            self.nontail = True
        self.added.append((vid, proto))

    @rule(vid=st.one_of(_ids_release, _ids_snap, _ids_free, _ids_tricky),
          kind=st.sampled_from(['ord', 'pre']), supported=st.booleans())
    def append_record(self, vid, kind, supported):
        self.hist.append(('append_record', dict(vid=vid, kind=kind, supported=supported)))
        self._add(None, vid, self._new_proto(kind), supported)

    @rule(vid=st.one_of(_ids_release, _ids_snap, _ids_free, _ids_tricky),
          kind=st.sampled_from(['ord', 'pre']), supported=st.booleans(),
          pos=st.integers(0, 10 ** 6))
    def insert_record(self, vid, kind, supported, pos):
        pos %= len(self.records)
        self.hist.append(('insert_record', dict(vid=vid, kind=kind, supported=supported, pos=pos)))
        self._add(pos, vid, self._new_proto(kind), supported)

    @rule(vid=st.one_of(_ids_release, _ids_snap, _ids_free, _ids_tricky),
          which=st.integers(0, 10 ** 6), supported=st.booleans(),
          pos=st.one_of(st.none(), st.integers(0, 10 ** 6)))
    def duplicate_protocol_record(self, vid, which, supported, pos):
        self.hist.append(('duplicate_protocol_record', dict(
            vid=vid, which=which, supported=supported, pos=pos)))
        proto = self.records[which % len(self.records)][1]
        if pos is not None:
            pos %= len(self.records)
        self._add(pos, vid, proto, supported)

    @rule(which=st.integers(0, 10 ** 6),
          kind=st.sampled_from(['ord', 'pre']), supported=st.booleans(),
          pos=st.one_of(st.none(), st.integers(0, 10 ** 6)))
    def repeat_id_record(self, which, kind, supported, pos):
        # an id that is already in the records, listed again with ANOTHER
        # protocol number (a snapshot re-published under the same name):
        # both numbers are known, in record order; the name maps to the
        # later one
        self.hist.append(('repeat_id_record', dict(
            which=which, kind=kind, supported=supported, pos=pos)))
        mc = self.mc
        vid = self.records[which % len(self.records)][0]
        rec = mc.Version(vid, self._new_proto(kind), supported)
        if pos is None:
            mc.KNOWN_MINECRAFT_VERSION_RECORDS.append(rec)
            self.records.append(tuple(rec))
        else:
            pos %= len(self.records)
            mc.KNOWN_MINECRAFT_VERSION_RECORDS.insert(pos, rec)
            self.records.insert(pos, tuple(rec))
            self.nontail = True

    @precondition(lambda self: self.added)
    @rule(which=st.integers(0, 10 ** 6))
    def flip_supported(self, which):
        self.hist.append(('flip_supported', dict(which=which)))
        vid, proto = self.added[which % len(self.added)]
        mc = self.mc
        for i, r in enumerate(self.records):
            if r[0] == vid:
                new = (r[0], r[1], not r[2])
                self.records[i] = new
                mc.KNOWN_MINECRAFT_VERSION_RECORDS[i] = mc.Version(*new)
                return

    @rule()
    def rebind_records(self):
        """The records are 'updated by the library user during runtime' by
        assigning a new list to the module attribute (e.g. records = old +
        [new]) instead of mutating it; initglobals() reads the attribute, so
        this is as valid a way to extend them as append()."""
        self.hist.append(('rebind_records', {}))
        self.mc.KNOWN_MINECRAFT_VERSION_RECORDS = \
            list(self.mc.KNOWN_MINECRAFT_VERSION_RECORDS)
        self.ctx.label('records_rebound')

    @rule(vid=st.one_of(_ids_release, _ids_free, _ids_tricky), which=st.integers(0, 10**6))
    def legacy_add_supported(self, vid, which):
        """The documented legacy way: add to SUPPORTED_MINECRAFT_VERSIONS
        (an already known protocol) and call initglobals()."""
        self.hist.append(('legacy_add_supported', dict(vid=vid, which=which)))
        if vid in self.sup_model or any(r[0] == vid for r in self.records):
            return
        if which % 4 == 0:
            # a protocol number the records do not know (the supported and
            # release tables are projections of this dict alone)
            self.fresh += 1
            proto = 300000 + self.fresh
            self.ctx.label('legacy_new_number')
        else:
            proto = self.snapshot[which % len(self.snapshot)][1]
        self.mc.SUPPORTED_MINECRAFT_VERSIONS[vid] = proto
        self.sup_model[vid] = proto

    @rule()
    def reinit_known(self):
        self.mc.initglobals(use_known_records=True)
        self.snapshot = list(self.records)
        self.sup_model = projection(self.snapshot)[1]
        self.hist.append(('reinit_known', {}))
        self.check(after_known=True)

    @rule()
    def reinit_default(self):
        self.mc.initglobals()
        self.hist.append(('reinit_default', {}))
        self.check(after_known=False)

    @rule()
    def reinit_twice(self):
        self.mc.initglobals(use_known_records=True)
        self.snapshot = list(self.records)
        self.sup_model = projection(self.snapshot)[1]
        before = {n: (list(getattr(self.mc, n).items())
                      if isinstance(getattr(self.mc, n), dict)
                      else list(getattr(self.mc, n))) for n in TABLE_NAMES}
        self.mc.initglobals(use_known_records=True)
        after = {n: (list(getattr(self.mc, n).items())
                     if isinstance(getattr(self.mc, n), dict)
                     else list(getattr(self.mc, n))) for n in TABLE_NAMES}
        self.hist.append(('reinit_twice', {}))
        if before != after:
            self.ctx.fail('machine', 'O4-idempotent',
                          {'history': self.hist},
                          [n for n in TABLE_NAMES if before[n] != after[n]])
        self.check(after_known=True)

    def check(self, after_known):
        try:
            self._check(after_known)
        except Exception as e:
            # an exception out of the library while comparing / constructing
            # is a violation of the property, not a harness problem
            self.ctx.fail('machine', 'O5-library-raises-after-extension',
                          {'history': list(self.hist)}, exc=e)

    def _check(self, after_known):
        ctx, mc = self.ctx, self.mc
        ctx.ev()
        case = {'history': list(self.hist)}
        compare_tables(ctx, 'machine', self.snapshot, self.sup_model, case)
        for n in TABLE_NAMES:
            if id(getattr(mc, n)) != self.ids[n]:
                ctx.fail('machine', 'O4-identity', dict(case, table=n))
        # O1 on the extended order: new protocols against a sample
        from minecraft import utility
        kp, idx = projection(self.snapshot)[2:]
        newp = [p for _, p in self.added if p in idx]
        sample = set(newp[-6:]) | set(kp[::37]) | {kp[0], kp[-1]}
        cxc = _ctxcls()
        for a in newp[-6:]:
            cx = cxc(protocol_version=a)
            for b in sample:
                ra, rb = idx[a], idx[b]
                got = (utility.protocol_earlier(a, b),
                       utility.protocol_earlier_eq(a, b),
                       cx.protocol_later(b), cx.protocol_later_eq(b),
                       cx.protocol_in_range(b, a),
                       cx.protocol_in_range(a, b))
                want = (ra < rb, ra <= rb, ra > rb, ra >= rb, False,
                        ra < rb)
                if got != want:
                    ctx.fail('machine', 'O5-order-after-extension',
                             dict(case, a=a, b=b), got, want)
        # contexts that existed before the extension
        for cx in self.old_contexts:
            a = cx.protocol_version
            if a not in idx:
                continue
            for b in sample:
                ra, rb = idx[a], idx[b]
                got = (cx.protocol_earlier(b), cx.protocol_earlier_eq(b),
                       cx.protocol_later(b), cx.protocol_later_eq(b),
                       cx.protocol_in_range(b, a), cx.protocol_in_range(a, b))
                want = (ra < rb, ra <= rb, ra > rb, ra >= rb, False, ra < rb)
                if got != want:
                    ctx.fail('machine', 'O5-old-context-after-extension',
                             dict(case, a=a, b=b), got, want)
        # O5: Connection accepts newly supported, refuses unsupported
        if after_known:
            from minecraft.networking.connection import Connection
            supset = set(projection(self.snapshot)[1].values())
            for vid, p in self.added[-3:]:
                if p not in idx:
                    continue
                try:
                    c = Connection('localhost', allowed_versions={p})
                    ok = c.context.protocol_version == p
                except ValueError:
                    ok = None
                except Exception as e:
                    ctx.fail('machine', 'O5-connection-construction-raises',
                             dict(case, protocol=p), exc=e)
                    continue
                want_ok = p in supset
                if (ok is True) != want_ok:
                    ctx.fail('machine', 'O5-connection-accepts-supported',
                             dict(case, protocol=p), ok, want_ok)
        if self.nontail and after_known:
            ctx.nt(repr(self.hist))
            ctx.label('history_with_nontail_insert_then_reinit')
        if len(self.hist) > 3 and ctx.evaluations % 200 == 0:
            ctx.sample({'history': list(self.hist)}, 'history')


# -------------------------------------------------------------------- tasks

def t_pairs(ctx, lo, hi):
    kp = projection(list(_mc().KNOWN_MINECRAFT_VERSION_RECORDS))[2]
    for a in kp[lo:hi]:
        pairs_case(ctx, {'a': a})
    ctx.sample({'a': kp[lo], 'b': kp[-1]}, 'pair')
    ctx.exhaustive_done('all ordered pairs of known protocols x 6 predicates')


def t_static(ctx):
    matrix_case(ctx, {})
    chronology_case(ctx, {})
    tables_case(ctx, {})
    ctx.exhaustive_done('derived tables vs projection; chronology of all '
                        'records')


def t_in_range(ctx, lo, hi, full):
    kp = projection(list(_mc().KNOWN_MINECRAFT_VERSION_RECORDS))[2]
    if full:
        vs = kp[lo:hi]
    else:
        want = [0, 4, 5, 47, 107, 340, 393, 404, 440, 443, 477, 498, 578,
                735, 751, 753, PRE | 1, 754, PRE | 5, PRE | 15, 755, 756,
                PRE | 48, 757]
        vs = [v for v in want if v in kp][lo:hi]
    for v in vs:
        in_range_case(ctx, {'v': v})
    if vs:
        ctx.sample({'v': vs[0], 'start': kp[3], 'end': kp[-2]}, 'in_range')
    ctx.exhaustive_done('in_range: all (start,end) pairs at %s context '
                        'versions' % ('all' if full else 'boundary-sample'))


def t_machine(ctx, n, steps):
    hyp_machine(ctx, 'versions', VersionsMachine, n, steps)


def tasks(tier):
    q = tier == 'quick'
    nk = len(projection(list(_mc().KNOWN_MINECRAFT_VERSION_RECORDS))[2])
    tl = [('static', t_static, {})]
    for i in range(4):
        tl.append(('pairs_%d' % i, t_pairs,
                   dict(lo=nk * i // 4, hi=nk * (i + 1) // 4)))
    if q:
        for i in range(6):
            tl.append(('in_range_%d' % i, t_in_range,
                       dict(lo=4 * i, hi=4 * i + 4, full=False)))
    else:
        for i in range(24):
            tl.append(('in_range_%d' % i, t_in_range,
                       dict(lo=nk * i // 24, hi=nk * (i + 1) // 24,
                            full=True)))
    for i in range(4 if q else 12):
        tl.append(('machine_%d' % i, t_machine,
                   dict(n=40 if q else 600, steps=25 if q else 40)))
    return tl
