"""C14 - networking-thread exceptions are contained and routed like
try/except.  Fault origins x handler chains x final handler against a
reference model of the documented semantics."""
import itertools

from hypothesis import strategies as st

from vlib import vnet, servers
from vlib.runner import hyp

PROPERTY = 'C14'
LEVEL = 'fault_enumeration'
RULE = ('Also: the peer resets while replies are queued and a listener '
        'faults (clean-up must not depend on flushing); handlers of a '
        'second Connection object never fire. '
'Fault origin in {early listener, ordinary listener, built-in '
        'reaction (login disconnect; malformed status JSON), decoder (known '
        'id with truncated body), outgoing listener during the write loop, '
        'exit callback} raising an exception of a class drawn from '
        'Exception > A > B, C, IOError, EOFError; handler chain of 0-4 '
        'handlers, each with a type filter (all / one class / tuple), early '
        'flag (inserted at the front) and behaviour in {return, raise a new '
        'exception of drawn class, reconnect}; final handler in {None, '
        'False, returning function, raising function}; state login or play, '
        'plain or compressed. All chains of length <= 2 over the class '
        'hierarchy x all finals x a listener origin are enumerated '
        'completely; longer chains and the other origins by Hypothesis. '
        'Oracle = model walking the chain as except-clauses: handler call '
        'log (who, with which exception object, exc_info[1] is exc) (X1); '
        'connection.exception is the last exception (X2); thread ended, '
        'networking_thread None, link closed unless a handler reconnected '
        '(X3); re-raised from the thread iff uncaught and final is None '
        '(X4); a later connect() succeeds and reaches play (X5). '
        'Non-trivial: chain >= 2 with a non-matching and a raising handler, '
        'or a raising final handler; distinct by (origin, chain, final).')
RULE += (' ' +
         'Added in later rounds: a bystander Connection; peer reset with '
         'replies queued; a final handler that is a falsy callable; a final '
         'handler that uninstalls itself while running; a handler that '
         'queues a farewell and calls the plain disconnect() (the farewell '
         'must reach the server). Round 11: handlers that re-raise with a '
         'bare `raise` (while the original exception is the current one). '
         'Round 12: a listener fault in the same loop pass as a deferred '
         'write error (the peer emits the triggering packet inside the '
         "client's failing send); descriptors of the faulted link closed. "
         'Round 13: type filters given as one tuple argument (also the empty '
         'tuple, which matches nothing). Round 14: ten more built-in fault '
         'classes from every user-code origin (task classes). Round 16: '
         'handler action supervised - the handler waits until a supervisor '
         "thread's disconnect() returned; exit callbacks counted per session "
         '(X5-exit-callback-of-clean-sessions). ')
LEVEL_TEXT = ('Enumeration of fault origins x handler-chain configurations '
              '(complete for chains up to length 2 over a 6-class hierarchy) '
              'against a reference model of the documented try/except '
              'semantics, on an in-memory network.')
LEVEL_NOTE = ('Trusted: in-memory transport, scripted servers; the model is '
              'written from the docstrings of register_exception_handler '
              'and of the handle_exception constructor argument. OSError '
              'family faults are not injected in the write phase (the '
              'library defers those deliberately).')
TECHNIQUE = ('fault injection x handler-chain enumeration against a '
             'reference model of try/except routing, in-memory network')
ASSUMPTIONS = ['faults are Exception subclasses']


class A(Exception):
    pass


class B(A):
    pass


class C(Exception):
    pass


CLASSES = {'Exception': Exception, 'A': A, 'B': B, 'C': C,
           'IOError': IOError, 'EOFError': EOFError,
           # built-in classes that library code also raises and catches for
           # its own purposes: one escaping a listener is the listener's
           'IndexError': IndexError, 'KeyError': KeyError,
           'ValueError': ValueError, 'TypeError': TypeError,
           'AttributeError': AttributeError, 'StopIteration': StopIteration,
           'RuntimeError': RuntimeError, 'AssertionError': AssertionError,
           'LookupError': LookupError, 'UnicodeDecodeError': None}
class _UDE(UnicodeDecodeError):
    def __init__(self, msg='x'):
        UnicodeDecodeError.__init__(self, 'utf-8', b'\xff', 0, 1, msg)


CLASSES['UnicodeDecodeError'] = _UDE
FILTERS = [(), ('A',), ('B',), ('C',), ('A', 'C'), ('IOError',),
           ('EOFError',), ('Exception',), ('B', 'EOFError'),
           ('LookupError',), ('ValueError', 'KeyError')]
ORIGINS = ['early_listener', 'listener', 'login_listener',
           'reaction_login_disconnect', 'reaction_status_json', 'decoder',
           'outgoing_listener', 'exit_callback', 'hook_raises']


_HUNG_SEEN = [0]


def route_case(ctx, case):
    """case {origin, exc: class name, chain [{filter, early, do, new}],
             final: 'none'|'false'|'return'|'raise', final_new, compress}"""
    from minecraft.networking.packets import clientbound as cb, \
        serverbound as sb
    from minecraft.networking.connection import Connection
    origin = case['origin']
    ctx.ev()
    version = case.get('version', 757)
    compress = case.get('compress')
    chain = [dict(h) for h in case['chain']]
    final = case['final']
    # registration order -> effective order (early = insert at front)
    order = []
    for i, h in enumerate(chain):
        h['id'] = i
        if h.get('early'):
            order.insert(0, h)
        else:
            order.append(h)
    calls = []              # (who, exception object, exc_info ok)
    made = {}               # handler id -> exception object it raised
    reconnected = []
    hung = []
    farewell = []
    fault = {'exc': None, 'raised': False}
    drawn = CLASSES[case.get('exc', 'A')]('injected fault')

    login = []
    if compress is not None:
        login.append(('compress', compress))
    play = {'bursts': [[('keep_alive', {'keep_alive_id': 11})]],
            'mode': 'reactive', 'end': 'disconnect'}
    status = None
    if origin == 'reaction_login_disconnect':
        login.append(('disconnect', '{"text":"go away"}'))
    else:
        login.append(('success',))
    if origin == 'decoder':
        ka_id = servers.packet_info(version, 'keep_alive')[0]
        play = {'bursts': [[('raw', ka_id, b'\x80')]], 'mode': 'all',
                'end': 'silent'}
    if origin == 'reaction_status_json':
        status = {'reply': 'this is not json'}
    reset = bool(case.get('reset')) and origin in ('listener',
                                                   'early_listener')
    if reset:
        # the peer sends a burst and is gone (RST): replies to the burst are
        # still queued when the listener faults, and writing to the dead
        # peer would fail - the clean-up after the handlers must not depend
        # on flushing them
        play = {'bursts': [[('keep_alive', {'keep_alive_id': k})
                            for k in (11, 13, 14)]], 'mode': 'all',
                'end': 'eof'}
    pending = bool(case.get('pending_write_error')) and not reset and \
        origin in ('listener', 'early_listener')
    if pending:
        # two faults in one pass of the networking loop: writing a queued
        # packet fails (the error is deferred until the read phase is over)
        # and, in that read phase, a listener raises.  The exception that
        # escapes the listener is the one to dispatch.  The keep-alive that
        # triggers the listener is sent by the peer at the very moment the
        # client's write fails (Link.before_send).
        play = {'bursts': [[('raw', 0x7B, b'u')]], 'mode': 'all',
                'end': 'silent'}
        ctx.label('listener_fault_with_write_error_pending')
    spec1 = {'version': version, 'login': login, 'play': play,
             'status': status}
    clean = {'version': version, 'login': [('success',)],
             'play': {'bursts': [[('keep_alive', {'keep_alive_id': 12})]],
                      'mode': 'reactive', 'end': 'disconnect'}}
    srvs = []

    def factory(addr):
        s = servers.Server(dict(spec1 if not srvs else clean))
        if reset and not srvs:
            s.reset_on_close = True
        srvs.append(s)
        return s
    world = vnet.World(default=factory)
    if origin == 'hook_raises':
        # negotiating connect; the status connection is closed without a
        # reply (EOFError -> the reactor's built-in fallback reconnects with
        # the default version) and that reconnect is refused: the exception
        # raised *inside the built-in hook* replaces the original one
        st_srv = servers.Server({'version': version,
                                 'status': {'mode': 'close', 'reply': None}})
        srvs.append(st_srv)
        world.servers = [st_srv, 'refuse']
    final_calls = []
    conn_box = [None]
    final_exc = CLASSES[case.get('final_new', 'C')]('raised by final')

    def final_fn(exc, exc_info):
        final_calls.append((exc, exc_info[1] is exc))
        if case.get('final_oneshot') and len(final_calls) == 1:
            # a one-shot final handler: it uninstalls itself while it runs.
            # It was configured when the fault occurred and it has run, so
            # this fault is not re-raised from the thread
            conn_box[0].handle_exception = None
            ctx.label('final_handler_uninstalls_itself')
        if final == 'raise':
            raise final_exc
    fkw = {'none': None, 'false': False, 'return': final_fn,
           'raise': final_fn}[final]
    if case.get('final_falsy') and final in ('return', 'raise'):
        # a final handler is any callable - also one whose truth value is
        # False (an empty list subclass used as an error log, say); only
        # None and False switch the final handler off
        class ErrorLog(list):
            def __call__(self, exc, exc_info):
                return final_fn(exc, exc_info)
        fkw = ErrorLog()
        ctx.label('final_handler_falsy_callable')
    exits = []
    with vnet.installed(world):
        def on_exit():
            exits.append(1)
            if origin == 'exit_callback' and not fault['raised']:
                fault['raised'] = True
                fault['exc'] = drawn
                raise drawn
        allowed = {version}
        ckw = {}
        if origin == 'hook_raises':
            allowed = {version, 47 if version != 47 else 340}
            ckw['initial_version'] = version
        conn = Connection('localhost', 25565, username='u',
                          allowed_versions=allowed,
                          handle_exception=fkw, handle_exit=on_exit, **ckw)
        conn_box[0] = conn

        # a second Connection object that is never connected: handlers and
        # the final handler registered on it belong to it alone
        bystander = []
        other = Connection('localhost', 25566, username='v',
                           allowed_versions=allowed,
                           handle_exception=lambda e, i: bystander.append(
                               'final'))
        other.register_exception_handler(
            lambda e, i: bystander.append('handler'))
        other.register_exception_handler(
            lambda e, i: bystander.append('early'), early=True)

        def make_handler(h):
            def fn(exc, exc_info):
                calls.append((h['id'], exc, exc_info[1] is exc and
                              exc_info[0] is type(exc)))
                if h['do'] == 'raise':
                    e = CLASSES[h.get('new', 'C')]('raised by handler %d'
                                                   % h['id'])
                    made[h['id']] = e
                    raise e
                if h['do'] == 'reraise':
                    raise exc
                if h['do'] == 'bare_raise':
                    # 'dispatched like a try/except chain': inside a handler
                    # the exception being handled is the interpreter's
                    # active exception, so the bare form re-raises it
                    raise               # noqa: PLE0704
                if h['do'] == 'supervised':
                    # 'report to a supervisor and wait until it has shut the
                    # connection down': another thread calls disconnect()
                    # while this handler waits for it - the library holds
                    # no lock of its own while handlers run
                    import threading as _th
                    if _HUNG_SEEN[0] < 2:
                        # (after two hangs in this process the point is
                        # made: do not wait 2 s in every later case)
                        sup = _th.Thread(target=conn.disconnect)
                        sup.daemon = True
                        sup.start()
                        sup.join(2.0)
                        if sup.is_alive():
                            hung.append(h['id'])
                            _HUNG_SEEN[0] += 1
                if h['do'] == 'note':
                    # the handler deals with the error and queues a packet
                    # (a report it would like to send) without closing
                    # anything itself; an outgoing listener of the user's
                    # objects to such packets (note_guard below).  Whatever
                    # the clean-up does with the queue, nothing may escape
                    # the thread and the connection must end up closed.
                    conn.write_packet(sb.play.ChatPacket(
                        message='note%d' % h['id']))
                if h['do'] == 'bye':
                    # graceful shutdown from a handler: queue a farewell and
                    # call the plain (flushing) disconnect()
                    farewell.append(h['id'])
                    for tail in 'ab':
                        conn.write_packet(sb.play.ChatPacket(
                            message='bye%d%s' % (h['id'], tail)))
                    conn.disconnect()
                if h['do'] in ('reconnect', 'reconnect_direct') and \
                        not reconnected:
                    reconnected.append(h['id'])
                    if h['do'] == 'reconnect':
                        conn.disconnect(immediate=True)
                    conn.connect()
            return fn
        for h in chain:
            types = tuple(CLASSES[n] for n in h['filter'])
            if h.get('as_tuple'):
                # the types given as ONE argument, a tuple as an except
                # clause takes it (isinstance accepts nested tuples); an
                # empty tuple then matches nothing, like `except ():`
                types = (types,)
                ctx.label('filter_given_as_one_tuple')
            if case.get('decorator') and h['id'] % 2:
                conn.exception_handler(*types, early=bool(h.get('early')))(
                    make_handler(h))
            else:
                conn.register_exception_handler(
                    make_handler(h), *types, early=bool(h.get('early')))

        if any(h['do'] == 'note' for h in chain):
            ctx.label('handler_queues_note_guarded_by_outgoing_listener')

            def note_guard(p):
                if str(p.message).startswith('note'):
                    raise RuntimeError('outgoing listener rejects %r'
                                       % (p.message,))
            conn.register_packet_listener(note_guard, sb.play.ChatPacket,
                                          outgoing=True)

        def raiser(p):
            if not fault['raised']:
                fault['raised'] = True
                fault['exc'] = drawn
                raise drawn
        if pending:
            from minecraft.networking.packets import Packet as _Packet
            armed = []

            def arm(p):
                if p.id == 0x7B and not armed:
                    armed.append(1)
                    link0 = world.links[0]
                    link0.send_error = BrokenPipeError(32, 'Broken pipe')
                    link0.before_send = lambda: srvs[0].send_item(
                        ('keep_alive', {'keep_alive_id': 11}))
                    conn.write_packet(sb.play.ChatPacket(message='x'))
            conn.register_packet_listener(arm, _Packet, early=True)
        if origin == 'early_listener':
            conn.register_packet_listener(raiser, cb.play.KeepAlivePacket,
                                          early=True)
        elif origin == 'listener':
            conn.register_packet_listener(raiser, cb.play.KeepAlivePacket)
        elif origin == 'login_listener':
            conn.register_packet_listener(raiser, cb.login.LoginSuccessPacket)
        elif origin == 'outgoing_listener':
            conn.register_packet_listener(raiser, sb.play.KeepAlivePacket,
                                          outgoing=True)
        try:
            if origin == 'reaction_status_json':
                conn.status(handle_status=lambda s: None)
            else:
                conn.connect()
        except Exception as e:
            ctx.fail('route', 'X-entry-raised', case, exc=e)
            return
        state = world.settle()
        if state == 'timeout':
            from vlib.core import HarnessError
            raise HarnessError('C14 case did not settle')
        nt_after = conn.networking_thread
        # (a session a handler started is still running: only the handles
        # of the faulted link are expected to be closed by now)
        handles_after = [h for h in world.open_handles()
                         if h.endswith('link 0')] if state == 'done' else []
        recorded = conn.exception
        recorded_info = conn.exc_info
        links_closed = [l.closed_by_client() for l in world.links]
        exits_first = len(exits)
        # X5: the same object can connect again
        x5 = None
        if state == 'done':
            try:
                n_before = len(world.links)
                conn.connect()
                st2 = world.settle()
                x5 = (st2, len(world.links) - n_before,
                      srvs[-1].replies if srvs else None)
            except Exception as e:
                x5 = ('raised', repr(e))
        exits_x5 = len(exits) - exits_first
        # a second fault on the same object must be recorded afresh
        first_final_calls = list(final_calls)   # snapshot, first fault
        hook_calls = list(world.excepthook_calls)
        second = None
        if state == 'done' and not chain and final != 'raise' and \
                x5 and x5[0] == 'done':
            world.default = lambda addr: servers.Server({
                'version': version,
                'login': [('disconnect', '{"text":"second"}')]})
            try:
                conn.connect()
                world.settle()
                second = conn.exception
            except Exception as e:
                second = e
    if state in ('idle', 'blocked'):
        ctx.fail('route', 'X3-thread-not-terminated', case, state)
        return
    if bystander or other.exception is not None:
        ctx.fail('route', 'X1-handler-of-another-connection-called', case,
                 (bystander, repr(other.exception)), 'no call')
        return
    # ---- the initial exception
    if origin in ('early_listener', 'listener', 'login_listener',
                  'outgoing_listener', 'exit_callback'):
        if not fault['raised']:
            ctx.fail('route', 'X-fault-not-injected', case)
            return
        initial = drawn
    else:
        # raised by the library: learn it from the first observation
        if calls:
            initial = calls[0][1]
        elif first_final_calls:
            initial = first_final_calls[0][0]
        else:
            initial = recorded
        want_type = {'reaction_login_disconnect': 'LoginDisconnect',
                     'reaction_status_json': 'ValueError',
                     'hook_raises': 'ConnectionRefusedError',
                     'decoder': None}[origin]
        if initial is None:
            ctx.fail('route', 'X2-no-exception-recorded', case)
            return
        if want_type and want_type not in [c.__name__ for c in
                                           type(initial).__mro__]:
            ctx.fail('route', 'X-library-fault-class', case,
                     type(initial).__name__, want_type)
    # ---- model
    def resolve(x):
        if isinstance(x, tuple) and x and x[0] == 'made':
            return made.get(x[1])
        return x
    # exceptions raised by handlers are represented as ('made', id) and
    # resolved to the actual objects afterwards
    current = initial
    want_calls = []
    caught = False
    did_reconnect = False
    for h in order:
        types = tuple(CLASSES[n] for n in h['filter'])
        cur_cls = type(current) if not isinstance(current, tuple) \
            else CLASSES[next(x for x in chain
                              if x['id'] == current[1]).get('new', 'C')]
        if (not types and not h.get('as_tuple')) or \
                (types and issubclass(cur_cls, types)):
            want_calls.append((h['id'], current))
            if h['do'] == 'raise':
                current = ('made', h['id'])
                continue
            if h['do'] in ('reraise', 'bare_raise'):
                continue
            if h['do'] in ('reconnect', 'reconnect_direct') and \
                    not did_reconnect:
                did_reconnect = h['do']
            caught = True
            break
    want_final = None
    if final in ('return', 'raise'):
        want_final = current
        if final == 'raise':
            current = ('final',)
    last = final_exc if current == ('final',) else resolve(current)
    # X1
    got = [(i, e) for i, e, ok in calls]
    want = [(i, resolve(e)) for i, e in want_calls]
    if len(got) != len(want) or any(a[0] != b[0] or a[1] is not b[1]
                                    for a, b in zip(got, want)):
        ctx.fail('route', 'X1-handler-call-log', case,
                 [(i, type(e).__name__) for i, e in got],
                 [(i, type(e).__name__) for i, e in want])
    if not all(ok for i, e, ok in calls):
        ctx.fail('route', 'X1-exc_info-mismatch', case)
    if want_final is not None:
        if len(first_final_calls) != 1 or first_final_calls[0][0] is not \
                resolve(want_final) or not first_final_calls[0][1]:
            ctx.fail('route', 'X1-final-handler', case,
                     [type(e).__name__ for e, ok in first_final_calls],
                     type(resolve(want_final)).__name__)
    elif first_final_calls:
        ctx.fail('route', 'X1-final-handler', case, len(first_final_calls), 0)
    # X2
    if recorded is not last:
        ctx.fail('route', 'X2-recorded-exception', case, repr(recorded),
                 repr(last))
    elif recorded_info is None or recorded_info[1] is not last:
        ctx.fail('route', 'X2-recorded-exc_info', case)
    if not chain and final != 'raise' and x5 and x5[0] == 'done':
        if second is None or second is recorded or \
                'second' not in str(second):
            ctx.fail('route', 'X2-second-fault-not-recorded', case,
                     repr(second), 'the LoginDisconnect of the second fault')
    # X3
    if nt_after is not None:
        ctx.fail('route', 'X3-networking_thread-not-cleared', case)
    if handles_after and did_reconnect != 'reconnect_direct':
        ctx.fail('route', 'X3-descriptor-left-open', case, handles_after,
                 'every connected socket and its file object closed')
    if (not links_closed or not links_closed[0]) and \
            did_reconnect != 'reconnect_direct':
        ctx.fail('route', 'X3-link-left-open', case)
    if did_reconnect:
        if len(links_closed) < 2:
            ctx.fail('route', 'X3-reconnect-did-not-connect', case)
        elif srvs[1].replies != [('keep_alive', 12)] or srvs[1].errors:
            ctx.fail('route', 'X3-reconnected-session-disturbed', case,
                     (srvs[1].replies, srvs[1].errors[:2]),
                     [('keep_alive', 12)])
    # a handler's farewell, queued before its non-immediate disconnect(),
    # reaches the server before the connection closes
    if farewell:
        chat_id = servers.packet_info(version, 'sb_chat')[0]
        try:
            got_bye = [servers.decode(version, 'sb_chat', pl)['message']
                       for pid, pl in srvs[0].other_play_frames
                       if pid == chat_id]
        except Exception as e:
            got_bye = ['undecodable: %r' % (e,)]
        want_bye = ['bye%d%s' % (farewell[0], t) for t in 'ab']
        if got_bye != want_bye or srvs[0].errors:
            ctx.fail('route', 'X3-farewell-before-disconnect-not-sent', case,
                     (got_bye, srvs[0].errors[:2]), want_bye)
        ctx.label('handler_farewell_then_disconnect')
    if hung:
        ctx.fail('route', 'X3-handler-blocked-by-a-library-lock', case,
                 'disconnect() from another thread did not return within 2 s '
                 'while handler %r waited for it' % (hung,), 'returns')
    # X4
    should_raise = final == 'none' and not caught
    raised_out = [c for c in hook_calls]
    if should_raise:
        if len(raised_out) != 1 or raised_out[0].exc_value is not last:
            ctx.fail('route', 'X4-not-reraised', case,
                     [repr(c.exc_value) for c in raised_out], repr(last))
    elif raised_out:
        ctx.fail('route', 'X4-reraised', case,
                 [repr(c.exc_value) for c in raised_out], 'nothing')
    # the exit callback belongs to sessions that end without an error: the
    # faulted one has none (unless the callback itself was the fault), a
    # session a handler started and the server then ended cleanly has one,
    # and so has the session connected afterwards
    want_first = (1 if origin == 'exit_callback' else 0) + \
        (1 if did_reconnect and len(links_closed) >= 2 else 0)
    if origin != 'reaction_status_json' and (
            exits_first != want_first or
            (x5 and x5[0] == 'done' and exits_x5 != 1)):
        ctx.fail('route', 'X5-exit-callback-of-clean-sessions', case,
                 (exits_first, exits_x5), (want_first, 1))
    # X5
    if x5 is None or x5[0] != 'done' or x5[1] != 1 or \
            x5[2] != [('keep_alive', 12)]:
        ctx.fail('route', 'X5-cannot-connect-again', case, x5,
                 ('done', 1, [('keep_alive', 12)]))
    nonmatching = len(want_calls) < len(
        [h for h in order[:([h['id'] for h in order].index(
            want_calls[-1][0]) + 1) if want_calls else len(order)]])
    raising = any(h['do'] == 'raise' for h in chain
                  if h['id'] in [i for i, e in want_calls])
    if (len(chain) >= 2 and nonmatching and raising) or final == 'raise':
        ctx.nt(repr(case))
    ctx.label('origin_' + origin, 'final_' + final,
              'caught' if caught else 'uncaught')
    if did_reconnect:
        ctx.label('reconnected')


COMPONENTS = {'route': route_case}


def handler_strategy():
    return st.fixed_dictionaries({
        'filter': st.sampled_from(FILTERS).map(list),
        'as_tuple': st.sampled_from([False, False, True]),
        'early': st.booleans(),
        'do': st.sampled_from(['return', 'raise', 'raise', 'reraise',
                               'reconnect', 'reconnect_direct', 'bye',
                               'bare_raise', 'supervised', 'note']),
        'new': st.sampled_from(sorted(CLASSES))})


def case_strategy():
    return st.fixed_dictionaries({
        'origin': st.sampled_from(ORIGINS),
        'exc': st.sampled_from(sorted(CLASSES)),
        'chain': st.lists(handler_strategy(), max_size=4),
        'final': st.sampled_from(['none', 'false', 'return', 'raise']),
        'final_new': st.sampled_from(sorted(CLASSES)),
        'compress': st.sampled_from([None, None, 0, 256]),
        'version': st.sampled_from([757, 757, 340, 47]),
        'decorator': st.booleans(),
        'final_falsy': st.sampled_from([False, False, True]),
        'final_oneshot': st.sampled_from([False, False, True]),
        'pending_write_error': st.sampled_from([False, False, True]),
        'reset': st.sampled_from([False, False, True])})


def fix_case(c):
    if c['origin'] == 'outgoing_listener' and c['exc'] in ('IOError',):
        c = dict(c, exc='A')        # write-phase IOError is deferred
    if c['origin'] in ('reaction_status_json', 'hook_raises'):
        c = dict(c, compress=None)
    if c['origin'] not in ('listener', 'early_listener') or \
            c.get('reset') or c.get('pending_write_error'):
        # a farewell needs a live play-state session to be sent on
        c = dict(c, chain=[dict(h, do='return') if h['do'] == 'bye' else h
                           for h in c['chain']])
    if any(h['do'] in ('bye', 'supervised', 'reconnect', 'reconnect_direct')
           for h in c['chain']) or c.get('pending_write_error'):
        # a queued note is only unambiguous while no handler flushes the
        # queue or starts a session it would legitimately be sent on
        c = dict(c, chain=[dict(h, do='return') if h['do'] == 'note' else h
                           for h in c['chain']])
    if any(h['do'] == 'raise' for h in c['chain']) or \
            c['origin'] == 'hook_raises':
        # once a handler (or the built-in hook) has replaced the exception,
        # which one a bare raise re-raises is the interpreter's business:
        # only asserted while the original exception is the current one
        c = dict(c, chain=[dict(h, do='reraise') if h['do'] == 'bare_raise'
                           else h for h in c['chain']])
    if c['origin'] == 'hook_raises':
        # after the refused fallback there is nothing to reconnect to in
        # the same breath: keep handlers to return/raise/reraise
        c = dict(c, chain=[dict(h, do='return') if h['do'].startswith(
            'reconnect') else h for h in c['chain']])
    return c


def t_enumerate(ctx, shard, nshards):
    """all chains of length <= 2 over a 3-class sub-hierarchy x finals"""
    fl = [[], ['A'], ['B'], ['C']]
    dos = [('return', None), ('raise', 'B'), ('raise', 'C')]
    hs = [{'filter': f, 'early': e, 'do': d, 'new': n or 'C'}
          for f in fl for e in (False, True) for d, n in dos]
    chains = [[]] + [[h] for h in hs] + \
        [[a, b] for a in hs for b in hs]
    k = 0
    for chain in chains:
        for final in ('none', 'false', 'return', 'raise'):
            for exc in ('A', 'B', 'C'):
                k += 1
                if k % nshards != shard:
                    continue
                case = {'origin': 'listener', 'exc': exc,
                        'chain': [dict(h) for h in chain], 'final': final,
                        'final_new': 'C', 'compress': None, 'version': 757}
                route_case(ctx, case)
                if k % 4001 == 0:
                    ctx.sample(case, 'enumerated')
    ctx.exhaustive_done('all handler chains of length <= 2 over '
                        'filters {all,A,B,C} x early x {return, raise B, '
                        'raise C} x 4 finals x 3 fault classes')


def t_classes(ctx):
    """every fault class x every place a user callable can raise from"""
    for origin in ('early_listener', 'listener', 'login_listener',
                   'outgoing_listener', 'exit_callback'):
        for exc in sorted(CLASSES):
            for final in ('return', 'none'):
                for chain in ([], [{'filter': [exc], 'early': False,
                                    'do': 'return'}],
                              [{'filter': ['A'], 'early': False,
                                'do': 'return'},
                               {'filter': ['Exception'], 'early': False,
                                'do': 'reraise'}]):
                    route_case(ctx, fix_case({
                        'origin': origin, 'exc': exc,
                        'chain': [dict(h) for h in chain], 'final': final,
                        'final_new': 'C', 'compress': None,
                        'version': 757}))
    ctx.exhaustive_done('%d fault classes x 5 user-code origins x 2 finals '
                        'x 3 chains' % len(CLASSES))


def t_origins(ctx):
    for origin in ORIGINS:
        for final in ('none', 'false', 'return', 'raise'):
            for chain in ([], [{'filter': [], 'early': False,
                                'do': 'return'}],
                          [{'filter': ['C'], 'early': False, 'do': 'return'},
                           {'filter': [], 'early': True, 'do': 'reraise'},
                           {'filter': ['Exception'], 'early': False,
                            'do': 'raise', 'new': 'C'}],
                          [{'filter': [], 'early': False,
                            'do': 'reconnect'}],
                          [{'filter': [], 'early': False,
                            'do': 'reconnect_direct'}],
                          [{'filter': ['C'], 'early': False, 'do': 'return'},
                           {'filter': [], 'early': False, 'do': 'bye'}],
                          [{'filter': ['B'], 'early': False,
                            'do': 'bare_raise'},
                           {'filter': ['A'], 'early': False,
                            'do': 'return'}],
                          [{'filter': [], 'early': True,
                            'do': 'bare_raise'}],
                          [{'filter': [], 'early': False, 'do': 'return',
                            'as_tuple': True},
                           {'filter': ['B', 'C'], 'early': False,
                            'do': 'return', 'as_tuple': True}],
                          [{'filter': [], 'early': True, 'do': 'return',
                            'as_tuple': True}],
                          [{'filter': [], 'early': False,
                            'do': 'supervised'}],
                          [{'filter': [], 'early': False, 'do': 'note'}],
                          [{'filter': ['C'], 'early': True, 'do': 'note'},
                           {'filter': ['B'], 'early': False, 'do': 'note'},
                           {'filter': [], 'early': False,
                            'do': 'return'}]):
                for comp in (None, 256):
                    route_case(ctx, fix_case({
                        'origin': origin, 'exc': 'B', 'chain': chain,
                        'final': final, 'final_new': 'EOFError',
                        'compress': comp, 'version': 757}))
                if final in ('return', 'raise'):
                    route_case(ctx, fix_case({
                        'origin': origin, 'exc': 'B', 'chain': chain,
                        'final': final, 'final_new': 'EOFError',
                        'compress': None, 'version': 757,
                        'final_falsy': True}))
                if final in ('return', 'raise'):
                    route_case(ctx, fix_case({
                        'origin': origin, 'exc': 'B', 'chain': chain,
                        'final': final, 'final_new': 'EOFError',
                        'compress': None, 'version': 757,
                        'final_oneshot': True}))
                if origin in ('listener', 'early_listener'):
                    route_case(ctx, fix_case({
                        'origin': origin, 'exc': 'B', 'chain': chain,
                        'final': final, 'final_new': 'EOFError',
                        'compress': None, 'version': 757, 'reset': True}))
                    for exc_ in ('B', 'IOError'):
                        route_case(ctx, fix_case({
                            'origin': origin, 'exc': exc_, 'chain': chain,
                            'final': final, 'final_new': 'EOFError',
                            'compress': None, 'version': 757,
                            'pending_write_error': True}))
    ctx.exhaustive_done('9 origins x 4 finals x 11 chains x 2 compression '
                        'modes')


def t_random(ctx, n):
    def body(c, case):
        case = fix_case(case)
        route_case(c, case)
        if c.evaluations % 100 == 1:
            c.sample(case, 'random')
    hyp(ctx, 'random', case_strategy(), body, n)


def tasks(tier):
    q = tier == 'quick'
    tl = [('origins', t_origins, {}), ('classes', t_classes, {})]
    nsh = 8 if q else 12
    for i in range(nsh):
        tl.append(('enum_%d' % i, t_enumerate, dict(shard=i, nshards=nsh)))
    for i in range(6 if q else 12):
        tl.append(('random_%d' % i, t_random, dict(n=400 if q else 5000)))
    return tl
