"""C11 - in play, keep-alives and teleports are always answered; unknown
packets pass; a server disconnect ends the connection cleanly."""
import math

from hypothesis import strategies as st

from vlib import vnet, servers, wire
from vlib.runner import hyp
from props import c04_position as P4

PROPERTY = 'C11'
LEVEL = 'exploration'
RULE = ('Also: an outgoing listener disconnecting after the d-th '
        'keep-alive reply of a burst (each still answered once); a '
        'reply write that fails with an OS error followed by the '
        "server's disconnect packet (clean ending, no error). "
'After a minimal login (optionally with compression 0/64/256) the '
        'scripted server sends a history of 1-400 packets drawn from '
        'keep-alives (ids at every VarInt/Long boundary incl. 32-bit '
        'patterns >= 2^31 and negative Longs from protocol 339), '
        'position-and-look (finite floats, every flag byte, teleport ids at '
        'VarInt boundaries), frames with ids in no table for the version '
        '(0-600 bytes of arbitrary content, incl. frame lengths of exactly '
        'threshold-1 / threshold / threshold+1), known-but-unhandled packets '
        '(time update, chat, update health), delivered at once, in bursts '
        'or reactively, ended by a play disconnect (or end-of-stream); '
        'versions: the 30 releases + random supported ones (quick), all '
        'supported (thorough). Oracle = reference model: the reply frames '
        'the server receives are exactly one keep-alive echo per keep-alive '
        '(same id, version layout) and one teleport confirm (>= 107) or '
        'position echo (< 107, on_ground true) per position packet, in '
        'arrival order (K1/K2); an early listener sees every packet once in '
        'order, unknown ids as generic packets, later packets intact (K3); '
        'the disconnect closes the link after everything was flushed, runs '
        'the exit callback once, reports no error (K4). Non-trivial: >= 3 '
        'reply-requiring packets of >= 2 kinds with an unknown frame between '
        'them, or length >= 51; distinct by case fingerprint.')
RULE += (' ' +
         'Added in later rounds: histories entered through version '
         'negotiation; two logged-in connections at once; repeated sessions '
         'on one object; write errors; kick reasons of every JSON shape '
         'incl. nesting 3000-60000 deep, unbalanced and 70 kB long; unknown '
         'frames of exactly threshold-1/threshold/threshold+1 bytes. Round '
         '11: component flood - one keep-alive, then 70 000 (thorough 300 '
         '000) packets queued at once from a listener or the user thread; '
         'the reply and every packet arrive once, in order. Round 12: peers '
         "that reset (the client's own shutdown() then fails); descriptors "
         'of ended sessions closed. Round 15: histories under clocks that '
         'leap an hour per reading (wall clock and timeit.default_timer) or '
         'step back. Round 16: sessions started by an exception handler of '
         'the previous, failed session - the exit callback runs once per '
         'session that ended without an error (delegated to C14). ')
LEVEL_TEXT = ('Model-based testing of the play-state reactions over '
              'generated server histories x versions x compression x '
              'delivery patterns on an in-memory network.')
LEVEL_NOTE = ('Trusted: in-memory transport, scripted server on the '
              'reference codec. For non-release versions the ids/type lists '
              'of stimulus packets come from the library itself (the oracle '
              'does not depend on them being the real ones).')
TECHNIQUE = ('model-based property testing of packet histories on an '
             'in-memory network against a reference reply model')
ASSUMPTIONS = ['keep-alive VarInt ids are generated as unsigned 32-bit '
               'patterns', 'teleport ids in [0, 2^31)']


def used_ids(version):
    from minecraft.networking.packets.clientbound import play
    c = P4.ctx_for(version)
    return {p.get_id(c) for p in play.get_packets(c)}


def unknown_pool(version):
    used = used_ids(version)
    pool = [i for i in list(range(0x60, 0x80)) + [0x80, 0xFF, 0x100, 0x3FFF,
                                                   0x4000, 2 ** 21]
            if i not in used]
    return pool


def supported():
    import minecraft
    out = []
    for r in minecraft.KNOWN_MINECRAFT_VERSION_RECORDS:
        if r.supported and r.protocol not in out:
            out.append(r.protocol)
    return out


def chat_values(version, text):
    lay = dict(servers.packet_info(version, 'chat')[1])
    v = {'json_data': text, 'position': 0}
    if 'sender' in lay:
        v['sender'] = '12345678-1234-5678-1234-567812345678'
    return v


def to_item(version, h):
    k = h[0]
    if k == 'ka':
        return ('keep_alive', {'keep_alive_id': h[1]})
    if k == 'pos':
        x, y, z, yaw, pitch, flags, tid, dis = h[1:]
        v = {'x': x, 'y': y, 'z': z, 'yaw': yaw, 'pitch': pitch,
             'flags': flags}
        lay = dict(servers.packet_info(version, 'pos_look')[1])
        if 'teleport_id' in lay:
            v['teleport_id'] = tid
        if 'dismount_vehicle' in lay:
            v['dismount_vehicle'] = dis
        return ('pos_look', v)
    if k == 'unknown':
        return ('raw', h[1], h[2])
    if k == 'time':
        return ('time_update', {'world_age': h[1], 'time_of_day': h[2]})
    if k == 'chat':
        return ('chat', chat_values(version, h[1]))
    if k == 'health':
        return ('update_health', {'health': h[1], 'food': h[2],
                                  'food_saturation': h[3]})
    raise ValueError(h)


def expected_replies(version, history):
    tp = P4.rank(version) >= P4.rank(107)
    out = []
    for h in history:
        if h[0] == 'ka':
            out.append(('keep_alive', h[1]))
        elif h[0] == 'pos':
            x, y, z, yaw, pitch, flags, tid, dis = h[1:]
            if tp:
                out.append(('teleport', tid))
            else:
                out.append(('pos_look', {'x': x, 'feet_y': y, 'z': z,
                                         'yaw': yaw, 'pitch': pitch,
                                         'on_ground': True}))
    return out


def _feq(a, b):
    if isinstance(a, float) and isinstance(b, float):
        return a == b and math.copysign(1, a) == math.copysign(1, b)
    return a == b


def history_case(ctx, case):
    """case {version, compress, history, delivery, burst, end, plan}"""
    version = case['version']
    history = [tuple(h) for h in case['history']]
    ctx.ev()
    items = [to_item(version, h) for h in history]
    delivery = case.get('delivery', 'all')
    bs = max(1, case.get('burst', 7))
    if delivery == 'all':
        bursts = [items]
        mode = 'all'
    else:
        bursts = [items[i:i + bs] for i in range(0, len(items), bs)]
        mode = 'reactive' if delivery == 'reactive' else 'all'
    end = case.get('end', 'disconnect')
    login = []
    if case.get('compress') is not None:
        login.append(('compress', case['compress']))
    login.append(('success',))
    srv = servers.Server({'version': version, 'login': login,
                          'play': {'bursts': bursts, 'mode': mode,
                                   'end': end,
                                   'end_msg': case.get('end_msg',
                                                       '{"text":"bye"}')}})
    plan = case.get('plan', 'whole')
    if isinstance(plan, tuple):
        plan = list(plan)
    scripts = [srv]
    allowed = {version}
    if case.get('negotiate'):
        # reach play the ordinary way: several allowed versions, so a status
        # query comes first and the status thread hands over to the login
        import json as _json
        allowed = {version, 47 if version != 47 else 340}
        scripts.insert(0, servers.Server({
            'version': version, 'status': {'reply': _json.dumps(
                {'version': {'name': 'x', 'protocol': version},
                 'description': 'x'})}}))
        ctx.label('negotiated_entry')
    world = vnet.World(servers=scripts, plan=plan)
    seen = []
    if case.get('clock'):
        # no bound on the time between two packets of a history: the
        # harness-owned clocks leap an hour at every reading
        ctx.label('history_clock_' + case['clock'])
    with vnet.installed(world), vnet.wall_clock(case.get('clock')):
        conn, o = servers.make_connection(world, allowed_versions=allowed)
        from minecraft.networking.packets import Packet

        def early(p):
            d = None
            if type(p) is not Packet:
                d = {a: getattr(p, a) for a in (
                    'keep_alive_id', 'teleport_id', 'x', 'y', 'z', 'yaw',
                    'pitch', 'flags', 'world_age', 'time_of_day',
                    'json_data', 'health', 'food') if hasattr(p, a)}
            seen.append((type(p) is Packet, p.id, d))
        conn.register_packet_listener(early, Packet, early=True)
        try:
            conn.connect()
        except Exception as e:
            ctx.fail('history', 'K-connect-raised', case, exc=e)
            return
        state = world.settle()
        spawned = getattr(conn, 'spawned', None)
    if state == 'timeout':
        from vlib.core import HarnessError
        raise HarnessError('C11 case did not settle')
    if state == 'runaway':
        ctx.fail('history', 'K4-endless-reconnect-loop', case,
                 'more than %d TCP connections in one scenario'
                 % world.max_connects)
        return
    if state == 'blocked':
        ctx.fail('history', 'K-client-blocks-in-read', case,
                 'the client waits for ever for bytes the server never '
                 'announced')
        return
    if state == 'idle':
        ctx.fail('history', 'K4-thread-never-terminates', case)
        return
    if srv.errors:
        ctx.fail('history', 'K1-malformed-client-frames', case, srv.errors)
        return
    want = expected_replies(version, history)
    got = list(srv.replies)
    excs = [e for e, i in o.exceptions]
    if end == 'disconnect':
        if not _replies_equal(got, want):
            i = next((k for k, (a, b) in enumerate(zip(got, want))
                      if not _replies_equal([a], [b])),
                     min(len(got), len(want)))
            ctx.fail('history', 'K1K2-replies', case,
                     'got %d replies, first difference at %d: %r' % (
                         len(got), i, got[i:i + 2]),
                     '%d replies: %r' % (len(want), want[i:i + 2]))
        if srv.other_play_frames:
            ctx.fail('history', 'K1K2-unexpected-client-frames', case,
                     [(i, len(p)) for i, p in srv.other_play_frames[:4]])
        if excs:
            ctx.fail('history', 'K4-error-on-clean-disconnect', case,
                     repr(excs[0]), 'no error')
        if o.exits != 1:
            ctx.fail('history', 'K4-exit-callback', case, o.exits, 1)
        link = world.links[-1]
        if world.open_handles():
            ctx.fail('history', 'K4-descriptor-left-open', case,
                     world.open_handles(), 'socket and file object closed')
        if not link.closed_by_client():
            ctx.fail('history', 'K4-link-left-open', case)
        else:
            # closed after the last reply frame was sent
            last_send = max((s for s, k, i in link.events if k == 'send'),
                            default=0)
            first_close = min((s for s, k, i in link.events
                               if k in ('shutdown', 'close')), default=0)
            if first_close < last_send:
                ctx.fail('history', 'K4-send-after-close', case)
    else:
        # end of stream: replies must be an in-order prefix
        if not _replies_equal(got, want[:len(got)]):
            ctx.fail('history', 'K1K2-replies-prefix', case, got[:3],
                     want[:3])
        if not excs:
            ctx.fail('history', 'K4-eof-not-reported', case)
    if any(h[0] == 'pos' for h in history) and end == 'disconnect' and \
            spawned is not True:
        ctx.fail('history', 'K2-spawned', case, spawned, True)
    # K3: early listener saw every packet once, in order
    ls = servers.packet_info(version, 'login_success')[0]
    play_seen = seen
    # drop login-phase packets (set compression, login success)
    k = next((i for i, s in enumerate(seen) if s[1] == ls and not s[0]), None)
    if k is None:
        ctx.fail('history', 'K3-login-success-not-seen', case)
        return
    play_seen = seen[k + 1:]
    want_seen = []
    for h, it in zip(history, items):
        if it[0] == 'raw':
            want_seen.append((True, it[1], None))
        else:
            want_seen.append((False, servers.packet_info(version, it[0])[0],
                              it[1]))
    if end == 'disconnect':
        want_seen.append((False, servers.packet_info(version,
                                                     'disconnect')[0], None))
    ok = len(play_seen) == len(want_seen)
    if ok:
        for g, w in zip(play_seen, want_seen):
            if g[0] != w[0] or g[1] != w[1]:
                ok = False
                break
            if w[2] is not None and not w[0]:
                for a, v in w[2].items():
                    if a in g[2] and not _feq(g[2][a], v):
                        ok = False
    if not ok:
        ctx.fail('history', 'K3-listener-sequence', case,
                 [(g[0], g[1]) for g in play_seen][:8] +
                 ['... %d' % len(play_seen)],
                 [(w[0], w[1]) for w in want_seen][:8] +
                 ['... %d' % len(want_seen)])
    kinds = {h[0] for h in history if h[0] in ('ka', 'pos')}
    nrep = sum(1 for h in history if h[0] in ('ka', 'pos'))
    unk_between = any(
        history[i][0] == 'unknown' and
        any(h[0] in ('ka', 'pos') for h in history[:i]) and
        any(h[0] in ('ka', 'pos') for h in history[i + 1:])
        for i in range(len(history)))
    if (nrep >= 3 and len(kinds) >= 2 and unk_between) or len(history) >= 51:
        ctx.nt(repr(case))
    ctx.label('len_%s' % ('le50' if len(history) <= 50 else
                          'le300' if len(history) <= 300 else 'gt300'))
    ctx.label('delivery_' + delivery, 'end_' + end,
              'compress_%s' % case.get('compress'))


def _replies_equal(got, want):
    if len(got) != len(want):
        return False
    for g, w in zip(got, want):
        if g[0] != w[0]:
            return False
        if g[0] == 'pos_look':
            if set(g[1]) != set(w[1]) or not all(_feq(g[1][k], w[1][k])
                                                 for k in w[1]):
                return False
        elif g[1] != w[1]:
            return False
    return True


def real_history_case(ctx, case):
    if ctx.labels.get('real_socket_run_inconclusive_timeout', 0) >= 2:
        return          # stop burning wall-clock on a hanging client
    """The same history over real loopback TCP (validation of the
    in-memory transport): K1/K2/K4 only, end = disconnect."""
    from vlib import realnet
    from vlib.core import HarnessError
    version = case['version']
    history = [tuple(h) for h in case['history']]
    ctx.ev()
    items = [to_item(version, h) for h in history]
    login = []
    if case.get('compress') is not None:
        login.append(('compress', case['compress']))
    login.append(('success',))
    srvs = []

    def factory(addr):
        s = servers.Server({'version': version, 'login': login,
                            'play': {'bursts': [items], 'mode': 'all',
                                     'end': 'disconnect'}})
        srvs.append(s)
        return s
    world = realnet.RealWorld(factory)
    try:
        excs, exits = [], []
        from minecraft.networking.connection import Connection
        conn = Connection('127.0.0.1', world.port, username='tester',
                          allowed_versions={version},
                          handle_exception=lambda e, i: excs.append(e),
                          handle_exit=lambda: exits.append(1))
        conn.connect()
        if world.settle(conn, 8.0) != 'done':
            # inconclusive (slow machine or a hang): the in-memory tasks
            # decide; only counted
            ctx.label('real_socket_run_inconclusive_timeout')
            return
    finally:
        world.close()
    srv = srvs[0]
    want = expected_replies(version, history)
    if srv.errors:
        ctx.fail('real_history', 'K1-malformed-client-frames', case,
                 srv.errors)
    elif not _replies_equal(list(srv.replies), want):
        ctx.fail('real_history', 'K1K2-replies', case, srv.replies[:3],
                 want[:3])
    if excs:
        ctx.fail('real_history', 'K4-error-on-clean-disconnect', case,
                 repr(excs[0]))
    elif exits != [1]:
        ctx.fail('real_history', 'K4-exit-callback', case, exits, [1])
    ctx.label('traces_validated_against_real_sockets')
    if len(history) >= 3:
        ctx.nt('real', repr(case))


def listener_disconnect_case(ctx, case):
    """'Answered exactly once' also when the user's code re-enters the write
    path: an ordinary outgoing listener calls disconnect() right after the
    d-th keep-alive reply went out (disconnect() flushes the replies that
    are still queued).  All keep-alives arrive in one burst, i.e. one read
    batch, so every one of them has its reply queued by then.
    case {version, compress, ids: [...], d}"""
    from minecraft.networking.packets import serverbound as sb
    version, ids = case['version'], list(case['ids'])
    d = case['d'] % len(ids)
    ctx.ev()
    login = [('compress', case['compress'])] \
        if case.get('compress') is not None else []
    srv = servers.Server({
        'version': version, 'login': login + [('success',)],
        'play': {'bursts': [[('keep_alive', {'keep_alive_id': i})
                             for i in ids]], 'mode': 'all',
                 'end': 'silent'}})
    world = vnet.World(servers=[srv])
    seen = []
    with vnet.installed(world):
        conn, o = servers.make_connection(world, allowed_versions={version})

        def after_write(p):
            seen.append(p.keep_alive_id)
            if len(seen) == d + 1:
                conn.disconnect()
        conn.register_packet_listener(after_write, sb.play.KeepAlivePacket,
                                      outgoing=True)
        try:
            conn.connect()
        except Exception as e:
            ctx.fail('listener_disconnect', 'K-connect-raised', case, exc=e)
            return
        state = world.settle()
    if state == 'timeout':
        from vlib.core import HarnessError
        raise HarnessError('C11 listener_disconnect case did not settle')
    if state != 'done':
        ctx.fail('listener_disconnect', 'K-client-%s' % state, case)
        return
    if srv.errors:
        ctx.fail('listener_disconnect', 'K1-malformed-client-frames', case,
                 srv.errors[:2])
        return
    want = [('keep_alive', i) for i in ids]
    if srv.replies != want:
        ctx.fail('listener_disconnect', 'K1K2-replies', case, srv.replies,
                 want)
        return
    if o.exceptions:
        ctx.fail('listener_disconnect', 'K4-error-reported', case,
                 repr(o.exceptions[0][0]))
        return
    if not world.links[0].closed_by_client():
        ctx.fail('listener_disconnect', 'K4-link-left-open', case)
        return
    if len(ids) >= 2 and d < len(ids) - 1:
        ctx.nt('listener_disconnect', repr(case))
    ctx.label('listener_disconnect')


def write_error_case(ctx, case):
    """'A server disconnect packet closes the connection, runs the exit
    callback exactly once and reports no error' - also when the server was
    already gone while the client still had a reply to write: the write
    fails (connection reset / broken pipe / other OS error), the disconnect
    packet is read right after.  case {version, compress, error}"""
    import errno
    version = case['version']
    ctx.ev()
    login = [('compress', case['compress'])] \
        if case.get('compress') is not None else []
    srv = servers.Server({
        'version': version, 'login': login + [('success',)],
        'play': {'bursts': [[('keep_alive', {'keep_alive_id': 5})]],
                 'mode': 'all', 'end': 'silent'}})
    world = vnet.World(servers=[srv])
    err = {'reset': ConnectionResetError(errno.ECONNRESET,
                                         'Connection reset by peer'),
           'pipe': BrokenPipeError(errno.EPIPE, 'Broken pipe'),
           'aborted': ConnectionAbortedError(errno.ECONNABORTED,
                                             'Software caused connection '
                                             'abort'),
           'oserror': OSError(errno.ENETDOWN, 'Network is down')}[
               case['error']]
    armed = []

    def gone():
        # the peer said goodbye and vanished before this write
        srv.send_frame(*servers.encode(version, 'disconnect',
                                       json_data='{"text":"bye"}'))
        srv.close()
        world.links[0].send_error = err
        if case['error'] in ('reset', 'aborted'):
            # after an RST the endpoint is not connected any more: the
            # client's own shutdown() fails too
            world.links[0].peer_reset = True
    with vnet.installed(world):
        conn, o = servers.make_connection(world, allowed_versions={version})

        def arm(p):
            if not armed:
                armed.append(1)
                world.links[0].before_send = gone
        from minecraft.networking.packets import clientbound as cb
        conn.register_packet_listener(arm, cb.play.KeepAlivePacket)
        try:
            conn.connect()
        except Exception as e:
            ctx.fail('write_error', 'K-connect-raised', case, exc=e)
            return
        state = world.settle()
    if state == 'timeout':
        from vlib.core import HarnessError
        raise HarnessError('C11 write_error case did not settle')
    if state != 'done':
        ctx.fail('write_error', 'K4-thread-never-terminates', case, state)
        return
    if world.links[0].before_send is not None or not armed:
        from vlib.core import HarnessError
        raise HarnessError('C11 write_error: the failing write never '
                           'happened')
    if o.exceptions:
        ctx.fail('write_error', 'K4-error-on-clean-disconnect', case,
                 repr(o.exceptions[0][0]), 'no error')
        return
    if o.exits != 1:
        ctx.fail('write_error', 'K4-exit-callback', case, o.exits, 1)
        return
    if not world.links[0].closed_by_client():
        ctx.fail('write_error', 'K4-link-left-open', case)
        return
    if world.open_handles():
        ctx.fail('write_error', 'K4-descriptor-left-open', case,
                 world.open_handles(), 'socket and file object closed')
        return
    ctx.nt('write_error', repr(case))
    ctx.label('write_error_then_disconnect')


def repeat_case(ctx, case):
    """The same Connection object used for several play sessions in a row
    (connect, server disconnects, connect again ...): in EVERY session each
    keep-alive is answered exactly once and each teleport confirmed once.
    case {version, compress, sessions: [[ids..], ..]}"""
    version = case['version']
    ctx.ev()
    login = [('compress', case['compress'])] \
        if case.get('compress') is not None else []
    srvs = []
    for k, ids in enumerate(case['sessions']):
        burst = [('keep_alive', {'keep_alive_id': i}) for i in ids]
        srvs.append(servers.Server({
            'version': version, 'login': login + [('success',)],
            'play': {'bursts': [burst], 'mode': 'reactive',
                     'end': 'disconnect'}}))
    world = vnet.World(servers=list(srvs))
    with vnet.installed(world):
        conn, o = servers.make_connection(world, allowed_versions={version})
        for k in range(len(srvs)):
            try:
                conn.connect()
            except Exception as e:
                ctx.fail('repeat', 'K-connect-raised', dict(case, session=k),
                         exc=e)
                return
            state = world.settle()
            if state == 'timeout':
                from vlib.core import HarnessError
                raise HarnessError('C11 repeat case did not settle')
            if state != 'done':
                ctx.fail('repeat', 'K4-thread-never-terminates',
                         dict(case, session=k), state)
                world.kill_all()
                return
    for k, (sv, ids) in enumerate(zip(srvs, case['sessions'])):
        if sv.errors:
            ctx.fail('repeat', 'K1-malformed-client-frames',
                     dict(case, session=k), sv.errors[:2])
            return
        want = [('keep_alive', i) for i in ids]
        if sv.replies != want or sv.other_play_frames:
            ctx.fail('repeat', 'K1K2-replies', dict(case, session=k),
                     (sv.replies[:6], len(sv.other_play_frames)),
                     (want[:6], 0))
            return
    if o.exceptions:
        ctx.fail('repeat', 'K4-error-on-clean-disconnect', case,
                 repr(o.exceptions[0][0]))
        return
    if o.exits != len(srvs):
        ctx.fail('repeat', 'K4-exit-callback', case, o.exits, len(srvs))
        return
    ctx.nt('repeat', repr(case))
    ctx.label('repeat_sessions_%d' % len(srvs))


def two_connections_case(ctx, case):
    """Two Connection objects in play at the same time in one process: each
    answers exactly the keep-alives sent to IT, on its own socket, in its
    own protocol version; a disconnect packet ends only the connection it
    was sent to.  case {va, vb, ca, cb, ids_a, ids_b, first: 'a'|'b'}"""
    import time
    ctx.ev()
    spec = {}
    for k in 'ab':
        comp = case.get('c' + k)
        spec[k] = servers.Server({
            'version': case['v' + k],
            'login': ([('compress', comp)] if comp is not None else []) +
            [('success',)], 'play': {'bursts': [], 'end': 'silent'}})
    world = vnet.World(servers=[spec['a'], spec['b']])
    world.block_guard = 5.0
    conns, obs = {}, {}

    def wait_play(k):
        for _ in range(5000):
            if spec[k].play_started:
                break
            time.sleep(0.001)
        return world.wait_idle(spec[k].link, conns[k])

    def idle_both():
        return all(world.wait_idle(spec[k].link, conns[k]) for k in 'ab')
    with vnet.installed(world):
        try:
            for k in 'ab':
                conns[k], obs[k] = servers.make_connection(
                    world, allowed_versions={case['v' + k]})
                conns[k].connect()
                if not wait_play(k):
                    from vlib.core import HarnessError
                    raise HarnessError('C11 two_connections: login did not '
                                       'settle')
            order = 'ab' if case.get('first', 'a') == 'a' else 'ba'
            for k in order:
                for i in case['ids_' + k]:
                    spec[k].send_item(('keep_alive', {'keep_alive_id': i}))
                idle_both()
            snap = {k: (list(spec[k].replies),
                        list(spec[k].other_play_frames)) for k in 'ab'}
            # a disconnect packet for the first one only
            k1, k2 = order
            spec[k1].send_frame(*servers.encode(case['v' + k1], 'disconnect',
                                                json_data='{"text":"bye"}'))
            spec[k1].close()
            for _ in range(3000):
                if not conns[k1].connected and \
                        conns[k1].networking_thread is None:
                    break
                time.sleep(0.001)
            world.wait_idle(spec[k2].link, conns[k2])
            mid = {k: (conns[k].connected, obs[k].exits,
                       spec[k].link.closed_by_client()) for k in 'ab'}
            spec[k2].send_frame(*servers.encode(case['v' + k2], 'disconnect',
                                                json_data='{"text":"bye"}'))
            spec[k2].close()
            state = world.settle(timeout=20.0)
        except Exception as e:
            if type(e).__name__ == 'HarnessError':
                raise
            ctx.fail('two_connections', 'K-raised', case, exc=e)
            world.kill_all()
            return
    for k in 'ab':
        want = [('keep_alive', i) for i in case['ids_' + k]]
        if snap[k][0] != want or snap[k][1] or spec[k].errors:
            ctx.fail('two_connections', 'K1K2-replies', dict(case, side=k),
                     (snap[k][0][:6], len(snap[k][1]), spec[k].errors[:2]),
                     (want[:6], 0, []))
            return
    if mid[k1] != (False, 1, True) or mid[k2] != (True, 0, False):
        ctx.fail('two_connections', 'K4-disconnect-reached-the-other',
                 case, {k1: mid[k1], k2: mid[k2]},
                 {k1: (False, 1, True), k2: (True, 0, False)})
        return
    if state != 'done' or obs[k2].exits != 1 or obs['a'].exceptions or \
            obs['b'].exceptions:
        ctx.fail('two_connections', 'K4-ending', case,
                 (state, obs[k2].exits, repr(obs['a'].exceptions[:1]),
                  repr(obs['b'].exceptions[:1])), ('done', 1, '[]', '[]'))
        return
    ctx.nt('two', repr(case))
    ctx.label('two_connections')


def flood_case(ctx, case):
    """A listener answers one keep-alive by queueing n chat packets (a map
    upload, a bulk command ...) - more than any everyday backlog.  The
    keep-alive reply, queued by the built-in reaction just before, is still
    sent (K1), and every one of the n packets reaches the server once, in
    order (C01: no packet is lost).  case {version, compress, n, who:
    'listener'|'user'}"""
    import time
    from minecraft.networking.packets import clientbound as cb, \
        serverbound as sb
    version, n = case['version'], case['n']
    ctx.ev()
    login = [('compress', case['compress'])] \
        if case.get('compress') is not None else []
    main = servers.Server({
        'version': version, 'login': login + [('success',)],
        'play': {'bursts': [[('keep_alive', {'keep_alive_id': 4242})]],
                 'mode': 'all', 'end': 'silent'}})
    world = vnet.World(servers=[main])
    done = []
    with vnet.installed(world):
        conn, o = servers.make_connection(world, allowed_versions={version})

        def burst(_p=None):
            if not done:
                done.append(1)
                for i in range(n):
                    conn.write_packet(sb.play.ChatPacket(message='m%d' % i))
        if case.get('who', 'listener') == 'listener':
            conn.register_packet_listener(burst, cb.play.KeepAlivePacket)
        try:
            conn.connect()
            for _ in range(5000):
                if main.play_started and main.link is not None and \
                        main.replies:
                    break
                time.sleep(0.001)
            if case.get('who') == 'user':
                burst()
            ok = main.link is not None and world.wait_idle(
                main.link, conn, timeout=120.0)
            excs = [repr(e[0]) for e in o.exceptions]
            conn.disconnect()
            state = world.settle(timeout=60.0)
        except Exception as e:
            ctx.fail('flood', 'K-raised', case, exc=e)
            world.kill_all()
            return
    if not ok or state != 'done':
        ctx.fail('flood', 'K4-thread-never-terminates', case, (ok, state))
        world.kill_all()
        return
    if main.errors or excs:
        ctx.fail('flood', 'K1-malformed-client-frames', case,
                 (main.errors[:2], excs[:2]))
        return
    if main.replies != [('keep_alive', 4242)]:
        ctx.fail('flood', 'K1K2-replies', case, main.replies[:4],
                 [('keep_alive', 4242)])
        return
    chat_id = servers.packet_info(version, 'sb_chat')[0]
    want_pl = servers.encode(version, 'sb_chat', message='m0')[1]
    got = main.other_play_frames
    bad = None
    if len(got) != n:
        bad = '%d packets arrived' % len(got)
    else:
        from vlib import wire
        for i, (pid, pl) in enumerate(got):
            if pid != chat_id or pl != wire.string('m%d' % i):
                bad = 'packet %d is %r' % (i, (pid, pl[:12]))
                break
    if bad:
        first = got[0][1][:12] if got else None
        ctx.fail('flood', 'K3-queued-packets-lost-or-reordered', case,
                 '%s; first %r' % (bad, first), '%d packets m0..' % n)
        return
    ctx.nt('flood', repr(case))
    ctx.label('flood')


def route_case(ctx, case):
    """'A server disconnect packet closes the connection, runs the exit
    callback exactly once and reports no error' - also for a play session
    that an exception handler started after the previous one failed (the
    documented auto-reconnect pattern): C14's routing scenarios with
    reconnecting handlers, which count the exit callback per session."""
    from props import c14_exceptions as P14
    P14.route_case(ctx, case)


COMPONENTS = {'route': route_case, 'flood': flood_case,
              'two_connections': two_connections_case,
              'repeat': repeat_case, 'write_error': write_error_case,
              'history': history_case, 'real_history': real_history_case,
              'listener_disconnect': listener_disconnect_case}


# --------------------------------------------------------------- strategies

# every shape a chat component / kick reason can take on the wire
END_MSGS = ['{"text":"bye"}', '{"translate":"disconnect.kicked"}',
            '"Kicked by an operator"', '[{"text":"a"},"b"]', 'not json',
            '', '{"text":"é世","extra":[{"text":"x"}]}', 'null', '42',
            '{}', '[]', '{"text":5}', '{"text":null}',
            # the reason is opaque to the library: nesting deeper than any
            # parser's recursion limit, unbalanced, or plain long
            '[' * 4000 + ']' * 4000, '[' * 60000,
            '{"text":' * 3000 + '""' + '}' * 3000,
            '{"text":"' + 'k' * 70000 + '"}']


def item_strategy(version):
    long_ka = servers.keep_alive_is_long(version)
    if long_ka:
        ka = st.one_of(
            st.sampled_from([0, 1, 127, 128, 2 ** 14 - 1, 2 ** 14, 2 ** 21,
                             2 ** 28, 2 ** 31 - 1, 2 ** 31, 2 ** 32,
                             2 ** 63 - 1, -1, -2 ** 63, -2 ** 31]),
            st.integers(-2 ** 63, 2 ** 63 - 1))
    else:
        ka = st.one_of(
            st.sampled_from([0, 1, 127, 128, 2 ** 14 - 1, 2 ** 14,
                             2 ** 21 - 1, 2 ** 21, 2 ** 28 - 1, 2 ** 28,
                             2 ** 31 - 1, 2 ** 31, 2 ** 32 - 1]),
            st.integers(0, 2 ** 32 - 1))
    f32 = st.integers(0, 2 ** 32 - 1).map(
        lambda w: wire.float_bits_to_value(w, 32)).filter(
            lambda x: x == x and abs(x) != float('inf'))
    dbl = st.floats(allow_nan=False, allow_infinity=False)
    tid = st.sampled_from([0, 1, 127, 128, 16383, 16384, 2 ** 21 - 1,
                           2 ** 21, 2 ** 28, 2 ** 31 - 1])
    pool = unknown_pool(version)
    return st.one_of(
        st.tuples(st.just('ka'), ka),
        st.tuples(st.just('ka'), ka),
        st.tuples(st.just('pos'), dbl, dbl, dbl, f32, f32,
                  st.integers(-128, 127), tid, st.booleans()),
        st.tuples(st.just('unknown'), st.sampled_from(pool),
                  st.one_of(st.binary(max_size=30),
                            st.binary(min_size=100, max_size=600),
                            # frame bodies of exactly threshold-1 / threshold
                            # / threshold+1 bytes (ids take 1-2 bytes): a
                            # vanilla server compresses from len >= threshold
                            st.integers(60, 66).map(lambda n: b'\x55' * n),
                            st.integers(252, 258).map(lambda n: b'\xaa' * n))),
        st.tuples(st.just('time'), st.integers(-2 ** 63, 2 ** 63 - 1),
                  st.integers(-2 ** 63, 2 ** 63 - 1)),
        st.tuples(st.just('chat'), st.sampled_from(
            ['{"text":"hi"}', '{"text":"é世"}', '"plain"'])),
        st.tuples(st.just('health'), f32, st.integers(0, 20), f32))


def case_strategy(versions, maxlen):
    def for_version(v):
        return st.fixed_dictionaries({
            'version': st.just(v),
            'compress': st.sampled_from([None, None, 0, 64, 256]),
            'history': st.one_of(
                st.lists(item_strategy(v), min_size=1, max_size=30),
                st.lists(item_strategy(v), min_size=45, max_size=maxlen)),
            'delivery': st.sampled_from(['all', 'bursts', 'reactive']),
            'clock': st.sampled_from([None, None, 'leaps', 'steps_back']),
            'burst': st.integers(1, 60),
            'end': st.sampled_from(['disconnect', 'disconnect',
                                    'disconnect', 'eof']),
            'end_msg': st.sampled_from(END_MSGS),
            'negotiate': st.sampled_from([False, False, True]),
            'plan': st.one_of(st.just('whole'), st.just('one'),
                              st.lists(st.integers(1, 300), min_size=1,
                                       max_size=6))})
    return st.sampled_from(versions).flatmap(for_version)


def t_versions(ctx, versions):
    """a fixed boundary history at every given version"""
    for v in versions:
        long_ka = servers.keep_alive_is_long(v)
        pool = unknown_pool(v)
        kas = [0, 127, 128, 2 ** 31 - 1] + \
            ([2 ** 63 - 1, -1, -2 ** 63] if long_ka else [2 ** 32 - 1])
        hist = []
        for i, k in enumerate(kas):
            hist.append(('ka', k))
            hist.append(('unknown', pool[i % len(pool)], bytes(range(i * 9))))
            hist.append(('pos', 1.5, -64.0, 1e10, 90.0, -45.5,
                         [0, 31, -1, 8][i % 4], [0, 128, 2 ** 31 - 1][i % 3],
                         bool(i % 2)))
            hist.append(('time', i, -i))
        for n in (61, 62, 63, 64, 65, 253, 254, 255, 256, 257):
            hist.append(('unknown', pool[n % len(pool)], b'\x77' * n))
            hist.append(('ka', n))
        k = 0
        for comp in (None, 0, 64, 256):
            for delivery in ('all', 'reactive'):
                case = {'version': v, 'compress': comp, 'history': hist,
                        'delivery': delivery, 'burst': 5,
                        'negotiate': bool(k % 2),
                        'clock': [None, 'leaps', None, 'steps_back'][k % 4],
                        'end': 'disconnect', 'plan': 'whole',
                        'end_msg': END_MSGS[(k + v) % len(END_MSGS)]}
                k += 1
                history_case(ctx, case)
        for m in END_MSGS:
            history_case(ctx, {'version': v, 'compress': None,
                               'history': hist[:2], 'delivery': 'all',
                               'end': 'disconnect', 'plan': 'whole',
                               'end_msg': m})
        # long history crossing the 50/300 batch limits
        long_hist = [('ka', i) if i % 3 else
                     ('unknown', pool[0], b'x' * (i % 40))
                     for i in range(330)]
        history_case(ctx, {'version': v, 'compress': 64,
                           'history': long_hist, 'delivery': 'all',
                           'end': 'disconnect', 'plan': 'whole'})
    if versions:
        ctx.sample({'version': versions[0], 'history': hist[:6]}, 'fixed')
    ctx.exhaustive_done('boundary history x 4 compression modes x 2 '
                        'deliveries + a 330-packet history at each listed '
                        'version')


def t_random(ctx, versions, n, maxlen):
    def body(c, case):
        history_case(c, case)
        if c.evaluations % 60 == 1:
            c.sample(dict(case, history=case['history'][:5] +
                          ['... %d items' % len(case['history'])]),
                     'random')
    hyp(ctx, 'random', case_strategy(versions, maxlen), body, n)


def t_real(ctx, versions, n):
    def body(c, case):
        case = dict(case, end='disconnect', delivery='all')
        real_history_case(c, case)
    hyp(ctx, 'real', case_strategy(versions, 60), body, n)
    ctx.sample({'note': 'same scripts and oracles over 127.0.0.1 TCP'},
               'real')


def t_two_connections(ctx, n):
    k = 0
    for va, vb in ((340, 340), (47, 47), (47, 340), (757, 47), (757, 757)):
        for first in 'ab':
            k += 1
            two_connections_case(ctx, {
                'va': va, 'vb': vb, 'ca': [None, 64][k % 2],
                'cb': [0, None][k % 2], 'ids_a': [1, 2, 3],
                'ids_b': [2 ** 31 - 1, 5], 'first': first})
    strat = st.fixed_dictionaries({
        'va': st.sampled_from([47, 340, 498, 757]),
        'vb': st.sampled_from([47, 340, 498, 757]),
        'ca': st.sampled_from([None, 0, 64]),
        'cb': st.sampled_from([None, 0, 64]),
        'ids_a': st.lists(st.integers(0, 2 ** 31 - 1), max_size=5),
        'ids_b': st.lists(st.integers(0, 2 ** 31 - 1), max_size=5),
        'first': st.sampled_from('ab')})
    hyp(ctx, 'two_connections', strat,
        lambda c, case: two_connections_case(c, case), n)


def t_repeat(ctx, versions, n):
    k = 0
    for v in versions:
        k += 1
        repeat_case(ctx, {'version': v, 'compress': [None, 0, 64][k % 3],
                          'sessions': [[1, 2], [3], [4, 5, 6]]})
    strat = st.fixed_dictionaries({
        'version': st.sampled_from(versions),
        'compress': st.sampled_from([None, 0, 64]),
        'sessions': st.lists(st.lists(st.integers(0, 2 ** 31 - 1),
                                      min_size=1, max_size=6),
                             min_size=2, max_size=5)})
    hyp(ctx, 'repeat', strat, lambda c, case: repeat_case(c, case), n)


def t_write_error(ctx, versions):
    k = 0
    for v in versions:
        for e in ('reset', 'pipe', 'aborted', 'oserror'):
            k += 1
            write_error_case(ctx, {'version': v, 'error': e,
                                   'compress': [None, 0, 64][k % 3]})
    ctx.exhaustive_done('write fails with 4 OS errors, then the disconnect '
                        'packet is read: every release')


def t_listener_disconnect(ctx, versions, n):
    for v in versions:
        for d in range(3):
            listener_disconnect_case(ctx, {
                'version': v, 'compress': [None, 0, 64][d],
                'ids': [11, 0, 2 ** 31 - 1], 'd': d})
    strat = st.fixed_dictionaries({
        'version': st.sampled_from(versions),
        'compress': st.sampled_from([None, 0, 64]),
        'ids': st.lists(st.integers(0, 2 ** 31 - 1), min_size=1,
                        max_size=40),
        'd': st.integers(0, 39)})
    hyp(ctx, 'listener_disconnect', strat,
        lambda c, case: listener_disconnect_case(c, case), n)


def t_reconnected_sessions(ctx):
    from props import c14_exceptions as P14
    for origin in ('listener', 'early_listener', 'login_listener',
                   'decoder', 'reaction_login_disconnect'):
        for do in ('reconnect', 'reconnect_direct'):
            for v in (757, 340, 47):
                for final in ('return', 'none'):
                    route_case(ctx, P14.fix_case({
                        'origin': origin, 'exc': 'B',
                        'chain': [{'filter': [], 'early': False, 'do': do}],
                        'final': final, 'final_new': 'C', 'compress': None,
                        'version': v}))
    ctx.exhaustive_done('sessions started by an exception handler and ended '
                        'by a server disconnect: 5 fault origins x 2 '
                        'reconnect forms x 3 protocols x 2 finals')


def t_flood(ctx, version, compress, n, who):
    case = {'version': version, 'compress': compress, 'n': n, 'who': who}
    flood_case(ctx, case)
    ctx.sample(case, 'flood')


def tasks(tier):
    q = tier == 'quick'
    from vlib import refproto
    sup = supported()
    rel = list(refproto.RELEASES)
    others = [v for v in sup if v not in rel]
    if q:
        step = max(1, len(others) // 20)
        vs = rel + others[::step][:20]
    else:
        vs = sup
    tl = []
    nsh = 8 if q else 16
    for i in range(nsh):
        part = vs[i::nsh]
        tl.append(('versions_%d' % i, t_versions, dict(versions=part)))
    for i in range(1 if q else 4):
        tl.append(('real_%d' % i, t_real,
                   dict(versions=rel, n=12 if q else 150)))
    for k, (v, comp, who) in enumerate(
            [(757, None, 'listener'), (47, 64, 'user')] if q else
            [(757, None, 'listener'), (47, 64, 'user'),
             (340, 0, 'listener'), (578, None, 'user')]):
        tl.append(('flood_%d' % k, t_flood,
                   dict(version=v, compress=comp,
                        n=70000 if q else 300000, who=who)))
    tl.append(('reconnected_sessions', t_reconnected_sessions, {}))
    tl.append(('write_error', t_write_error, dict(versions=rel)))
    tl.append(('two_connections', t_two_connections,
               dict(n=15 if q else 400)))
    tl.append(('repeat', t_repeat, dict(versions=rel[::2] if q else rel,
                                        n=40 if q else 1000)))
    tl.append(('listener_disconnect', t_listener_disconnect,
               dict(versions=rel[::3] if q else rel, n=60 if q else 1500)))
    for i in range(8 if q else 16):
        tl.append(('random_%d' % i, t_random,
                   dict(versions=vs, n=150 if q else 1500,
                        maxlen=120 if q else 400)))
    return tl
