"""C03 - VarInt/VarLong decoding is bounded; encoding terminates and is
canonical.  Differential against vlib.wire; exhaustive small domains."""
import itertools

from hypothesis import strategies as st

from vlib import wire
from vlib.budget import (run_with_line_budget, BudgetExceeded,
                         CountingStream, Sink)
from vlib.runner import hyp

PROPERTY = 'C03'
LEVEL = 'exploration'
RULE = ('Overlapping calls: every line of every VarInt/VarLong send / read '
        '/ size call on 8 boundary values as a suspension point at which '
        'another such call runs to completion (harness-owned preemption); '
        'each call must produce what it produces alone. '
        'decode: every byte string up to 2 (quick) / 3 (thorough) bytes, '
        'every continuation-bit shape up to 13 bytes x uniform payload bits '
        '{00,01,7F}, Hypothesis byte strings biased to continuation bytes, '
        'each followed by random trailing bytes; oracle = reference lenient '
        'decoder with limit max_bytes+1, exact consumption, total bytes '
        'requested <= max_bytes+1, EOFError on truncation. encode: every n '
        'below 2^16 (quick) / 2^21 (thorough), 2^k-1,2^k,2^k+1 for k<=77, '
        'random in [0,2^32) and [0,2^64), negatives; oracle = canonical '
        'base-128 bytes, read-back, size(), termination within a 2000 '
        'line-event budget. Non-trivial: decode cases with >=1 continuation '
        'byte or an error outcome, encode cases with n>=128 or n<0; distinct '
        'by (type, bytes) / (type, n).')
RULE += (' ' +
         'Added in later rounds: decoding through io.BufferedReader over a '
         'raw stream delivering 1-3 bytes per read; calls through the '
         'context-aware entry points on class and instance; a peer stalled '
         'in send() while another thread encodes; the encoder calls repeated '
         'in child interpreters started with no flag, -O and -OO (component '
         'interpreter_mode). Round 15: decode / encode calls run with '
         'warnings escalated to errors. Round 16: component recycled - '
         'decoding canonical(n) on a stream object whose earlier decode '
         'ended in a timeout, end of stream or an over-long encoding after '
         '0..max continuation bytes. ')
LEVEL_TEXT = ('Differential testing of VarInt/VarLong read/send/size against an '
              'independent reference codec: complete enumeration of all byte '
              'strings up to 2/3 bytes, all continuation shapes up to 13 '
              'bytes, all n < 2^16/2^21 and all powers of two +-1 up to 2^77, '
              'plus seeded random strings and integers. Exhaustive on the '
              'named sub-domains, sampled beyond; never a proof.')
LEVEL_NOTE = ('Trusted: vlib/wire.py reference codec (self-tested), CPython. '
              'Termination is a deterministic 2000-line-event budget under '
              'sys.settrace, not wall-clock.')
TECHNIQUE = ('property-based differential testing (Hypothesis) + exhaustive '
             'enumeration of small domains against a reference codec')
ASSUMPTIONS = [
    'reference codec vlib/wire.py is correct (self-tested against known '
    'vectors)',
    'termination is judged by a deterministic line-event budget, not time',
]

LINE_BUDGET = 2000


_USER_TYPES = {}


class _Types(dict):
    """'VarInt', 'VarLong', and 'User:<base>:<k>': a user's own type declared
    the way the library declares VarLong - a subclass whose only member is
    `max_bytes = k` (a 3-byte frame-length type, a 2-byte id type).  Its
    nominal maximum is k, so the same decoding contract applies with k in
    place of 5 / 10."""
    def __missing__(self, name):
        kind, base, k = name.split(':')
        if name not in _USER_TYPES:
            _USER_TYPES[name] = type('User%s%s' % (base, k), (self[base][0],),
                                     {'max_bytes': int(k)})
        return (_USER_TYPES[name], int(k), 2 ** (7 * int(k)))


def _types():
    from minecraft.networking.types import VarInt, VarLong
    return _Types({'VarInt': (VarInt, 5, 2 ** 32),
                   'VarLong': (VarLong, 10, 2 ** 64)})


def _buffered(data, chunk, bufsize):
    import io

    class Raw(io.RawIOBase):
        def __init__(self):
            self.pos = 0

        def readable(self):
            return True

        def readinto(self, b):
            k = min(len(b), max(1, chunk), len(data) - self.pos)
            b[:k] = data[self.pos:self.pos + k]
            self.pos += k
            return k

        def tell(self):
            return self.pos

    class Buffered(io.BufferedReader):
        requested = 0

        @property
        def pos(self):
            return self.tell()
    return Buffered(Raw(), buffer_size=max(1, bufsize))


def _ctx():
    from minecraft.networking.connection import ConnectionContext
    return ConnectionContext(protocol_version=757)


def decode_case(ctx, case):
    tname, data = case['type'], case['data']
    T, maxb, _ = _types()[tname]
    ctx.ev()
    ref = wire.classify_varint(data, maxb + 1)
    s = CountingStream(data)
    if case.get('stream'):
        # "any byte stream": a buffered reader (has peek(), readinto(), ...)
        # over a raw stream that hands the bytes out in small segments, as
        # socket.makefile('rb') over a slow peer does
        s = _buffered(data, *case['stream'])
    # 'via': the entry point packets use - read_with_context on the class or
    # on an instance (None: plain read); the same contract holds for each
    via = case.get('via')
    if via == 'ctx_class':
        rd = lambda: T.read_with_context(s, _ctx())     # noqa: E731
    elif via == 'ctx_instance':
        rd = lambda: T().read_with_context(s, _ctx())   # noqa: E731
    else:
        rd = lambda: T.read(s)                          # noqa: E731
    import warnings
    try:
        # the process may run with warnings escalated to errors (python -W
        # error, pytest filterwarnings=error): decoding well-formed input
        # returns its value there too
        with warnings.catch_warnings():
            warnings.simplefilter('error')
            got = run_with_line_budget(rd, LINE_BUDGET) \
                if case.get('traced') else rd()
        out = ('value', got, s.pos)
        exc = None
    except BudgetExceeded:
        ctx.fail('decode', 'R2-terminates', case, 'line budget exceeded',
                 'terminates')
        return
    except Exception as e:
        out = ('raise', type(e).__name__)
        exc = e
    cont = sum(1 for b in data[:maxb + 1] if b & 0x80)
    if cont or ref[0] != 'value':
        ctx.nt(tname, data)
    ctx.label('decode_' + ref[0])
    if not case.get('stream') and s.requested > maxb + 1:
        ctx.fail('decode', 'R2-bounded-read', case,
                 'requested %d bytes' % s.requested,
                 '<= %d' % (maxb + 1), exc=exc)
    if ref[0] == 'value':
        if out[0] != 'value':
            ctx.fail('decode', 'R1-value', case, out, ref, exc=exc)
        else:
            v = out[1]
            if type(v) is not int or v < 0 or v != ref[1]:
                ctx.fail('decode', 'R1-value', case, out, ref)
            elif out[2] != ref[2]:
                ctx.fail('decode', 'R2-consumption', case, out, ref)
    elif ref[0] == 'eof':
        if out != ('raise', 'EOFError'):
            ctx.fail('decode', 'R3-eof', case, out, 'EOFError', exc=exc)
    else:
        if out[0] != 'raise':
            ctx.fail('decode', 'R1-overlong', case, out, 'raises')


def encode_case(ctx, case):
    tname, n = case['type'], case['n']
    T, maxb, rng = _types()[tname]
    ctx.ev()
    if n >= 128 or n < 0:
        ctx.nt(tname, n)
    sink = Sink()
    via = case.get('via')
    if via == 'ctx_class':
        wr = lambda: T.send_with_context(n, sink, _ctx())       # noqa: E731
    elif via == 'ctx_instance':
        wr = lambda: T().send_with_context(n, sink, _ctx())     # noqa: E731
    else:
        wr = lambda: T.send(n, sink)                            # noqa: E731
    import warnings
    try:
        with warnings.catch_warnings():
            warnings.simplefilter('error')
            run_with_line_budget(wr, LINE_BUDGET)
        raised = None
    except BudgetExceeded:
        ctx.label('encode_budget_exceeded')
        ctx.fail('encode', 'S2-terminates', case,
                 'no return within %d line events' % LINE_BUDGET,
                 'returns or raises')
        return
    except Exception as e:
        raised = e
    if n < 0:
        ctx.label('encode_negative')
        return                      # terminated: that is all that is claimed
    if not 0 <= n < rng:
        ctx.label('encode_out_of_range')
        return
    ctx.label('encode_in_range')
    if raised is not None:
        ctx.fail('encode', 'S1-canonical', case, None, 'no exception',
                 exc=raised)
        return
    want = wire.varint(n)
    if sink.value != want:
        ctx.fail('encode', 'S1-canonical', case, sink.value.hex(),
                 want.hex())
        return
    s = CountingStream(sink.value + b'\xAA')
    try:
        back = T.read(s)
    except Exception as e:
        ctx.fail('encode', 'S1-readback', case, None, n, exc=e)
        return
    if back != n or s.pos != len(want):
        ctx.fail('encode', 'S1-readback', case, (back, s.pos),
                 (n, len(want)))
    try:
        sz = T.size(n)
    except Exception as e:
        ctx.fail('encode', 'S1-size', case, None, len(want), exc=e)
        return
    if sz != len(want):
        ctx.fail('encode', 'S1-size', case, sz, len(want))


_CHILD = r"""
import json, sys
sys.dont_write_bytecode = True
sys.path.insert(0, sys.argv[1]); sys.path.insert(0, sys.argv[2])
from vlib.budget import run_with_line_budget, BudgetExceeded, Sink
from minecraft.networking.types import VarInt, VarLong
T = {'VarInt': VarInt, 'VarLong': VarLong}
out = []
for tname, n in json.loads(sys.argv[3]):
    sink = Sink()
    try:
        run_with_line_budget(lambda: T[tname].send(n, sink), int(sys.argv[4]))
        out.append(['ok', sink.value.hex()])
    except BudgetExceeded:
        out.append(['budget', None])
    except Exception as e:
        out.append(['raise', type(e).__name__])
print(json.dumps({'debug': __debug__, 'out': out}))
"""


def interpreter_mode_case(ctx, case):
    """The encoder's guarantees do not depend on how the interpreter was
    started: the same calls in a child interpreter run with `flags` (-O drops
    assert statements and sets __debug__ False).  case {flags [..],
    values [[type, n]]}"""
    import json
    import os
    import subprocess
    import sys
    from vlib import core
    here = os.path.dirname(os.path.dirname(os.path.abspath(__file__)))
    cmd = [sys.executable] + list(case['flags']) + [
        '-c', _CHILD, here, core.REPO, json.dumps(case['values']),
        str(LINE_BUDGET)]
    try:
        r = subprocess.run(cmd, stdout=subprocess.PIPE,
                           stderr=subprocess.PIPE, timeout=120)
        res = json.loads(r.stdout.decode())
    except Exception as e:
        raise core.HarnessError('C03 child interpreter failed: %r' % (e,))
    if ('-O' in case['flags'] or '-OO' in case['flags']) and res['debug']:
        raise core.HarnessError('child interpreter not optimised')
    ctx.label('interpreter_mode_%s' % ''.join(case['flags']).strip('-'))
    for (tname, n), (kind, val) in zip(case['values'], res['out']):
        ctx.ev()
        sub = {'flags': case['flags'], 'values': [[tname, n]]}
        if kind == 'budget':
            ctx.fail('interpreter_mode', 'S2-terminates', sub,
                     'no return within %d line events' % LINE_BUDGET,
                     'returns or raises')
            continue
        if n < 0:
            ctx.nt(tname, n, tuple(case['flags']))
            continue
        if 0 <= n < _types()[tname][2]:
            want = wire.varint(n).hex()
            if kind != 'ok' or val != want:
                ctx.fail('interpreter_mode', 'S1-canonical', sub,
                         [kind, val], want)


def fuzz_decode_case(ctx, case):
    """raw fuzzer input: first byte selects the type, rest is the stream"""
    b = case['input']
    decode_case(ctx, {'type': 'VarLong' if b[0] & 1 else 'VarInt',
                      'data': bytes(b[1:])})


def interleaved_case(ctx, case):
    """Two codec calls whose executions overlap (as two threads encoding or
    decoding on different sockets do): call A is suspended at its k-th line
    and call B runs to completion in between.  Each must still produce
    exactly what it produces alone.  case {a: [op, type, n], b: [op, type,
    n], k} with op in 'send'|'read'|'size'."""
    from vlib.budget import run_interleaved

    def make(spec):
        op, tn, n = spec
        T = _types()[tn][0]
        want = wire.varint(n)
        if op == 'send':
            sink = Sink()
            return (lambda: T.send(n, sink)), (lambda r: sink.value), want
        if op == 'read':
            st_ = CountingStream(want + b'\xAA')
            return (lambda: T.read(st_)), (lambda r: r), n
        return (lambda: T.size(n)), (lambda r: r), len(want)
    ctx.ev()
    fa, ga, wa = make(case['a'])
    fb, gb, wb = make(case['b'])
    try:
        ra, rb, ran = run_interleaved(fa, fb, case['k'])
    except Exception as e:
        ctx.fail('interleaved', 'S1-overlapping-calls-raise', case, exc=e)
        return
    if not ran:
        ctx.label('interleave_point_beyond_call')
        return
    if ga(ra) != wa or gb(rb) != wb:
        ctx.fail('interleaved', 'S1-overlapping-calls', case,
                 (repr(ga(ra)), repr(gb(rb))), (repr(wa), repr(wb)))
        return
    ctx.nt('il', repr(case))


def stalled_peer_case(ctx, case):
    """'Encoding any integer terminates' - also while ANOTHER stream's write
    is stalled (its peer does not read): one thread sits in send() on a
    stream that blocks, a second thread encodes into its own buffer and must
    return.  case {type, n, other_type, m}"""
    import threading
    T = _types()[case['type']][0]
    U = _types()[case['other_type']][0]
    ctx.ev()
    release = threading.Event()
    entered = threading.Event()

    class Stalled(object):
        def __init__(self):
            self.data = b''

        def send(self, b):
            entered.set()
            release.wait(20)
            self.data += bytes(b)
    stalled = Stalled()
    first = {}

    def a():
        try:
            U.send(case['m'], stalled)
        except Exception as e:
            first['exc'] = e
            entered.set()
    ta = threading.Thread(target=a, daemon=True)
    ta.start()
    if not entered.wait(5) or 'exc' in first:
        release.set()
        if 'exc' in first:
            ctx.fail('stalled_peer', 'S1-encode-raises', case,
                     exc=first['exc'])
            return
        from vlib.core import HarnessError
        raise HarnessError('C03 stalled_peer: the stalled writer never '
                           'reached send()')
    sink = Sink()
    res = {}

    def b():
        try:
            T.send(case['n'], sink)
            res['ok'] = True
        except Exception as e:
            res['exc'] = e
    tb = threading.Thread(target=b, daemon=True)
    tb.start()
    tb.join(5)
    blocked = tb.is_alive()
    release.set()
    ta.join(5)
    tb.join(5)
    if blocked:
        ctx.fail('stalled_peer', 'S2-terminates', case,
                 'encoding into a private buffer did not return within 5 s '
                 'while another stream was stalled in send()', 'returns')
        return
    if 'exc' in res or sink.value != wire.varint(case['n']) or \
            stalled.data != wire.varint(case['m']):
        ctx.fail('stalled_peer', 'S1-canonical', case,
                 (sink.value.hex(), stalled.data.hex()),
                 (wire.varint(case['n']).hex(), wire.varint(case['m']).hex()))
        return
    ctx.nt('stalled', repr(case))


def recycled_stream_case(ctx, case):
    """'for every n ... decoding it returns n' - on a stream OBJECT that has
    been used before: an earlier decode on the same object ended early (the
    stream's read raised a timeout after some continuation bytes, or ran
    dry, or the encoding was over-long); the caller gives up on that message
    and refills the same object with canonical(n) + trailer.  The decode
    depends on the bytes read now, not on what the object went through.
    case {type, stale: hex, ending: 'TimeoutError'|'BlockingIOError'|
          'socket.timeout'|'eof'|'too_long', first_type, n}"""
    import socket as _socket
    T = _types()[case['type']][0]
    F = _types()[case.get('first_type', case['type'])][0]
    ctx.ev()
    EXC = {'TimeoutError': TimeoutError, 'BlockingIOError': BlockingIOError,
           'socket.timeout': _socket.timeout}

    class Reader(object):
        def __init__(self):
            self.data, self.pos, self.ending = b'', 0, 'eof'

        def fill(self, data, ending='eof'):
            self.data, self.pos, self.ending = data, 0, ending

        def read(self, n=None):
            if self.pos >= len(self.data) and self.ending in EXC:
                raise EXC[self.ending]('timed out')
            n = len(self.data) - self.pos if n is None else n
            out = self.data[self.pos:self.pos + n]
            self.pos += len(out)
            return out

        recv = read
    r = Reader()
    stale = bytes.fromhex(case['stale'])
    r.fill(stale, case['ending'])
    first = None
    try:
        first = F.read(r)
    except Exception as e:
        first = type(e).__name__
    want_first = {'eof': 'EOFError', 'too_long': 'ValueError'}.get(
        case['ending'], EXC.get(case['ending'], Exception).__name__)
    if case['ending'] == 'socket.timeout':
        want_first = _socket.timeout.__name__
    if first != want_first:
        ctx.fail('recycled', 'D4-first-decode-ending', case, repr(first),
                 want_first)
        return
    enc = wire.varint(case['n'])
    r.fill(enc + b'\x7f\x80')
    try:
        got = T.read(r)
    except Exception as e:
        ctx.fail('recycled', 'D5-decode-depends-on-stream-object-history',
                 case, exc=e)
        return
    if got != case['n'] or type(got) is not int or r.pos != len(enc):
        ctx.fail('recycled', 'D5-decode-depends-on-stream-object-history',
                 case, (repr(got), r.pos), (case['n'], len(enc)))
        return
    ctx.nt('recycled', '%s:%s:%d:%d' % (case['type'], case['ending'],
                                        len(stale), len(enc)))
    ctx.label('recycled_after_' + case['ending'])


COMPONENTS = {'decode': decode_case, 'encode': encode_case,
              'recycled': recycled_stream_case,
              'fuzz_decode': fuzz_decode_case,
              'interleaved': interleaved_case,
              'stalled_peer': stalled_peer_case,
              'interpreter_mode': interpreter_mode_case}


# ------------------------------------------------------------------- tasks

def t_decode_exhaustive(ctx, length, lo, hi):
    for tname in ('VarInt', 'VarLong'):
        for first in range(lo, hi):
            if length == 0:
                decode_case(ctx, {'type': tname, 'data': b''})
                continue
            for rest in itertools.product(range(256), repeat=length - 1):
                decode_case(ctx, {'type': tname,
                                  'data': bytes((first,) + rest)})
    ctx.sample({'type': 'VarInt', 'data': bytes([lo] * max(length, 1))},
               'decode')
    ctx.exhaustive_done('decode: all byte strings of length %d' % length)


def t_decode_shapes(ctx, lo, hi):
    # every continuation-bit shape up to 13 bytes x uniform payload
    for tname in ('VarInt', 'VarLong'):
        for length in range(lo, hi):
            for shape in range(1 << length):
                for pay in (0x00, 0x01, 0x7F):
                    data = bytes((0x80 if shape >> i & 1 else 0) | pay
                                 for i in range(length))
                    decode_case(ctx, {'type': tname, 'data': data})
                    if pay == 0x7F:
                        decode_case(ctx, {'type': tname, 'data': data +
                                          b'\x05',
                                          'stream': [1 + shape % 3,
                                                     1 + shape % 7]})
                    if pay == 0x01:
                        # the entry points packets use
                        decode_case(ctx, {'type': tname, 'data': data,
                                          'via': ['ctx_class', 'ctx_instance']
                                          [shape & 1]})
                    # same followed by junk: must not matter
                    decode_case(ctx, {'type': tname,
                                      'data': data + b'\xff\x00\x81',
                                      'traced': shape == (1 << length) - 1})
    ctx.sample({'type': 'VarLong', 'data': b'\x80' * 10 + b'\x01'}, 'decode')
    ctx.exhaustive_done('decode: continuation shapes of length %d..%d x '
                        'payload {00,01,7f}' % (lo, hi - 1))


_byte = st.one_of(st.integers(0x80, 0xFF), st.integers(0, 0xFF),
                  st.sampled_from([0x80, 0xFF, 0x7F, 0x00, 0x01]))


def t_decode_user_types(ctx):
    """user subclasses with max_bytes = 1..12 on either base: every
    continuation shape up to k + 3 bytes with boundary payloads, and every
    string of up to 2 bytes"""
    for base in ('VarInt', 'VarLong'):
        for k in range(1, 13):
            tname = 'User:%s:%d' % (base, k)
            for L in range(1, k + 4):
                for term in (True, False):
                    for pay in (0x00, 0x01, 0x7F, 0x55):
                        data = bytes([0x80 | pay] * (L - 1) +
                                     [pay if term else 0x80 | pay])
                        for via in (None, 'ctx_class', 'ctx_instance'):
                            decode_case(ctx, {'type': tname, 'data': data,
                                              'traced': via is None,
                                              'via': via})
                        decode_case(ctx, {'type': tname, 'data': data,
                                          'stream': (1 + L % 3, 8)})
            for a in range(0, 256, 5):
                decode_case(ctx, {'type': tname, 'data': bytes([a])})
                for b in (0, 1, 0x7F, 0x80, 0xFF):
                    decode_case(ctx, {'type': tname, 'data': bytes([a, b])})
    ctx.label('decode_user_subclass_max_bytes')
    ctx.sample({'type': 'User:VarInt:3', 'data': b'\x80\x80\x80\x80\x01'},
               'decode')
    ctx.exhaustive_done('user subclasses max_bytes 1..12 of both bases x '
                        'continuation shapes up to k+3 bytes')


def t_decode_random(ctx, n):
    strat = st.tuples(st.sampled_from(['VarInt', 'VarLong']),
                      st.lists(_byte, max_size=40).map(bytes))

    def body(c, x):
        case = {'type': x[0], 'data': x[1]}
        if len(x[1]) % 4 == 1:
            case['stream'] = [1 + len(x[1]) % 3, 1 + (x[1][0] % 5)]
        if len(x[1]) % 3 == 0:
            case['via'] = ['ctx_class', 'ctx_instance'][len(x[1]) % 2]
        decode_case(c, case)
        if c.evaluations % 500 == 1:
            c.sample(case, 'decode')
    hyp(ctx, 'decode_random', strat, body, n)


def t_encode_range(ctx, lo, hi, step=1):
    for tname in ('VarInt', 'VarLong'):
        for n in range(lo, hi, step):
            encode_case(ctx, {'type': tname, 'n': n})
    if step == 1:
        ctx.exhaustive_done('encode: every n in [%d, %d)' % (lo, hi))
    ctx.sample({'type': 'VarInt', 'n': hi - 1}, 'encode')


def t_encode_boundaries(ctx):
    for tname in ('VarInt', 'VarLong'):
        for k in range(0, 78):
            for n in (2 ** k - 1, 2 ** k, 2 ** k + 1):
                encode_case(ctx, {'type': tname, 'n': n})
                encode_case(ctx, {'type': tname, 'n': n,
                                  'via': ['ctx_class', 'ctx_instance'][k & 1]})
            for n in (-(2 ** k), -(2 ** k) - 1, -(2 ** k) + 1):
                if n < 0:
                    encode_case(ctx, {'type': tname, 'n': n})
    ctx.sample({'type': 'VarLong', 'n': 2 ** 63 + 1}, 'encode')
    ctx.sample({'type': 'VarInt', 'n': -1}, 'encode')
    ctx.exhaustive_done('encode: 2^k-1, 2^k, 2^k+1 and negatives for k<=77')


def t_encode_random(ctx, n):
    strat = st.tuples(
        st.sampled_from(['VarInt', 'VarLong']),
        st.one_of(st.integers(0, 2 ** 32 - 1), st.integers(0, 2 ** 64 - 1),
                  st.integers(-2 ** 70, -1), st.integers(0, 2 ** 21)))

    def body(c, x):
        case = {'type': x[0], 'n': x[1]}
        if x[1] % 3 == 0:
            case['via'] = ['ctx_class', 'ctx_instance'][x[1] % 2]
        encode_case(c, case)
        if c.evaluations % 500 == 1:
            c.sample(case, 'encode')
    hyp(ctx, 'encode_random', strat, body, n)


def t_fuzz(ctx, runs):
    from vlib import fuzzrun
    fuzzrun.campaign(ctx, 'varint', 'fuzz_decode', runs, seeds=[
        b'\x00\x7f', b'\x01\xff\xff\xff\xff\x0f',
        b'\x00\x80\x80\x80\x80\x80\x80', b'\x01' + b'\xff' * 11])


def t_stalled_peer(ctx):
    for t, n in (('VarInt', 300), ('VarLong', 2 ** 40), ('VarInt', 0)):
        for u, m in (('VarInt', 5), ('VarLong', 2 ** 63)):
            stalled_peer_case(ctx, {'type': t, 'n': n, 'other_type': u,
                                    'm': m})
    ctx.exhaustive_done('encoding next to a stalled writer: 3 x 2 type/value '
                        'pairs')


def t_recycled(ctx):
    vals = {'VarInt': [0, 1, 127, 128, 300, 16384, 2 ** 31 - 1, 2 ** 31,
                       2 ** 32 - 1],
            'VarLong': [0, 300, 2 ** 32, 2 ** 63 - 1, 2 ** 63, 2 ** 64 - 1]}
    n_ = 0
    for t in ('VarInt', 'VarLong'):
        mx = 5 if t == 'VarInt' else 10
        for ft in ('VarInt', 'VarLong'):
            fmx = 5 if ft == 'VarInt' else 10
            for ending in ('TimeoutError', 'BlockingIOError',
                           'socket.timeout', 'eof', 'too_long'):
                if ending == 'too_long':
                    stales = [b'\xff' * (fmx + 1), b'\x80' * (fmx + 3)]
                else:
                    stales = [bytes([0x80 | (7 * i + 1) & 0x7f
                                     for i in range(k)])
                              for k in range(0, fmx + 1)]
                for st_ in stales:
                    for n in vals[t]:
                        n_ += 1
                        recycled_stream_case(ctx, {
                            'type': t, 'first_type': ft,
                            'stale': st_.hex(), 'ending': ending, 'n': n})
    ctx.exhaustive_done('%d (earlier ending x consumed continuation bytes x '
                        'next value) pairs on one recycled stream object'
                        % n_)


def t_interleaved(ctx):
    vals = [0, 1, 127, 128, 300, 16383, 16384, 2 ** 31 - 1]
    specs = [(op, tn, n) for op in ('send', 'read', 'size')
             for tn in ('VarInt', 'VarLong') for n in vals]
    k_ = 0
    for a in specs:
        for b in specs[(k_ % 5)::5]:
            k_ += 1
            for k in range(1, 40):
                before = ctx.labels.get('interleave_point_beyond_call', 0)
                interleaved_case(ctx, {'a': list(a), 'b': list(b), 'k': k})
                if ctx.labels.get('interleave_point_beyond_call', 0) > before:
                    break
    ctx.sample({'a': ['send', 'VarInt', 300], 'b': ['send', 'VarLong', 5],
                'k': 4}, 'interleaved')
    ctx.exhaustive_done('every line of every VarInt/VarLong send/read/size '
                        'call on 8 boundary values as the suspension point, '
                        'against a rotating fifth of the same calls')


def t_interpreter_modes(ctx):
    vals = [[t, n] for t in ('VarInt', 'VarLong')
            for n in (-1, -2, -128, -2 ** 31, -2 ** 63, -2 ** 70, 0, 1, 127,
                      128, 300, 2 ** 31 - 1, 2 ** 32 - 1)]
    for flags in ([], ['-O'], ['-OO']):
        interpreter_mode_case(ctx, {'flags': flags, 'values': vals})
    ctx.sample({'flags': ['-O'], 'values': vals[:4]}, 'interpreter_mode')


def tasks(tier):
    q = tier == 'quick'
    tl = [('interleaved', t_interleaved, {}),
          ('stalled_peer', t_stalled_peer, {}),
          ('recycled', t_recycled, {}),
          ('interpreter_modes', t_interpreter_modes, {})]
    if not q:
        tl.append(('fuzz_empty_corpus', t_fuzz, dict(runs=1500000)))
    maxlen = 2 if q else 3
    for length in range(0, maxlen + 1):
        if length == 0:
            tl.append(('dec_len0', t_decode_exhaustive,
                       dict(length=0, lo=0, hi=1)))
            continue
        nsh = 1 if length < 2 else (4 if length == 2 else 32)
        for i in range(nsh):
            tl.append(('dec_len%d_%d' % (length, i), t_decode_exhaustive,
                       dict(length=length, lo=256 * i // nsh,
                            hi=256 * (i + 1) // nsh)))
    tl.append(('dec_shapes_0_11', t_decode_shapes, dict(lo=0, hi=12)))
    tl.append(('dec_shapes_12', t_decode_shapes, dict(lo=12, hi=13)))
    tl.append(('dec_shapes_13', t_decode_shapes, dict(lo=13, hi=14)))
    tl.append(('dec_user_types', t_decode_user_types, {}))
    for i in range(2 if q else 8):
        tl.append(('dec_random_%d' % i, t_decode_random,
                   dict(n=3000 if q else 40000)))
    top = 2 ** 16 if q else 2 ** 21
    nsh = 8 if q else 32
    for i in range(nsh):
        tl.append(('enc_range_%d' % i, t_encode_range,
                   dict(lo=top * i // nsh, hi=top * (i + 1) // nsh)))
    if q:
        tl.append(('enc_stride', t_encode_range,
                   dict(lo=2 ** 16, hi=2 ** 21, step=257)))
    tl.append(('enc_boundaries', t_encode_boundaries, {}))
    for i in range(2 if q else 8):
        tl.append(('enc_random_%d' % i, t_encode_random,
                   dict(n=2000 if q else 30000)))
    return tl
