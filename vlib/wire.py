"""Independent reference codec for the Minecraft wire protocol.

Written from the protocol description only: int.to_bytes/from_bytes, integer
arithmetic, fractions.Fraction and zlib.  No pyCraft code, no struct (struct
is used only by selftest() to cross-check the arithmetic float codec).
"""
import zlib
from fractions import Fraction


class WireError(Exception):
    pass


class EOF(WireError):
    pass


class Overlong(WireError):
    pass


# -------------------------------------------------------------------- varint

def varint(n):
    """Canonical little-endian base-128 encoding of n >= 0."""
    if n < 0:
        raise ValueError('negative')
    out = bytearray()
    while True:
        b = n % 128
        n //= 128
        if n:
            out.append(b + 128)
        else:
            out.append(b)
            return bytes(out)


def varint_len(n):
    k = 1
    while n >= 128:
        n //= 128
        k += 1
    return k


def read_varint(data, pos=0, limit=6):
    """Lenient decoder: accepts up to `limit` bytes (nominal max + 1).

    Returns (value, newpos).  Raises EOF if the data ends before a
    terminating byte (one without the top bit), Overlong if `limit` bytes all
    carry the continuation bit."""
    value = 0
    for i in range(limit):
        if pos + i >= len(data):
            raise EOF('varint truncated after %d bytes' % i)
        b = data[pos + i]
        value += (b % 128) * (128 ** i)
        if b < 128:
            return value, pos + i + 1
    raise Overlong('more than %d bytes' % limit)


def classify_varint(data, limit):
    """('value', v, consumed) | ('eof',) | ('overlong',) for a whole string"""
    try:
        v, p = read_varint(data, 0, limit)
        return ('value', v, p)
    except EOF:
        return ('eof',)
    except Overlong:
        return ('overlong',)


# ----------------------------------------------------------------- integers

def sint(n, bits):
    if not -(1 << (bits - 1)) <= n < (1 << (bits - 1)):
        raise ValueError('out of range')
    return (n % (1 << bits)).to_bytes(bits // 8, 'big')


def uint(n, bits):
    if not 0 <= n < (1 << bits):
        raise ValueError('out of range')
    return n.to_bytes(bits // 8, 'big')


def read_sint(data, pos, bits):
    k = bits // 8
    if pos + k > len(data):
        raise EOF('int truncated')
    v = int.from_bytes(data[pos:pos + k], 'big')
    if v >= 1 << (bits - 1):
        v -= 1 << bits
    return v, pos + k


def read_uint(data, pos, bits):
    k = bits // 8
    if pos + k > len(data):
        raise EOF('int truncated')
    return int.from_bytes(data[pos:pos + k], 'big'), pos + k


def boolean(b):
    return b'\x01' if b else b'\x00'


# ------------------------------------------------------------------- floats
# IEEE-754 binary32/binary64 implemented arithmetically.

def _float_params(bits):
    return (8, 23) if bits == 32 else (11, 52)


def float_bits_to_value(word, bits):
    """Decode an IEEE word into a Python float (exact), inf or nan."""
    eb, fb = _float_params(bits)
    sign = word >> (bits - 1)
    expo = (word >> fb) & ((1 << eb) - 1)
    frac = word & ((1 << fb) - 1)
    bias = (1 << (eb - 1)) - 1
    if expo == (1 << eb) - 1:
        if frac:
            return float('nan')
        return float('-inf') if sign else float('inf')
    if expo == 0:
        q = Fraction(frac, 1 << fb) * Fraction(2) ** (1 - bias)
    else:
        q = (1 + Fraction(frac, 1 << fb)) * Fraction(2) ** (expo - bias)
    v = float(q)          # exact: q is representable in binary64
    if sign:
        v = -v
    return v


def float_value_to_bits(v, bits):
    """Encode a Python float into an IEEE word with round-half-even.
    NaN -> canonical quiet NaN.  Overflow -> inf (struct raises instead for
    binary32; callers only pass representable values)."""
    import math
    eb, fb = _float_params(bits)
    bias = (1 << (eb - 1)) - 1
    if v != v:
        return ((1 << eb) - 1) << fb | 1 << (fb - 1)
    sign = 1 if math.copysign(1.0, v) < 0 else 0
    top = sign << (bits - 1)
    if v in (float('inf'), float('-inf')):
        return top | ((1 << eb) - 1) << fb
    q = abs(Fraction(v))
    if q == 0:
        return top
    # find exponent e with 2^e <= q < 2^(e+1)
    e = q.numerator.bit_length() - q.denominator.bit_length()
    if Fraction(2) ** e > q:
        e -= 1
    if Fraction(2) ** (e + 1) <= q:
        e += 1
    emin = 1 - bias
    if e < emin:
        e_eff = emin
        scaled = q / Fraction(2) ** emin * (1 << fb)      # subnormal
        base = 0
    else:
        e_eff = e
        scaled = (q / Fraction(2) ** e - 1) * (1 << fb)
        base = (e - emin + 1) << fb
    n = scaled.numerator // scaled.denominator
    rem = scaled - n
    if rem > Fraction(1, 2) or (rem == Fraction(1, 2) and n % 2 == 1):
        n += 1
    word = base + n            # carries propagate into the exponent correctly
    if word >= ((1 << eb) - 1) << fb:
        word = ((1 << eb) - 1) << fb
    return top | word


def f32(v):
    return float_value_to_bits(v, 32).to_bytes(4, 'big')


def f64(v):
    return float_value_to_bits(v, 64).to_bytes(8, 'big')


def read_f32(data, pos):
    w, p = read_uint(data, pos, 32)
    return float_bits_to_value(w, 32), p


def read_f64(data, pos):
    w, p = read_uint(data, pos, 64)
    return float_bits_to_value(w, 64), p


# -------------------------------------------------------------------- utf-8

def utf8(s):
    out = bytearray()
    for ch in s:
        c = ord(ch)
        if c < 0x80:
            out.append(c)
        elif c < 0x800:
            out += bytes([0xC0 | c >> 6, 0x80 | c & 0x3F])
        elif c < 0x10000:
            if 0xD800 <= c <= 0xDFFF:
                raise ValueError('surrogate')
            out += bytes([0xE0 | c >> 12, 0x80 | (c >> 6) & 0x3F,
                          0x80 | c & 0x3F])
        else:
            out += bytes([0xF0 | c >> 18, 0x80 | (c >> 12) & 0x3F,
                          0x80 | (c >> 6) & 0x3F, 0x80 | c & 0x3F])
    return bytes(out)


def utf8_decode(b):
    out = []
    i = 0
    n = len(b)
    while i < n:
        c = b[i]
        if c < 0x80:
            k, v, lo = 0, c, 0
        elif 0xC2 <= c < 0xE0:
            k, v, lo = 1, c & 0x1F, 0x80
        elif 0xE0 <= c < 0xF0:
            k, v, lo = 2, c & 0x0F, 0x800
        elif 0xF0 <= c < 0xF5:
            k, v, lo = 3, c & 0x07, 0x10000
        else:
            raise WireError('bad utf-8 lead byte')
        for j in range(1, k + 1):
            if i + j >= n:
                raise WireError('truncated utf-8 sequence')
            cc = b[i + j]
            if cc & 0xC0 != 0x80:
                raise WireError('bad continuation')
            v = v << 6 | cc & 0x3F
        if v < lo or v > 0x10FFFF or 0xD800 <= v <= 0xDFFF:
            raise WireError('overlong/invalid code point')
        out.append(chr(v))
        i += k + 1
    return ''.join(out)


def string(s):
    b = utf8(s)
    return varint(len(b)) + b


def read_string(data, pos):
    n, p = read_varint(data, pos)
    if p + n > len(data):
        raise EOF('string truncated')
    return utf8_decode(data[p:p + n]), p + n


def varint_bytes(b):
    return varint(len(b)) + bytes(b)


def read_varint_bytes(data, pos):
    n, p = read_varint(data, pos)
    if p + n > len(data):
        raise EOF('bytes truncated')
    return bytes(data[p:p + n]), p + n


def short_bytes(b):
    return sint(len(b), 16) + bytes(b)


def uuid_bytes(text):
    """canonical 8-4-4-4-12 text (any case, dashes optional) -> 16 bytes"""
    h = text.replace('-', '')
    if len(h) != 32:
        raise ValueError('bad uuid')
    return bytes.fromhex(h)


def uuid_text(b):
    h = bytes(b).hex()
    return '-'.join((h[:8], h[8:12], h[12:16], h[16:20], h[20:]))


# ------------------------------------------------------- angle / fixed point

def angle_bytes_allowed(v):
    """Set of acceptable bytes for angle v (degrees): round(v/360*256) mod
    256, either neighbour on an exact tie."""
    q = Fraction(v) / 360 * 256
    fl = q.numerator // q.denominator
    rem = q - fl
    if rem < Fraction(1, 2):
        c = {fl}
    elif rem > Fraction(1, 2):
        c = {fl + 1}
    else:
        c = {fl, fl + 1}
    return {x % 256 for x in c}


def angle_value(b):
    return Fraction(360 * b, 256)


def fixed_point_int(v, frac_bits):
    """trunc(v * 2^n) toward zero (Java (int) cast)."""
    q = Fraction(v) * (1 << frac_bits)
    n = abs(q.numerator) // q.denominator
    return -n if q < 0 else n


# ---------------------------------------------------------------- positions

def _tc(v, bits):
    return v % (1 << bits)


def _sx(v, bits):
    return v - (1 << bits) if v >= 1 << (bits - 1) else v


def position_word(x, y, z, new_layout):
    if new_layout:   # x(26) z(26) y(12)
        return _tc(x, 26) << 38 | _tc(z, 26) << 12 | _tc(y, 12)
    return _tc(x, 26) << 38 | _tc(y, 12) << 26 | _tc(z, 26)


def position_from_word(w, new_layout):
    x = _sx(w >> 38, 26)
    if new_layout:
        z = _sx((w >> 12) % (1 << 26), 26)
        y = _sx(w % (1 << 12), 12)
    else:
        y = _sx((w >> 26) % (1 << 12), 12)
        z = _sx(w % (1 << 26), 26)
    return x, y, z


def section_pos_word(x, y, z):       # x(22) z(22) y(20)
    return _tc(x, 22) << 42 | _tc(z, 22) << 20 | _tc(y, 20)


def section_pos_from_word(w):
    return (_sx(w >> 42, 22), _sx(w % (1 << 20), 20),
            _sx((w >> 20) % (1 << 22), 22))


# ------------------------------------------------------------------- frames

def frame(packet_id, payload, mode=None, compress=None, level=6):
    """Encode one frame.  mode None: no compression layer.  mode = threshold
    (int): compression layer present; `compress` decides whether this frame's
    body is deflated (None: the vanilla rule len >= threshold, with negative
    thresholds meaning never)."""
    body = varint(packet_id) + bytes(payload)
    if mode is None:
        return varint(len(body)) + body
    if compress is None:
        compress = mode >= 0 and len(body) >= mode
    if compress:
        inner = varint(len(body)) + zlib.compress(body, level)
    else:
        inner = varint(0) + body
    return varint(len(inner)) + inner


class FrameParser(object):
    """Incremental strict frame parser (the 'independent server')."""

    def __init__(self, compressed=False):
        self.buf = bytearray()
        self.compressed = compressed
        self.frames = []        # (id, payload, was_compressed)

    def feed(self, data):
        self.buf += data
        return self.drain()

    def drain(self, switch_after=None):
        """Parse as many complete frames as available."""
        out = []
        while True:
            try:
                n, p = read_varint(self.buf, 0, 5)
            except EOF:
                break
            if p + n > len(self.buf):
                break
            body = bytes(self.buf[p:p + n])
            del self.buf[:p + n]
            fr = self.decode_body(body)
            self.frames.append(fr)
            out.append(fr)
            if switch_after is not None and switch_after(fr):
                break
        return out

    def decode_body(self, body):
        was = False
        if self.compressed:
            dl, p = read_varint(body, 0, 5)
            if dl == 0:
                body = body[p:]
            else:
                d = zlib.decompressobj()
                try:
                    raw = d.decompress(body[p:])
                except zlib.error as e:
                    raise WireError('bad zlib stream in frame: %s' % e)
                if not d.eof or d.unused_data:
                    raise WireError('bad zlib stream in frame')
                if len(raw) != dl:
                    raise WireError('data length %d != inflated %d'
                                    % (dl, len(raw)))
                body = raw
                was = True
        pid, p = read_varint(body, 0, 5)
        return (pid, body[p:], was)


def parse_frames(data, compressed=False):
    fp = FrameParser(compressed)
    fp.feed(data)
    return fp.frames, bytes(fp.buf)


# ----------------------------------------------------------------- selftest

def selftest():
    import struct
    import random
    r = random.Random(12345)
    for _ in range(4000):
        w = r.getrandbits(32)
        v = float_bits_to_value(w, 32)
        sv = struct.unpack('>f', w.to_bytes(4, 'big'))[0]
        assert (v != v and sv != sv) or v == sv, (w, v, sv)
        if v == v:
            assert f32(v) == struct.pack('>f', v), (w, v)
        w = r.getrandbits(64)
        v = float_bits_to_value(w, 64)
        sv = struct.unpack('>d', w.to_bytes(8, 'big'))[0]
        assert (v != v and sv != sv) or v == sv, (w, v, sv)
        if v == v:
            assert f64(v) == struct.pack('>d', v), (w, v)
        # rounding of doubles to binary32
        x = r.uniform(-1e6, 1e6)
        assert f32(x) == struct.pack('>f', x), x
    for v in (0.0, -0.0, 5e-324, 2.2250738585072014e-308, 1e-45, 1.4e-45,
              3.4028234663852886e38, 1.17549435e-38, float('inf'),
              float('-inf')):
        assert f64(v) == struct.pack('>d', v), v
        assert f32(v) == struct.pack('>f', v), v
    for n, b in ((0, b'\0'), (127, b'\x7f'), (128, b'\x80\x01'),
                 (255, b'\xff\x01'), (25565, b'\xdd\xc7\x01'),
                 (2097151, b'\xff\xff\x7f'),
                 (2147483647, b'\xff\xff\xff\xff\x07'),
                 (2**32 - 1, b'\xff\xff\xff\xff\x0f')):
        assert varint(n) == b, n
        assert read_varint(b, 0) == (n, len(b))
    for s in ('', 'a', '\x7f\x80', '߿ࠀ', '￿\U00010000',
              '\U0010ffff', 'h\xe9llo 世界 \U0001f600'):
        assert utf8(s) == s.encode('utf-8'), s
        assert utf8_decode(utf8(s)) == s
    assert position_from_word(position_word(-1, -2, -3, True), True) == \
        (-1, -2, -3)
    assert position_word(18357644, 831, -20882616, True) == \
        0b0100011000000111011000110010110000010101101101001000001100111111
    fr = frame(5, b'abc' * 100, 0)
    assert parse_frames(fr, True)[0] == [(5, b'abc' * 100, True)]
    assert sint(-1, 16) == b'\xff\xff' and read_sint(b'\xff\xfe', 0, 16)[0] \
        == -2
    assert uuid_text(uuid_bytes('12345678-1234-5678-1234-567812345678')) == \
        '12345678-1234-5678-1234-567812345678'
    assert angle_bytes_allowed(359.9) == {0} and \
        angle_bytes_allowed(180) == {128}
    return True
