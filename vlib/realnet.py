"""The same scripted servers (vlib.servers) over real loopback TCP, to
validate the in-memory transport: identical scripts, identical oracles, real
sockets and real OS scheduling.  Timeouts here are harness errors (exit 2),
never violations."""
import socket
import threading
import time


class TcpLink(object):
    """What a Script needs from a link, backed by a real socket."""

    def __init__(self, world, sock, addr):
        self.world = world
        self.sock = sock
        self.addr = addr
        self.events = []
        self.closed = False
        self.client_closed = False
        self.lock = threading.Lock()
        self.s2c_total = 0

    def log(self, kind, info=None):
        self.events.append((self.world.next_seq(), kind, info))

    def emit(self, data):
        self.log('emit', len(data))
        self.s2c_total += len(data)
        try:
            self.sock.sendall(data)
        except OSError:
            pass

    def server_close(self):
        if not self.closed:
            self.closed = True
            self.log('server_close')
            try:
                self.sock.shutdown(socket.SHUT_WR)
            except OSError:
                pass

    def closed_by_client(self):
        return self.client_closed


class RealWorld(object):
    def __init__(self, factory):
        self.factory = factory          # callable(addr) -> Script
        self.links = []
        self.seq = 0
        self.lock = threading.Lock()
        self.lsock = socket.socket(socket.AF_INET, socket.SOCK_STREAM)
        self.lsock.setsockopt(socket.SOL_SOCKET, socket.SO_REUSEADDR, 1)
        self.lsock.bind(('127.0.0.1', 0))
        self.lsock.listen(8)
        self.port = self.lsock.getsockname()[1]
        self.threads = []
        self.stop = False
        self.acceptor = threading.Thread(target=self._accept, daemon=True)
        self.acceptor.start()

    def next_seq(self):
        with self.lock:
            self.seq += 1
            return self.seq

    def _accept(self):
        while not self.stop:
            try:
                s, addr = self.lsock.accept()
            except OSError:
                return
            script = self.factory(addr)
            link = TcpLink(self, s, addr)
            script.link = link
            self.links.append(link)
            t = threading.Thread(target=self._serve, args=(s, link, script),
                                 daemon=True)
            t.start()
            self.threads.append(t)

    def _serve(self, s, link, script):
        script.start()
        while True:
            try:
                data = s.recv(65536)
            except OSError:
                data = b''
            if not data:
                link.client_closed = True
                link.log('close')
                script.on_client_close()
                break
            link.log('send', len(data))
            with link.lock:
                script.on_bytes(data)
        try:
            s.close()
        except OSError:
            pass

    def settle(self, conn, timeout=30.0):
        """wait until the client's networking threads are gone and the
        server has seen the client close every link"""
        deadline = time.monotonic() + timeout
        while time.monotonic() < deadline:
            if conn.networking_thread is None and \
                    conn.new_networking_thread is None and \
                    all(l.client_closed for l in self.links):
                return 'done'
            time.sleep(0.005)
        return 'timeout'

    def close(self):
        self.stop = True
        try:
            self.lsock.close()
        except OSError:
            pass
        for l in self.links:
            try:
                l.sock.close()
            except OSError:
                pass
