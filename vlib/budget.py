"""Deterministic step budgets (no wall clock): line-event counters and
counting streams."""
import sys
import threading


class BudgetExceeded(BaseException):
    pass


def run_with_line_budget(fn, budget, only_substr='/minecraft/'):
    """Call fn() counting traced line events in frames whose file name
    contains only_substr; raise BudgetExceeded past `budget`.
    Returns fn()'s result (exceptions from fn propagate)."""
    count = [0]

    def local(frame, event, arg):
        if event == 'line':
            count[0] += 1
            if count[0] > budget:
                raise BudgetExceeded(count[0])
        return local

    def tracer(frame, event, arg):
        if only_substr in frame.f_code.co_filename:
            return local
        return None

    old = sys.gettrace()
    sys.settrace(tracer)
    try:
        return fn()
    finally:
        sys.settrace(old)


class CountingStream(object):
    """bytes source with read(n) semantics of BytesIO, counting requests."""

    def __init__(self, data):
        self.data = bytes(data)
        self.pos = 0
        self.requested = 0
        self.calls = 0

    def read(self, n=None):
        self.calls += 1
        if n is None or n < 0:
            n = len(self.data) - self.pos
        self.requested += n
        out = self.data[self.pos:self.pos + n]
        self.pos += len(out)
        return out

    recv = read


class Sink(object):
    """socket-like sink recording each send() call."""

    def __init__(self):
        self.chunks = []

    def send(self, b):
        self.chunks.append(bytes(b))
        return len(b)

    @property
    def value(self):
        return b''.join(self.chunks)


class InterleaveDeadlock(Exception):
    pass


def run_interleaved(fn_a, fn_b, k, only_substr='/minecraft/', wait=0.05):
    """Harness-owned 'preemption': call fn_a(); at its k-th traced line event
    (in frames whose file name contains only_substr) suspend it, run fn_b()
    on another thread, then let fn_a continue.  For code whose state is
    confined to locals this is indistinguishable from running the two calls
    one after the other - exactly what a thread switch at that line boundary
    would show.  If fn_b does not finish within `wait` seconds (it waits for
    a lock fn_a holds: the switch is not possible there) fn_a is resumed and
    fn_b completes afterwards; if it still has not finished 5 s after fn_a
    returned, InterleaveDeadlock is raised.
    Returns (result of fn_a, result of fn_b or None, whether fn_b ran)."""
    import threading
    count = [0]
    out = {'b': None, 'ran': False, 'exc': None, 'thread': None}

    def run_b():
        try:
            out['b'] = fn_b()
        except BaseException as e:      # noqa: reported by the caller
            out['exc'] = e

    def local(frame, event, arg):
        if event == 'line' and not out['ran']:
            count[0] += 1
            if count[0] == k:
                out['ran'] = True
                t = threading.Thread(target=run_b, daemon=True)
                out['thread'] = t
                t.start()
                t.join(wait)
        return local

    def tracer(frame, event, arg):
        if only_substr in frame.f_code.co_filename:
            return local
        return None

    old = sys.gettrace()
    sys.settrace(tracer)
    try:
        a = fn_a()
    finally:
        sys.settrace(old)
    t = out['thread']
    if t is not None:
        t.join(5.0)
        if t.is_alive():
            raise InterleaveDeadlock('the second call never finished')
    if out['exc'] is not None:
        raise out['exc']
    return a, out['b'], out['ran']
