"""Core harness objects: check context, failure buckets, JSON case codec, seeds.

Nothing in here imports pyCraft.
"""
import hashlib
import json
import math
import os
import sys
import time
import traceback
from collections import Counter

VERIF = os.path.dirname(os.path.dirname(os.path.abspath(__file__)))
REPO = os.environ.get('VERIF_REPO', '/repo')


# --------------------------------------------------------------------------
# JSON codec for cases (bytes, tuples, special floats, sets, non-str keys)

def enc(o):
    if isinstance(o, bool) or o is None or isinstance(o, str):
        return o
    if isinstance(o, int):
        return o if -2**63 <= o < 2**63 else {'__int__': str(o)}
    if isinstance(o, float):
        if math.isnan(o) or math.isinf(o):
            return {'__f__': repr(o)}
        return {'__f__': o.hex()} if o != 0 and (abs(o) < 1e-300) else o
    if isinstance(o, bytearray):
        return {'__ba__': bytes(o).hex()}
    if isinstance(o, bytes):
        return {'__b__': bytes(o).hex()}
    if isinstance(o, tuple):
        return {'__t__': [enc(x) for x in o]}
    if isinstance(o, list):
        return [enc(x) for x in o]
    if isinstance(o, (set, frozenset)):
        return {'__s__': [enc(x) for x in sorted(o, key=repr)]}
    if isinstance(o, dict):
        if all(isinstance(k, str) and not k.startswith('__') for k in o):
            return {k: enc(v) for k, v in o.items()}
        return {'__d__': [[enc(k), enc(v)] for k, v in o.items()]}
    return {'__repr__': repr(o)}


def dec(o):
    if isinstance(o, list):
        return [dec(x) for x in o]
    if isinstance(o, dict):
        if len(o) == 1:
            (k, v), = o.items()
            if k == '__int__':
                return int(v)
            if k == '__f__':
                return float.fromhex(v) if isinstance(v, str) and 'x' in v \
                    else float(v)
            if k == '__b__':
                return bytes.fromhex(v)
            if k == '__ba__':
                return bytearray.fromhex(v)
            if k == '__t__':
                return tuple(dec(x) for x in v)
            if k == '__s__':
                return set(dec(x) for x in v)
            if k == '__d__':
                return {dec(a): dec(b) for a, b in v}
            if k == '__repr__':
                return v
        return {k: dec(v) for k, v in o.items()}
    return o


def short(o, n=300):
    s = o if isinstance(o, str) else repr(o)
    return s if len(s) <= n else s[:n] + '...(%d chars)' % len(s)


def fp(*parts):
    """8-byte fingerprint of a canonical case description."""
    return hashlib.blake2b(repr(parts).encode('utf-8', 'replace'),
                           digest_size=8).digest()


def derive_seed(seed, *parts):
    h = hashlib.blake2b(repr((int(seed),) + parts).encode(), digest_size=8)
    return int.from_bytes(h.digest(), 'big') >> 1


# --------------------------------------------------------------------------
# known findings

_KNOWN = None


def known_findings():
    global _KNOWN
    if _KNOWN is None:
        path = os.path.join(VERIF, 'known_findings.json')
        try:
            with open(path) as f:
                _KNOWN = json.load(f)
        except FileNotFoundError:
            _KNOWN = {'findings': [], 'fixed': []}
    return _KNOWN


def _submatch(pattern, value):
    """pattern (from known_findings.json) matches value (encoded case)."""
    if isinstance(pattern, dict) and isinstance(value, dict):
        return all(k in value and _submatch(v, value[k])
                   for k, v in pattern.items())
    return pattern == value


def match_known(prop, component, clause, case):
    for f in known_findings().get('findings', []):
        if f.get('property') != prop:
            continue
        if 'component' in f and f['component'] != component:
            continue
        if 'clause' in f and f['clause'] != clause:
            continue
        if 'case' in f and not _submatch(f['case'], case):
            continue
        return f
    return None


# --------------------------------------------------------------------------

def innermost_repo_frame(exc):
    """file:function of the innermost frame inside minecraft/ for exc."""
    if exc is None:
        return ''
    tb = exc.__traceback__
    best = ''
    while tb is not None:
        fn = tb.tb_frame.f_code.co_filename
        if '/minecraft/' in fn:
            best = '%s:%s' % (fn.split('/minecraft/', 1)[1],
                              tb.tb_frame.f_code.co_name)
        tb = tb.tb_next
    return best


class Failure(object):
    __slots__ = ('prop', 'component', 'clause', 'case', 'observed',
                 'expected', 'sig', 'count')

    def __init__(self, prop, component, clause, case, observed, expected,
                 sig):
        self.prop, self.component, self.clause = prop, component, clause
        self.case, self.observed, self.expected = case, observed, expected
        self.sig = sig
        self.count = 1

    def to_json(self):
        return {'property': self.prop, 'component': self.component,
                'oracle_clause': self.clause, 'case': self.case,
                'observed': self.observed, 'expected': self.expected,
                'signature': list(self.sig), 'occurrences': self.count}


# functions case -> case applied to every failing case before it is stored:
# they add what the case depended on outside itself (e.g. which protocol
# versions the shared connection context had carried before), so that a
# replay in a fresh process can re-establish it.
CASE_ANNOTATORS = []


class Ctx(object):
    """Per-task context: counters, fingerprints, samples, failure buckets."""

    SAMPLE_CAP = 4

    def __init__(self, prop, tier, seed, task=''):
        self.prop, self.tier, self.seed, self.task = prop, tier, seed, task
        self.evaluations = 0
        self.nontrivial = set()
        self.labels = Counter()
        self.samples = []
        self.failures = {}            # sig -> Failure (first seen)
        self.excluded_known = Counter()
        self.exhaustive = []          # names of sub-domains enumerated fully
        self.notes = []
        self.collect_only = True
        self.t0 = time.monotonic()

    @property
    def quick(self):
        return self.tier == 'quick'

    def pick(self, quick, thorough):
        return quick if self.tier == 'quick' else thorough

    def ev(self, n=1):
        self.evaluations += n

    def nt(self, *parts):
        self.nontrivial.add(fp(*parts))

    def label(self, *names):
        for n in names:
            self.labels[n] += 1

    def sample(self, obj, key=None):
        """Keep a few samples; at most SAMPLE_CAP per key."""
        k = key or ''
        n = sum(1 for s in self.samples if s[0] == k)
        if n < self.SAMPLE_CAP:
            self.samples.append((k, enc(obj)))

    def exhaustive_done(self, name):
        self.exhaustive.append(name)

    def fail(self, component, clause, case, observed=None, expected=None,
             exc=None):
        if isinstance(case, dict):
            for fn in CASE_ANNOTATORS:
                case = fn(case)
        case = enc(case)
        kf = match_known(self.prop, component, clause, case)
        if kf is not None:
            self.excluded_known[kf.get('id', kf.get('what', '?'))] += 1
            return None
        sig = (self.prop, component, clause,
               type(exc).__name__ if exc is not None else '',
               innermost_repo_frame(exc))
        if exc is not None and observed is None:
            observed = '%s: %s' % (type(exc).__name__, short(str(exc)))
        f = self.failures.get(sig)
        if f is None:
            self.failures[sig] = f = Failure(
                self.prop, component, clause, case, short(observed, 2000),
                short(expected, 2000), sig)
        else:
            f.count += 1
        return f

    # -- merge / export (across processes)
    def export(self):
        return {
            'task': self.task, 'evaluations': self.evaluations,
            'nontrivial': self.nontrivial, 'labels': dict(self.labels),
            'samples': self.samples,
            'failures': [f.to_json() for f in self.failures.values()],
            'excluded_known': dict(self.excluded_known),
            'exhaustive': self.exhaustive, 'notes': self.notes,
            'wall_s': time.monotonic() - self.t0,
        }


class HarnessError(Exception):
    """Harness is broken / inconclusive: exit code 2, never a violation."""


def fmt_exc(e):
    return ''.join(traceback.format_exception(type(e), e, e.__traceback__))
