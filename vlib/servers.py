"""Scripted, synchronous Minecraft servers for the in-memory network, written
with the reference codec only (vlib.wire / vlib.refproto / vlib.aes /
vlib.rsa).  For release protocols ids and layouts come from vlib.refproto;
for the other supported versions the *id* (and the field type list) of a
stimulus packet is looked up in pyCraft - the oracles that use these
scripts never depend on that id being right."""
import json

from . import wire, aes, rsa, refproto, vnet

_SPEC_TAG = {v: k for k, v in refproto.TAG_SPEC.items()
             if isinstance(v, str)}


def _ctx(version):
    from minecraft.networking.connection import ConnectionContext
    return ConnectionContext(protocol_version=version)


_PACKETS = {
    # name: (direction, state, class name)
    'login_disconnect': ('clientbound', 'login', 'DisconnectPacket'),
    'encryption_request': ('clientbound', 'login', 'EncryptionRequestPacket'),
    'login_success': ('clientbound', 'login', 'LoginSuccessPacket'),
    'login_set_compression': ('clientbound', 'login', 'SetCompressionPacket'),
    'plugin_request': ('clientbound', 'login', 'PluginRequestPacket'),
    'keep_alive': ('clientbound', 'play', 'KeepAlivePacket'),
    'join_game': ('clientbound', 'play', 'JoinGamePacket'),
    'chat': ('clientbound', 'play', 'ChatMessagePacket'),
    'pos_look': ('clientbound', 'play', 'PlayerPositionAndLookPacket'),
    'disconnect': ('clientbound', 'play', 'DisconnectPacket'),
    'time_update': ('clientbound', 'play', 'TimeUpdatePacket'),
    'update_health': ('clientbound', 'play', 'UpdateHealthPacket'),
    'play_set_compression': ('clientbound', 'play', 'SetCompressionPacket'),
    'login_start': ('serverbound', 'login', 'LoginStartPacket'),
    'encryption_response': ('serverbound', 'login',
                            'EncryptionResponsePacket'),
    'plugin_response': ('serverbound', 'login', 'PluginResponsePacket'),
    'sb_keep_alive': ('serverbound', 'play', 'KeepAlivePacket'),
    'sb_chat': ('serverbound', 'play', 'ChatPacket'),
    'sb_pos_look': ('serverbound', 'play', 'PositionAndLookPacket'),
    'teleport_confirm': ('serverbound', 'play', 'TeleportConfirmPacket'),
}
_REF_NAME = {
    'login_disconnect': 'login disconnect',
    'encryption_request': 'encryption request',
    'login_success': 'login success',
    'login_set_compression': 'login set compression',
    'plugin_request': 'login plugin request', 'keep_alive': 'cb keep alive',
    'join_game': 'join game', 'chat': 'cb chat',
    'pos_look': 'cb position and look', 'disconnect': 'play disconnect',
    'play_set_compression': 'play set compression',
    'login_start': 'login start',
    'encryption_response': 'encryption response',
    'sb_keep_alive': 'sb keep alive', 'sb_chat': 'sb chat',
    'sb_pos_look': 'sb position and look',
    'teleport_confirm': 'teleport confirm',
}
_cache = {}


def _cls(name):
    import importlib
    d, s, c = _PACKETS[name]
    m = importlib.import_module('minecraft.networking.packets.%s.%s' % (d, s))
    return getattr(m, c)


def packet_info(version, name):
    """-> (id, layout [(attr, tag)], independent: bool)"""
    key = (version, name)
    if key in _cache:
        return _cache[key]
    if version in refproto.RELEASES and name in _REF_NAME:
        p = refproto.packet(version, _REF_NAME[name])
        if p['present']:
            r = (p['id'], p['layout'], True)
            _cache[key] = r
            return r
    if name == 'plugin_response':
        # hand-written codec in pyCraft: fixed layout, id from the table
        r = (_cls(name).get_id(_ctx(version)),
             [('message_id', 'VI'), ('successful', 'bool'), ('data', 'TB')],
             False)
        _cache[key] = r
        return r
    cls = _cls(name)
    c = _ctx(version)
    from props import c05_roundtrip as P5
    lay = []
    for f in cls.get_definition(c):
        for attr, t in f.items():
            sp = P5.spec_of(t)
            if sp == ('PrefixedArray', 'VarInt', 'String'):
                lay.append((attr, 'SARR'))
            else:
                lay.append((attr, _SPEC_TAG[sp]))
    r = (cls.get_id(c), lay, False)
    _cache[key] = r
    return r


def has_packet(version, name):
    import importlib
    d, s, c = _PACKETS[name]
    m = importlib.import_module('minecraft.networking.packets.%s.%s' % (d, s))
    return getattr(m, c) in m.get_packets(_ctx(version))


def encode(version, name, **values):
    pid, lay, _ = packet_info(version, name)
    return pid, refproto.encode_fields(lay, values)


def decode(version, name, payload):
    pid, lay, _ = packet_info(version, name)
    if name == 'plugin_response':
        mid, p = wire.read_varint(payload, 0)
        ok = payload[p] != 0
        return {'message_id': mid, 'successful': ok,
                'data': bytes(payload[p + 1:]) if ok else None,
                'extra': len(payload) - p - 1 if not ok else 0}
    return refproto.decode_fields(lay, payload)


def keep_alive_is_long(version):
    return dict(packet_info(version, 'keep_alive')[1])['keep_alive_id'] \
        == 'i64'


class Script(object):
    """Base: frame parsing of the client stream with mode switches at exact
    frame boundaries, emission with optional cut (C15)."""

    def __init__(self):
        self.link = None
        self.buf = bytearray()          # plaintext client bytes not parsed
        self.c2s_compressed = False
        self.s2c_threshold = None
        self.dec = None
        self.enc = None
        self.frames = []                # (state, id, payload, compressed)
        self.frame_spans = []           # (start, end) offsets in the stream
        self.consumed = 0
        self.errors = []
        self.cut = None                 # total s2c bytes before EOF
        self.emitted = 0
        self.sent_log = []              # (name/id, payload) the server sent
        self.closed = False
        self.client_closed_seen = False
        self.s2c_compress_choice = None    # callable(k)->bool|None

    def attach(self, link):
        self.link = link
        self.start()

    def start(self):
        pass

    def on_client_close(self):
        self.client_closed_seen = True

    def on_bytes(self, data):
        if self.dec is not None:
            data = self.dec.decrypt(data)
        self.buf += data
        self.pump()

    def enable_encryption(self, secret):
        self.enc = aes.CFB8(secret, secret)
        self.dec = aes.CFB8(secret, secret)
        if self.buf:                      # already-received ciphertext
            self.buf = bytearray(self.dec.decrypt(bytes(self.buf)))

    def pump(self):
        while True:
            try:
                n, p = wire.read_varint(self.buf, 0, 5)
            except wire.EOF:
                return
            except wire.Overlong:
                self.errors.append('overlong length prefix from client')
                self.buf.clear()
                return
            if p + n > len(self.buf):
                return
            body = bytes(self.buf[p:p + n])
            del self.buf[:p + n]
            self.frame_spans.append((self.consumed, self.consumed + p + n))
            self.consumed += p + n
            fp = wire.FrameParser(self.c2s_compressed)
            try:
                pid, payload, comp = fp.decode_body(body)
            except wire.WireError as e:
                self.errors.append('malformed client frame: %s' % e)
                continue
            self.on_frame(pid, payload, comp)

    def on_frame(self, pid, payload, comp):
        self.frames.append((None, pid, payload, comp))

    # ---- emission
    def raw_emit(self, data):
        if self.closed:
            return
        if self.enc is not None:
            data = self.enc.encrypt(data)
        if self.cut is not None:
            room = self.cut - self.emitted
            if room <= 0:
                data = b''
            else:
                data = data[:room]
        self.emitted += len(data)
        if data:
            self.link.emit(data)
        if self.cut is not None and self.emitted >= self.cut:
            self.close()

    def send_frame(self, pid, payload, compress=None):
        if compress is None and self.s2c_compress_choice is not None:
            compress = self.s2c_compress_choice(len(self.sent_log))
        self.sent_log.append((pid, bytes(payload)))
        self.raw_emit(wire.frame(pid, payload, self.s2c_threshold,
                                 compress))

    def close(self):
        if not self.closed:
            self.closed = True
            self.link.server_close()
            if getattr(self, 'reset_on_close', False):
                # the peer is gone for good (RST): writing to it fails
                import errno
                self.link.send_error = BrokenPipeError(errno.EPIPE,
                                                       'Broken pipe')
                self.link.peer_reset = True


class Server(Script):
    """Handshake -> status | login -> play, driven by a spec dict:

      version: protocol number the server speaks
      status:  {'reply': json text | None, 'mode': 'reply'|'close',
                'pong': bool}
      login:   list of steps
                 ('encrypt', bits, token, server_id)
                 ('compress', threshold)
                 ('plugin', message_id, channel, data, wait: bool)
                 ('success',) | ('disconnect', json text)
      play:    {'bursts': [[item..]..], 'mode': 'all'|'reactive',
                'end': 'disconnect'|'eof'|'silent', 'end_msg': str}
               item = (name, values) | ('raw', id, payload)
    """

    def __init__(self, spec):
        Script.__init__(self)
        self.spec = spec
        self.version = spec.get('version', 757)
        self.state = 'handshake'
        self.handshake = None
        self.login_name = None
        self.steps = list(spec.get('login') or [('success',)])
        self.waiting = None             # 'encryption_response'|'plugin'
        self.secret = None
        self.enc_response = None
        self.plugin_responses = []
        self.plugin_sent = 0
        self.replies = []               # ('keep_alive', id)|('teleport', id)
        self.reply_frames = 0           #   |('pos_look', fields)
        self.expected_replies = 0
        self.bursts = None
        self.status_requests = 0
        self.pings = []
        self.cut = spec.get('cut')
        self.play_started = False
        self.other_play_frames = []

    def on_frame(self, pid, payload, comp):
        st = self.state
        self.frames.append((st, pid, bytes(payload), comp))
        try:
            getattr(self, 'in_' + st)(pid, payload)
        except (wire.WireError, IndexError) as e:
            self.errors.append('undecodable client frame in %s: id %d: %s'
                               % (st, pid, e))

    # ---- handshake
    def in_handshake(self, pid, payload):
        if pid != 0:
            self.errors.append('first frame id %d, not a handshake' % pid)
            return
        lay = [('protocol_version', 'VI'), ('server_address', 'S'),
               ('server_port', 'u16'), ('next_state', 'VI')]
        self.handshake = refproto.decode_fields(lay, payload)
        ns = self.handshake['next_state']
        if self.spec.get('adopt_version'):
            import minecraft
            pv = self.handshake['protocol_version']
            if pv in minecraft.SUPPORTED_PROTOCOL_VERSIONS:
                self.version = pv
        if ns == 1:
            self.state = 'status'
        elif ns == 2:
            self.state = 'login'
        else:
            self.errors.append('handshake next_state %r' % ns)

    # ---- status
    def in_status(self, pid, payload):
        sp = self.spec.get('status') or {}
        if pid == 0:
            if payload:
                self.errors.append('status request with payload')
            self.status_requests += 1
            if sp.get('mode', 'reply') == 'close' or sp.get('reply') is None:
                self.close()
                return
            self.send_frame(0, wire.string(sp['reply']))
            if sp.get('close_after_reply'):
                self.close()
        elif pid == 1:
            if len(payload) != 8:
                self.errors.append('ping payload %d bytes' % len(payload))
            self.pings.append(bytes(payload))
            if sp.get('pong', True):
                self.send_frame(1, payload)
            self.close()
        else:
            self.errors.append('status: unexpected frame id %d' % pid)

    # ---- login
    def in_login(self, pid, payload):
        v = self.version
        if self.login_name is None:
            if pid != packet_info(v, 'login_start')[0]:
                self.errors.append('login: first frame id %d' % pid)
                return
            self.login_name = decode(v, 'login_start', payload)['name']
            self.advance_login()
            return
        if has_packet(v, 'plugin_response') and \
                pid == packet_info(v, 'plugin_response')[0]:
            self.plugin_responses.append(decode(v, 'plugin_response',
                                                payload))
            # a waiting server waits for the answers to *all* requests it
            # has sent so far (answers arrive in request order)
            if self.waiting == 'plugin' and \
                    len(self.plugin_responses) >= self.plugin_sent:
                self.waiting = None
                self.advance_login()
            return
        if pid == packet_info(v, 'encryption_response')[0]:
            f = decode(v, 'encryption_response', payload)
            self.enc_response = f
            if self.waiting != 'encryption_response':
                self.errors.append('unsolicited encryption response')
                return
            k = rsa.key(self.enc_bits)
            try:
                self.secret = rsa.decrypt_pkcs1_v15(k, f['shared_secret'])
                self.token_back = rsa.decrypt_pkcs1_v15(k, f['verify_token'])
            except rsa.PaddingError as e:
                self.errors.append('encryption response: %s' % e)
                self.close()
                return
            if len(self.secret) != 16:
                self.errors.append('secret of %d bytes' % len(self.secret))
                self.close()
                return
            self.enable_encryption(self.secret)
            self.waiting = None
            self.advance_login()
            return
        self.errors.append('login: unexpected frame id %d' % pid)

    def advance_login(self):
        v = self.version
        while self.steps and self.waiting is None and not self.closed:
            step = self.steps.pop(0)
            kind = step[0]
            if kind == 'encrypt':
                bits, token, sid = step[1:4]
                # optional 5th element: which valid DER encoding of the key
                # the server sends ('spki' = what a Java server sends)
                self.enc_key_bytes = rsa.key_encodings(bits)[
                    step[4] if len(step) > 4 else 'spki']
                self.enc_bits, self.enc_token, self.enc_sid = bits, token, sid
                self.send_frame(*encode(
                    v, 'encryption_request', server_id=sid,
                    public_key=self.enc_key_bytes, verify_token=token))
                self.waiting = 'encryption_response'
            elif kind == 'compress':
                self.send_frame(*encode(v, 'login_set_compression',
                                        threshold=step[1] % (1 << 32)))
                self.s2c_threshold = step[1]
                self.c2s_compressed = True
            elif kind == 'plugin':
                _, mid, chan, data, wait = step
                self.send_frame(*encode(v, 'plugin_request', message_id=mid,
                                        channel=chan, data=data))
                self.plugin_sent += 1
                if wait:
                    self.waiting = 'plugin'
            elif kind == 'success':
                uu = '12345678-1234-5678-1234-567812345678'
                self.send_frame(*encode(v, 'login_success', UUID=uu,
                                        Username=self.login_name or 'x'))
                self.state = 'play'
                self.start_play()
            elif kind == 'disconnect':
                self.send_frame(*encode(v, 'login_disconnect',
                                        json_data=step[1]))
                self.close()
            elif kind == 'close':
                self.close()
            elif kind == 'raw':
                self.send_frame(step[1], step[2])
            else:
                raise ValueError(step)

    # ---- play
    def start_play(self):
        self.play_started = True
        pl = self.spec.get('play') or {}
        self.bursts = [list(b) for b in pl.get('bursts', [])]
        self.play_mode = pl.get('mode', 'all')
        self.play_end = pl.get('end', 'silent')
        self.pump_play()

    def pump_play(self):
        while self.bursts and not self.closed:
            if self.play_mode == 'reactive' and \
                    self.reply_frames < self.expected_replies:
                return
            burst = self.bursts.pop(0)
            for item in burst:
                self.send_item(item)
        if not self.bursts and not self.closed and self.play_end != 'silent':
            if self.play_mode == 'reactive' and \
                    self.reply_frames < self.expected_replies:
                return
            end = self.play_end
            self.play_end = 'silent'
            if end == 'disconnect':
                msg = (self.spec.get('play') or {}).get('end_msg',
                                                        '{"text":"bye"}')
                self.send_frame(*encode(self.version, 'disconnect',
                                        json_data=msg))
            self.close()

    def send_item(self, item):
        v = self.version
        if item[0] == 'raw':
            self.send_frame(item[1], item[2])
            return
        name, values = item
        if name in ('keep_alive', 'pos_look'):
            self.expected_replies += 1
        if name == 'play_set_compression':
            self.send_frame(*encode(v, name, **values))
            self.s2c_threshold = values['threshold']
            self.c2s_compressed = True
            return
        self.send_frame(*encode(v, name, **values))

    def in_play(self, pid, payload):
        v = self.version
        if pid == packet_info(v, 'sb_keep_alive')[0] and \
                self._try(lambda: self.replies.append(
                    ('keep_alive',
                     decode(v, 'sb_keep_alive', payload)['keep_alive_id']))):
            self.reply_frames += 1
        elif has_packet(v, 'teleport_confirm') and \
                pid == packet_info(v, 'teleport_confirm')[0] and \
                self._try(lambda: self.replies.append(
                    ('teleport',
                     decode(v, 'teleport_confirm', payload)['teleport_id']))):
            self.reply_frames += 1
        elif pid == packet_info(v, 'sb_pos_look')[0] and \
                self._try(lambda: self.replies.append(
                    ('pos_look', decode(v, 'sb_pos_look', payload)))):
            self.reply_frames += 1
        elif has_packet(v, 'plugin_response') and self.play_started and \
                pid == packet_info(v, 'plugin_response')[0] and \
                len(self.plugin_responses) < sum(
                    1 for s in (self.spec.get('login') or [])
                    if s[0] == 'plugin') and \
                self._try(lambda: self.plugin_responses.append(
                    decode(v, 'plugin_response', payload))):
            pass       # late reply to a login plugin request (not waited)
        else:
            self.other_play_frames.append((pid, bytes(payload)))
        self.pump_play()

    def _try(self, fn):
        try:
            fn()
            return True
        except (wire.WireError, IndexError):
            return False


# --------------------------------------------------------------- client run

class Observed(object):
    pass


def make_connection(world, **kw):
    from minecraft.networking.connection import Connection
    o = Observed()
    o.exceptions = []       # (exc, exc_info) seen by handle_exception
    o.exits = 0

    def on_exc(exc, exc_info):
        o.exceptions.append((exc, exc_info))

    def on_exit():
        o.exits += 1
    kw.setdefault('handle_exception', on_exc)
    kw.setdefault('handle_exit', on_exit)
    kw.setdefault('username', 'tester')
    conn = Connection(kw.pop('address', 'localhost'),
                      kw.pop('port', 25565), **kw)
    o.conn = conn
    return conn, o


def run_encrypted_login(version, bits=1024, token=b'\x01\x02\x03\x04',
                        server_id='-', observer=False):
    """one complete encrypted login on the virtual network; returns the
    secret the server decrypted (for C18 E5)."""
    srv = Server({'version': version,
                  'login': [('encrypt', bits, token, server_id),
                            ('success',)],
                  'play': {'bursts': [], 'end': 'disconnect'}})
    world = vnet.World(servers=[srv])
    with vnet.installed(world):
        conn, o = make_connection(world, allowed_versions={version})
        if observer:
            # an ordinary (late) outgoing listener that raises IgnorePacket
            # for everything it sees: per the documentation that only keeps
            # LATER listeners from being called - the packet has been written
            from minecraft.exceptions import IgnorePacket
            from minecraft.networking.packets import Packet

            def observe(p):
                raise IgnorePacket
            conn.register_packet_listener(observe, Packet, outgoing=True)
        conn.connect()
        alive = world.join_threads(20)
    if alive:
        return {'error': 'thread did not finish'}
    if srv.errors or o.exceptions or srv.secret is None:
        return {'error': 'errors=%r exceptions=%r' % (
            srv.errors, [repr(e[0]) for e in o.exceptions])}
    return {'secret': srv.secret, 'token_back': srv.token_back}
