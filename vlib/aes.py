"""Independent AES-128 (FIPS-197) block encryption and CFB8 mode.

pure: everything in Python integers/bytes.  fast: CFB8 built on the
single-block AES-ECB primitive of `cryptography` (a third-party library;
pyCraft never implements AES itself - what it controls is mode, key, IV and
stream continuity, which is exactly what these oracles pin down).  The two
are cross-checked by selftest() and by callers on samples."""

_SBOX = None


def _init():
    global _SBOX
    if _SBOX is not None:
        return
    # generate the S-box from GF(2^8) inverses + affine map
    def mul(a, b):
        r = 0
        while b:
            if b & 1:
                r ^= a
            a <<= 1
            if a & 0x100:
                a ^= 0x11B
            b >>= 1
        return r
    inv = [0] * 256
    for a in range(1, 256):
        for b in range(1, 256):
            if mul(a, b) == 1:
                inv[a] = b
                break
    sbox = []
    for a in range(256):
        x = inv[a]
        y = x
        for _ in range(4):
            x = ((x << 1) | (x >> 7)) & 0xFF
            y ^= x
        sbox.append(y ^ 0x63)
    _SBOX = sbox


def _xt(a):
    a <<= 1
    return (a ^ 0x11B) & 0xFF if a & 0x100 else a


def expand_key(key):
    _init()
    assert len(key) == 16
    w = [list(key[4 * i:4 * i + 4]) for i in range(4)]
    rcon = 1
    for i in range(4, 44):
        t = list(w[i - 1])
        if i % 4 == 0:
            t = t[1:] + t[:1]
            t = [_SBOX[b] for b in t]
            t[0] ^= rcon
            rcon = _xt(rcon)
        w.append([a ^ b for a, b in zip(w[i - 4], t)])
    return [sum(w[4 * r:4 * r + 4], []) for r in range(11)]


def encrypt_block(rk, block):
    s = [b ^ k for b, k in zip(block, rk[0])]
    for rnd in range(1, 11):
        s = [_SBOX[b] for b in s]
        # shift rows (state is column-major: index = 4*col + row)
        s = [s[4 * ((c + r) % 4) + r] for c in range(4) for r in range(4)]
        if rnd != 10:
            t = []
            for c in range(4):
                a = s[4 * c:4 * c + 4]
                x = a[0] ^ a[1] ^ a[2] ^ a[3]
                t += [a[0] ^ x ^ _xt(a[0] ^ a[1]), a[1] ^ x ^ _xt(a[1] ^ a[2]),
                      a[2] ^ x ^ _xt(a[2] ^ a[3]), a[3] ^ x ^ _xt(a[3] ^ a[0])]
            s = t
        s = [b ^ k for b, k in zip(s, rk[rnd])]
    return bytes(s)


class _PureECB(object):
    def __init__(self, key):
        self.rk = expand_key(key)

    def block(self, b):
        return encrypt_block(self.rk, b)


class _FastECB(object):
    def __init__(self, key):
        from cryptography.hazmat.primitives.ciphers import (
            Cipher, algorithms, modes)
        self.enc = Cipher(algorithms.AES(bytes(key)), modes.ECB()).encryptor()

    def block(self, b):
        return self.enc.update(bytes(b))


class CFB8(object):
    """One direction of an AES-128-CFB8 stream."""

    def __init__(self, key, iv, fast=True):
        self.ecb = (_FastECB if fast else _PureECB)(key)
        self.sr = bytes(iv)

    def encrypt(self, data):
        out = bytearray()
        sr = self.sr
        blk = self.ecb.block
        for p in data:
            c = p ^ blk(sr)[0]
            out.append(c)
            sr = sr[1:] + bytes([c])
        self.sr = sr
        return bytes(out)

    def decrypt(self, data):
        out = bytearray()
        sr = self.sr
        blk = self.ecb.block
        for c in data:
            out.append(c ^ blk(sr)[0])
            sr = sr[1:] + bytes([c])
        self.sr = sr
        return bytes(out)


def cfb8_encrypt(key, iv, data, fast=True):
    return CFB8(key, iv, fast).encrypt(data)


def cfb8_decrypt(key, iv, data, fast=True):
    return CFB8(key, iv, fast).decrypt(data)


def selftest():
    h = bytes.fromhex
    # FIPS-197 Appendix C.1
    rk = expand_key(h('000102030405060708090a0b0c0d0e0f'))
    assert encrypt_block(rk, h('00112233445566778899aabbccddeeff')) == \
        h('69c4e0d86a7b0430d8cdb78070b4c55a')
    # FIPS-197 Appendix B
    rk = expand_key(h('2b7e151628aed2a6abf7158809cf4f3c'))
    assert encrypt_block(rk, h('3243f6a8885a308d313198a2e0370734')) == \
        h('3925841d02dc09fbdc118597196a0b32')
    # SP 800-38A F.3.7 CFB8-AES128.Encrypt
    key = h('2b7e151628aed2a6abf7158809cf4f3c')
    iv = h('000102030405060708090a0b0c0d0e0f')
    pt = h('6bc1bee22e409f96e93d7e117393172aae2d')
    ct = h('3b79424c9c0dd436bace9e0ed4586a4f32b9')
    for fast in (False, True):
        assert cfb8_encrypt(key, iv, pt, fast) == ct, fast
        assert cfb8_decrypt(key, iv, ct, fast) == pt, fast
    import hashlib
    d = hashlib.sha256(b'x').digest() * 9
    assert cfb8_encrypt(d[:16], d[:16], d, True) == \
        cfb8_encrypt(d[:16], d[:16], d, False)
    return True
