"""In-memory network for minecraft.networking.connection.

connection.py reaches the OS only through the names `socket` and `select`
in its module namespace.  `installed(world)` replaces those two names (and
NetworkingThread by a registering subclass, and threading.excepthook) for
the duration of a case.  The server side is a synchronous script: it runs
inside the client's send() call, so there is no timing in any oracle.
"""
import contextlib
import errno
import socket as _real_socket
import threading
import time

AF_INET = _real_socket.AF_INET
AF_INET6 = _real_socket.AF_INET6
SOCK_STREAM = _real_socket.SOCK_STREAM
SHUT_RDWR = _real_socket.SHUT_RDWR


class KillThread(BaseException):
    """raised from fake I/O to stop a runaway networking thread"""


class BlockedForever(BaseException):
    """a read would block for ever (nothing can arrive): harness-level"""


class Link(object):
    """One TCP connection: two byte queues and an event log."""

    def __init__(self, world, addr, script, plan=None):
        self.world = world
        self.addr = addr
        self.script = script
        self.plan = plan or 'whole'     # 'whole' | 'one' | [chunk sizes]
        self.plan_i = 0
        self.cond = threading.Condition()
        self.c2s = bytearray()          # everything the client sent
        self.s2c = bytearray()          # pending server->client bytes
        self.s2c_total = 0
        self.s2c_eof = False            # server finished sending / closed
        self.client_shutdown = False    # reads shut down locally (SHUT_RD*)
        self.client_fin = False         # writes shut down: the peer saw FIN
        self.client_closed = False
        self.file_closed = False
        self.events = []                # (seq, kind, info)
        self.event_thread = {}          # seq -> name of the acting thread
        self.reads = 0
        self.eof_reads = 0              # read() calls that returned b''
        self.idle = 0                   # times select found nothing
        self.clean = 0                  # ... and nothing was queued either
        self.watch_conn = None          # whose outgoing queue `clean` means
        self.send_error = None          # exception instance to raise on send
        self.peer_reset = False         # the peer answered with RST
        self.before_send = None         # one-shot callable run inside send()
        self.in_script = False
        self.killed = False
        self.max_eof_reads = 10000

    def clean_tick(self):
        """called by the fake select() (the client's own thread) when it
        found nothing to read: the tick is 'clean' if at that very moment
        nothing is waiting to be read and nothing is queued for writing.
        The client's thread is then between two loop passes - every packet
        it had read has been dispatched and every reply it had queued has
        been popped AND sent (pop and send happen in that thread before it
        can reach select again)."""
        if not self.s2c and not getattr(self.watch_conn,
                                        '_outgoing_packet_queue', ()):
            self.clean += 1

    def log(self, kind, info=None):
        seq = self.world.next_seq()
        self.events.append((seq, kind, info))
        self.event_thread[seq] = threading.current_thread().name

    # ---- server side
    def emit(self, data):
        with self.cond:
            self.s2c += data
            self.s2c_total += len(data)
            self.log('emit', len(data))
            self.cond.notify_all()

    def server_close(self):
        with self.cond:
            self.s2c_eof = True
            self.log('server_close')
            self.cond.notify_all()

    # ---- client side
    def readable(self):
        return bool(self.s2c) or self.s2c_eof or self.client_shutdown

    def take(self, n):
        """bytes for one read(n) call according to the segmentation plan"""
        if self.plan == 'whole':
            k = n
        elif self.plan == 'one':
            k = 1
        else:
            k = self.plan[self.plan_i % len(self.plan)] if self.plan else n
            self.plan_i += 1
            k = max(1, k)
        k = min(k, n, len(self.s2c))
        out = bytes(self.s2c[:k])
        del self.s2c[:k]
        return out

    @property
    def client_frames_raw(self):
        return bytes(self.c2s)

    def closed_by_client(self):
        return self.client_closed or self.client_shutdown or self.client_fin


class FakeFile(object):
    """What socket.makefile('rb', 0) returns: an unbuffered SocketIO."""

    def __init__(self, link):
        self.link = link
        self.closed = False
        link.world.files.append(self)

    def fileno(self):
        if self.closed:
            raise ValueError('I/O operation on closed file')
        return 1000 + id(self.link) % 1000

    def read(self, n=-1):
        link = self.link
        if self.closed:
            raise ValueError('I/O operation on closed file.')
        if n is None or n < 0:
            n = 1 << 30
        if link.killed:
            raise KillThread()
        link.world.yield_point('read', link)
        with link.cond:
            link.reads += 1
            if n == 0:
                return b''
            deadline = None
            while not link.s2c:
                if link.s2c_eof or link.client_shutdown:
                    link.eof_reads += 1
                    if link.eof_reads >= link.max_eof_reads:
                        link.killed = True
                        raise KillThread()
                    return b''
                # a real socket blocks here until data or end-of-stream
                # arrives or the read side is shut down; closing the file
                # object or the socket from another thread does NOT wake a
                # recv() that is already blocked
                if deadline is None:
                    deadline = time.monotonic() + link.world.block_guard
                left = deadline - time.monotonic()
                if left <= 0:
                    link.world.blocked.append(link)
                    link.killed = True
                    raise BlockedForever()
                link.cond.wait(min(left, 0.05))
            return link.take(n)

    recv = read

    def readinto(self, b):
        # SocketIO.readinto: up to len(b) bytes, returns the count
        data = self.read(len(b))
        b[:len(data)] = data
        return len(data)

    def close(self):
        link = self.link
        with link.cond:
            if not self.closed:
                self.closed = True
                link.file_closed = True
                link.log('file_close')
            link.cond.notify_all()


class FakeSocket(object):
    def __init__(self, world, family, type_, proto):
        self.world = world
        self.link = None
        self.closed = False
        self.shut = False
        self.timeout = None
        world.sockets.append(self)

    def connect(self, addr):
        if self.closed:
            raise OSError(errno.EBADF, 'Bad file descriptor')
        self.world.yield_point('connect', None)
        if addr[0] in self.world.dns_names:
            # scripts are looked up by the name that was resolved
            addr = (self.world.dns_names[addr[0]],) + tuple(addr[1:])
        self.link = self.world.accept(addr)       # may raise OSError

    def makefile(self, mode='r', buffering=None):
        assert self.link is not None
        return FakeFile(self.link)

    def fileno(self):
        return -1 if self.closed else 2000 + id(self) % 1000

    def send(self, data, _all=False):
        link = self.link
        if self.closed:
            raise OSError(errno.EBADF, 'Bad file descriptor')
        if link is None:
            raise OSError(errno.ENOTCONN, 'Socket is not connected')
        if self.shut:
            raise BrokenPipeError(errno.EPIPE, 'Broken pipe')
        self.world.yield_point('send', link)
        if link.before_send is not None:
            hook, link.before_send = link.before_send, None
            hook()          # one-shot: what the peer did just before this send
        if link.send_error is not None:
            raise link.send_error
        data = bytes(data)
        if self.timeout is not None and not _all:
            # A socket with a timeout is non-blocking underneath: send()
            # transmits what fits and returns the count ("applications are
            # responsible for checking that all data has been sent").  The
            # fake makes that visible: at most `partial_send` bytes per call.
            data = data[:max(1, self.world.partial_send)]
        with link.cond:
            link.c2s += data
            link.log('send', len(data))
        self.world.run_script(link, data)
        return len(data)

    def sendall(self, data):
        self.send(data, _all=True)

    def recv(self, n):
        return FakeFile(self.link).read(n)

    def shutdown(self, how):
        if self.closed:
            raise OSError(errno.EBADF, 'Bad file descriptor')
        if self.link is None or self.link.peer_reset:
            # (after the peer's RST the endpoint is no longer connected)
            raise OSError(errno.ENOTCONN, 'Transport endpoint is not '
                          'connected')
        self.world.yield_point('shutdown', self.link)
        rd = how in (_real_socket.SHUT_RD, _real_socket.SHUT_RDWR)
        wr = how in (_real_socket.SHUT_WR, _real_socket.SHUT_RDWR)
        with self.link.cond:
            if wr:
                self.shut = True
            if rd:
                # local reads (also ones blocked in another thread) return
                # end-of-stream from now on
                self.link.client_shutdown = True
            self.link.log('shutdown', how)
            self.link.cond.notify_all()
        if wr and not self.link.client_fin:
            # the peer sees our FIN
            self.link.client_fin = True
            self.world.run_script(self.link, b'', closed=True)

    def close(self):
        self.world.yield_point('close', self.link)
        if not self.closed:
            self.closed = True
            if self.link is not None:
                with self.link.cond:
                    self.link.client_closed = True
                    self.link.log('close')
                    self.link.cond.notify_all()

    def settimeout(self, t):
        self.timeout = t

    def gettimeout(self):
        return self.timeout

    def setblocking(self, flag):
        self.timeout = None if flag else 0.0

    def setsockopt(self, *a):
        pass


def underlying_file(stream):
    seen = 0
    while not isinstance(stream, FakeFile):
        stream = getattr(stream, 'actual_file_object')
        seen += 1
        if seen > 5:
            raise TypeError('not a fake file')
    return stream


class World(object):
    """All fake network state of one case."""

    def __init__(self, servers=None, default=None, plan=None):
        """servers: list of behaviours consumed one per TCP connect, each a
        Script instance, a callable(addr)->Script, or the string 'refuse'.
        default: used when the list is exhausted (else refuse)."""
        self.servers = list(servers or [])
        self.default = default
        self.plan = plan
        self.links = []
        self.sockets = []
        self.files = []
        self.connects = []          # (addr, outcome)
        self.connect_log = []       # (seq, outcome, thread name)
        self.threads = []
        self.excepthook_calls = []
        self.blocked = []
        self.seq = 0
        self.seq_lock = threading.Lock()
        self.block_guard = 0.25
        self.max_connects = 40      # per case; more is a reconnect loop
        self.partial_send = 3       # bytes per send() on a socket with timeout
        self.runaway = False
        self.scheduler = None
        self.resolved = []
        self.dns_records = 1            # address records per family
        self.select_calls = 0
        self.thread_starts = 0
        self.fail_thread_start = set()  # which thread starts are refused
        self.select_fail = None         # (n, exception): fails from call n on
        self.select_fail_hits = 0
        self.select_spin = False        # the client kept calling regardless
        self.dns_names = {}             # numeric address -> resolved name

    def next_seq(self):
        with self.seq_lock:
            self.seq += 1
            return self.seq

    def yield_point(self, kind, link):
        if self.scheduler is not None:
            self.scheduler.yield_point(kind)

    def accept(self, addr):
        if len(self.connects) >= self.max_connects:
            # an endless reconnect loop: stop it deterministically
            self.runaway = True
            self.connects.append((addr, 'refused'))
            raise ConnectionRefusedError(errno.ECONNREFUSED,
                                         'harness: too many connections')
        beh = self.servers.pop(0) if self.servers else self.default
        if beh is None or beh == 'refuse':
            self.connects.append((addr, 'refused'))
            self.connect_log.append((self.next_seq(), 'refused',
                                     threading.current_thread().name))
            raise ConnectionRefusedError(errno.ECONNREFUSED,
                                         'Connection refused')
        script = beh(addr) if callable(beh) and not hasattr(beh, 'attach') \
            else beh
        link = Link(self, addr, script, self.plan)
        self.links.append(link)
        self.connects.append((addr, 'accepted'))
        self.connect_log.append((self.next_seq(), 'accepted',
                                 threading.current_thread().name))
        link.in_script = True
        try:
            script.attach(link)
        finally:
            link.in_script = False
        return link

    def run_script(self, link, data, closed=False):
        # synchronous server: runs in the sender's thread.  Not re-entrant
        # (a script never sends as the client).
        if link.in_script:
            return
        link.in_script = True
        try:
            if closed:
                link.script.on_client_close()
            else:
                link.script.on_bytes(data)
        finally:
            link.in_script = False

    # ---- fake modules
    def socket_module(self):
        world = self

        class M(object):
            # every constant, exception class and helper of the real module
            # is available (SHUT_WR, IPPROTO_TCP, TCP_NODELAY, inet_aton...);
            # only what would touch the network is replaced
            def __getattr__(self, name):
                return getattr(_real_socket, name)

            error = OSError

            @staticmethod
            def getaddrinfo(host, port, family=0, type=0, proto=0, flags=0):
                world.resolved.append((host, port))
                n = world.dns_records
                if n <= 1:
                    return [(AF_INET6, SOCK_STREAM, 6, '',
                             (host, port, 0, 0)),
                            (AF_INET, SOCK_STREAM, 6, '', (host, port))]
                # a name with several address records per family (round-
                # robin DNS): numeric addresses, as the real resolver gives
                out = []
                for k in range(n):
                    ip6, ip4 = 'fd00::%x' % (k + 1), '10.0.0.%d' % (k + 1)
                    world.dns_names[ip6] = world.dns_names[ip4] = host
                    out.append((AF_INET6, SOCK_STREAM, 6, '',
                                (ip6, port, 0, 0)))
                    out.append((AF_INET, SOCK_STREAM, 6, '', (ip4, port)))
                return out

            @staticmethod
            def socket(family=AF_INET, type=SOCK_STREAM, proto=0):
                return FakeSocket(world, family, type, proto)

            @staticmethod
            def create_connection(address, timeout=None,
                                  source_address=None, **kw):
                so = FakeSocket(world, AF_INET, SOCK_STREAM, 6)
                if timeout is not None:
                    so.settimeout(timeout)
                so.connect(address)
                return so
        return M()

    def select_module(self):
        world = self

        class S(object):
            error = OSError

            @staticmethod
            def select(rlist, wlist, xlist, timeout=None):
                ready = []
                world.select_calls += 1
                sf = world.select_fail
                if sf is not None and world.select_calls >= sf[0]:
                    # injected fault: from its n-th call on select() fails
                    # (descriptor number beyond FD_SETSIZE, EBADF, ENOMEM...)
                    world.select_fail_hits += 1
                    if world.select_fail_hits > 300:
                        world.select_spin = True
                        raise KillThread()
                    raise sf[1]
                files = [underlying_file(s) for s in rlist]
                for s, f in zip(rlist, files):
                    if f.closed:
                        raise ValueError('file descriptor cannot be a '
                                         'negative integer (-1)')
                    if f.link.killed:
                        raise KillThread()
                world.yield_point('select', None)
                for s, f in zip(rlist, files):
                    if f.link.readable():
                        ready.append(s)
                if ready or not files:
                    return ready, [], []
                link = files[0].link
                if world.scheduler is not None:
                    link.idle += 1
                    link.clean_tick()
                    world.yield_point('idle', None)
                    return [], [], []
                with link.cond:
                    link.idle += 1
                    link.clean_tick()
                    link.cond.notify_all()
                    if not link.readable() and not files[0].closed:
                        t = 0.05 if timeout is None else min(timeout, 0.05)
                        if t > 0:
                            link.cond.wait(t)
                    if files[0].closed:
                        raise ValueError('file descriptor cannot be a '
                                         'negative integer (-1)')
                    if link.readable():
                        return [rlist[0]], [], []
                return [], [], []
        return S

    def open_handles(self):
        """descriptors of connected sessions that were never closed: the
        sockets that reached a peer and the file objects made from them.
        (Not meaningful after a handler called connect() without a
        disconnect() first: the library then simply drops the old objects
        and the interpreter closes them - callers skip that case.)"""
        return ['socket of link %d' % self.links.index(so.link)
                for so in self.sockets
                if so.link is not None and not so.closed] + \
               ['file object of link %d' % self.links.index(f.link)
                for f in self.files if not f.closed]

    # ---- helpers for oracles
    def join_threads(self, timeout=20.0):
        """join every networking thread started during the case; returns
        the list of threads still alive (harness-level timeout)."""
        deadline = time.monotonic() + timeout
        i = 0
        while i < len(self.threads):
            t = self.threads[i]
            left = max(0.0, deadline - time.monotonic())
            if t.ident is not None:
                t.join(left)
            i += 1
        return [t for t in self.threads if t.is_alive()]

    def settle(self, timeout=60.0, quiet_ticks=6):
        """Wait until every networking thread has ended ('done'), or the
        case is quiescent: threads alive but nothing has happened on any
        link for `quiet_ticks` consecutive idle polls of the client
        ('idle' - the client is waiting for a silent server; deterministic
        evidence, not a timer), or the harness guard expires ('timeout')."""
        deadline = time.monotonic() + timeout
        last = None
        stable = 0
        while True:
            if not any(t.is_alive() for t in self.threads
                       if t.ident is not None) and \
                    all(t.ident is not None for t in self.threads):
                return 'runaway' if self.runaway else \
                    'blocked' if self.blocked else 'done'
            sig = (self.seq, sum(l.reads for l in self.links),
                   len(self.threads))
            idle = sum(l.idle for l in self.links)
            if sig == last and idle > idle0 and not self.scheduler:
                stable += 1
                if stable >= quiet_ticks and idle - idle0 >= quiet_ticks:
                    return 'idle'
            else:
                last, stable, idle0 = sig, 0, idle
            if time.monotonic() > deadline:
                return 'timeout'
            for t in self.threads:
                if t.ident is not None and t.is_alive():
                    t.join(0.03)       # returns at once when it ends
                    break
            else:
                time.sleep(0.001)

    def kill_all(self):
        for l in self.links:
            with l.cond:
                l.killed = True
                l.s2c_eof = True
                l.cond.notify_all()

    def wait_idle(self, link, conn=None, timeout=10.0):
        """wait until the client consumed everything the server sent on
        link, its outgoing queue is empty and it went idle in select."""
        deadline = time.monotonic() + timeout
        with link.cond:
            link.watch_conn = conn
            while True:
                q = getattr(conn, '_outgoing_packet_queue', ()) \
                    if conn is not None else ()
                base = link.clean
                if not link.s2c and not q:
                    # Wait for one more CLEAN tick after the queues emptied.
                    # (A plain idle tick is not enough: between reading a
                    # packet and queueing the reply, and again between
                    # popping the reply and sending it, both queues are
                    # empty, and pyCraft polls select(timeout=0) in between
                    # - with the reply queued.  Seen as a premature
                    # snapshot under load, C11 two_connections.)
                    link.cond.wait(0.06)
                    if link.clean > base and not link.s2c and \
                            not (getattr(conn, '_outgoing_packet_queue', ())
                                 if conn is not None else ()):
                        return True
                else:
                    link.cond.wait(0.02)
                if time.monotonic() > deadline or link.killed:
                    return False
                if not any(t.is_alive() for t in self.threads):
                    return True


@contextlib.contextmanager
def wall_clock(mode):
    """The harness owns the WALL clock for the duration of a case
    (time.time / time.time_ns; monotonic and performance counters are left
    alone, and the harness itself only uses those): 'steps_back' - every
    reading is an hour earlier than the previous one (an administrator or
    NTP setting the clock back while something is in flight); 'frozen' - the
    same instant every time."""
    if not mode:
        yield
        return
    import timeit
    real, real_ns, real_timer = time.time, time.time_ns, timeit.default_timer
    state = [real()]

    def fake():
        if mode == 'steps_back':
            state[0] -= 3600.0
        elif mode == 'leaps':
            state[0] += 3600.0
        return state[0]
    time.time = fake
    time.time_ns = lambda: int(fake() * 1e9)
    if mode == 'leaps':
        # 'leaps': every reading of the wall clock AND of the interval timer
        # the library measures with (timeit.default_timer) is an hour later
        # than the last - a server that is slow, a laptop that slept.  The
        # harness itself uses time.monotonic only.
        mono = [real_timer()]

        def leap():
            mono[0] += 3600.0
            return mono[0]
        timeit.default_timer = leap
    try:
        yield
    finally:
        time.time, time.time_ns = real, real_ns
        timeit.default_timer = real_timer


@contextlib.contextmanager
def installed(world):
    """Patch minecraft.networking.connection for the duration of a case."""
    from minecraft.networking import connection as C
    for name in ('socket', 'select', 'NetworkingThread'):
        if not hasattr(C, name):
            raise RuntimeError('harness wiring: connection.%s missing' % name)
    RealNT = C.NetworkingThread

    class NT(RealNT):
        def __init__(self, *a, **k):
            RealNT.__init__(self, *a, **k)
            world.threads.append(self)

        def run(self):
            try:
                RealNT.run(self)
            except (KillThread, BlockedForever):
                pass

        def start(self):
            # injected fault: the OS refuses to start the n-th thread
            # (thread / memory / pid limit): RuntimeError, as threading does
            world.thread_starts += 1
            if world.thread_starts in world.fail_thread_start:
                if self in world.threads:
                    world.threads.remove(self)
                raise RuntimeError("can't start new thread")
            RealNT.start(self)
    NT.__name__ = 'NetworkingThread'
    saved = (C.socket, C.select, C.NetworkingThread, threading.excepthook)

    def hook(args):
        if issubclass(args.exc_type, (KillThread, BlockedForever)):
            return
        world.excepthook_calls.append(args)
    C.socket = world.socket_module()
    C.select = world.select_module()
    C.NetworkingThread = NT
    threading.excepthook = hook
    try:
        yield world
    finally:
        world.kill_all()
        alive = world.join_threads(5.0)
        C.socket, C.select, C.NetworkingThread, threading.excepthook = saved
        world.leaked = alive


# ------------------------------------------------------------- conformance

def conformance_selftest():
    """Drive identical operation sequences against a real socketpair and
    the fake; compare results / exception types."""
    import select as real_select

    class Echo(object):
        def attach(self, link):
            self.link = link

        def on_bytes(self, data):
            pass

        def on_client_close(self):
            pass

    def run(kind):
        out = []
        if kind == 'real':
            a, b = _real_socket.socketpair()
            f = a.makefile('rb', 0)
            sel = real_select.select
            peer_send = b.send

            def peer_close():
                b.recv(100)      # drain, else close() turns into a RST
                b.close()
        else:
            w = World(servers=[Echo()])
            sm, sl = w.socket_module(), w.select_module()
            a = sm.socket()
            a.connect(('h', 1))
            f = a.makefile('rb', 0)
            sel = sl.select
            link = w.links[0]
            peer_send = link.emit
            peer_close = link.server_close

        def step(name, fn):
            try:
                r = fn()
                out.append((name, 'ok', r))
            except Exception as e:
                out.append((name, type(e).__name__))
        step('select-empty', lambda: bool(sel([f], [], [], 0)[0]))
        peer_send(b'hello world')
        step('select-data', lambda: bool(sel([f], [], [], 0)[0]))
        step('read5', lambda: f.read(5))
        step('read1', lambda: f.read(1))
        step('read-rest', lambda: f.read(5))
        step('send', lambda: a.send(b'abc'))
        peer_close()
        step('select-eof', lambda: bool(sel([f], [], [], 0)[0]))
        step('read-eof', lambda: f.read(4))
        step('read-eof2', lambda: f.read(1))
        step('shutdown', lambda: a.shutdown(SHUT_RDWR))
        step('read-after-shutdown', lambda: f.read(1))
        step('file-close', lambda: f.close())
        step('read-closed', lambda: f.read(1))
        step('select-closed', lambda: sel([f], [], [], 0))
        step('sock-close', lambda: a.close())
        step('send-closed', lambda: a.send(b'x'))
        step('shutdown-closed', lambda: a.shutdown(SHUT_RDWR))
        step('close-again', lambda: a.close())
        step('file-close-again', lambda: f.close())
        if kind == 'real':
            b.close()
        return out
    r, k = run('real'), run('fake')
    if r != k:
        diff = [(x, y) for x, y in zip(r, k) if x != y]
        raise AssertionError('fake transport does not conform: %r' % diff)
    # an unconnected socket
    s = _real_socket.socket()
    w = World()
    fs = w.socket_module().socket()
    res = []
    for so in (s, fs):
        try:
            so.shutdown(SHUT_RDWR)
            res.append('ok')
        except OSError as e:
            res.append('OSError')
        so.close()
    if res[0] != res[1]:
        raise AssertionError('unconnected shutdown differs: %r' % res)
    return True
