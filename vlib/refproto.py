"""Release protocol reference table (C07; reused by the network scripts).

A literal table written from the published protocol documentation (wiki.vg
"Protocol" history and "Protocol version numbers"), independent of pyCraft:
no protocol_later_eq ladders, nothing imported from pyCraft.  The attribute
names in the layouts are pyCraft's public packet attribute names (that is
the API a user sets/reads), the class paths say which pyCraft class claims
to implement the packet.

Layout tags: VI VarInt, S string, BA VarInt-prefixed bytes, TB trailing
bytes, u8/i8/u16/i32/i64, f32/f64, bool, uuid16, NBT, SARR (VarInt count +
strings).
"""

RELEASES = [47, 107, 108, 109, 110, 210, 315, 316, 335, 338, 340, 393, 401,
            404, 477, 480, 485, 490, 498, 573, 575, 578, 735, 736, 751, 753,
            754, 755, 756, 757]

RELEASE_NAMES = {
    47: '1.8', 107: '1.9', 108: '1.9.1', 109: '1.9.2', 110: '1.9.4',
    210: '1.10', 315: '1.11', 316: '1.11.2', 335: '1.12', 338: '1.12.1',
    340: '1.12.2', 393: '1.13', 401: '1.13.1', 404: '1.13.2', 477: '1.14',
    480: '1.14.1', 485: '1.14.2', 490: '1.14.3', 498: '1.14.4', 573: '1.15',
    575: '1.15.1', 578: '1.15.2', 735: '1.16', 736: '1.16.1', 751: '1.16.2',
    753: '1.16.3', 754: '1.16.4', 755: '1.17', 756: '1.17.1', 757: '1.18',
}

# play-state ids: (cb keep-alive, cb join game, cb chat, cb pos&look,
#                  cb disconnect, sb keep-alive, sb chat, sb pos&look)
_PLAY_IDS = {
    (47,): (0x00, 0x01, 0x02, 0x08, 0x40, 0x00, 0x01, 0x06),
    (107, 108, 109, 110, 210, 315, 316):
        (0x1F, 0x23, 0x0F, 0x2E, 0x1A, 0x0B, 0x02, 0x0D),
    (335,): (0x1F, 0x23, 0x0F, 0x2E, 0x1A, 0x0C, 0x03, 0x0F),
    (338, 340): (0x1F, 0x23, 0x0F, 0x2F, 0x1A, 0x0B, 0x02, 0x0E),
    (393, 401, 404): (0x21, 0x25, 0x0E, 0x32, 0x1B, 0x0E, 0x02, 0x11),
    (477, 480, 485, 490, 498):
        (0x20, 0x25, 0x0E, 0x35, 0x1A, 0x0F, 0x03, 0x12),
    (573, 575, 578): (0x21, 0x26, 0x0F, 0x36, 0x1B, 0x0F, 0x03, 0x12),
    (735, 736): (0x20, 0x25, 0x0E, 0x35, 0x1A, 0x10, 0x03, 0x13),
    (751, 753, 754): (0x1F, 0x24, 0x0E, 0x34, 0x19, 0x10, 0x03, 0x13),
    (755, 756, 757): (0x21, 0x26, 0x0F, 0x38, 0x1A, 0x0F, 0x03, 0x12),
}


def play_ids(rel):
    for ks, v in _PLAY_IDS.items():
        if rel in ks:
            return dict(zip(('cb_keep_alive', 'cb_join_game', 'cb_chat',
                             'cb_pos_look', 'cb_disconnect', 'sb_keep_alive',
                             'sb_chat', 'sb_pos_look'), v))
    raise KeyError(rel)


def join_game_layout(rel):
    if rel in (47, 107):
        return [('entity_id', 'i32'), ('game_mode', 'u8'),
                ('dimension', 'i8'), ('difficulty', 'u8'),
                ('max_players', 'u8'), ('level_type', 'S'),
                ('reduced_debug_info', 'bool')]
    if rel <= 404:
        return [('entity_id', 'i32'), ('game_mode', 'u8'),
                ('dimension', 'i32'), ('difficulty', 'u8'),
                ('max_players', 'u8'), ('level_type', 'S'),
                ('reduced_debug_info', 'bool')]
    if rel <= 498:
        return [('entity_id', 'i32'), ('game_mode', 'u8'),
                ('dimension', 'i32'), ('max_players', 'u8'),
                ('level_type', 'S'), ('render_distance', 'VI'),
                ('reduced_debug_info', 'bool')]
    if rel <= 578:
        return [('entity_id', 'i32'), ('game_mode', 'u8'),
                ('dimension', 'i32'), ('hashed_seed', 'i64'),
                ('max_players', 'u8'), ('level_type', 'S'),
                ('render_distance', 'VI'), ('reduced_debug_info', 'bool'),
                ('respawn_screen', 'bool')]
    if rel <= 736:
        return [('entity_id', 'i32'), ('game_mode', 'u8'),
                ('previous_game_mode', 'u8'), ('world_names', 'SARR'),
                ('dimension_codec', 'NBT'), ('dimension', 'S'),
                ('world_name', 'S'), ('hashed_seed', 'i64'),
                ('max_players', 'u8'), ('render_distance', 'VI'),
                ('reduced_debug_info', 'bool'), ('respawn_screen', 'bool'),
                ('is_debug', 'bool'), ('is_flat', 'bool')]
    lay = [('entity_id', 'i32'), ('is_hardcore', 'bool'), ('game_mode', 'u8'),
           ('previous_game_mode', 'u8'), ('world_names', 'SARR'),
           ('dimension_codec', 'NBT'), ('dimension', 'NBT'),
           ('world_name', 'S'), ('hashed_seed', 'i64'),
           ('max_players', 'VI'), ('render_distance', 'VI')]
    if rel >= 757:
        lay.append(('simulation_distance', 'VI'))
    return lay + [('reduced_debug_info', 'bool'), ('respawn_screen', 'bool'),
                  ('is_debug', 'bool'), ('is_flat', 'bool')]


def core_packets(rel):
    """list of dicts: name, direction, state, cls (module path, class name),
    id, layout [(attr, tag)], present (bool: in the table for this release)
    """
    if rel not in RELEASES:
        raise KeyError(rel)
    ids = play_ids(rel)
    ka = 'VI' if rel <= 338 else 'i64'
    P = []

    def add(name, direction, state, cls, pid, layout, present=True):
        P.append({'name': name, 'direction': direction, 'state': state,
                  'cls': cls, 'id': pid, 'layout': layout,
                  'present': present})
    add('handshake', 'serverbound', 'handshake', 'HandShakePacket', 0x00,
        [('protocol_version', 'VI'), ('server_address', 'S'),
         ('server_port', 'u16'), ('next_state', 'VI')])
    add('status request', 'serverbound', 'status', 'RequestPacket', 0x00, [])
    add('status ping', 'serverbound', 'status', 'PingPacket', 0x01,
        [('time', 'i64')])
    add('status response', 'clientbound', 'status', 'ResponsePacket', 0x00,
        [('json_response', 'S')])
    add('status pong', 'clientbound', 'status', 'PingResponsePacket', 0x01,
        [('time', 'i64')])
    add('login start', 'serverbound', 'login', 'LoginStartPacket', 0x00,
        [('name', 'S')])
    add('encryption response', 'serverbound', 'login',
        'EncryptionResponsePacket', 0x01,
        [('shared_secret', 'BA'), ('verify_token', 'BA')])
    add('login disconnect', 'clientbound', 'login', 'DisconnectPacket', 0x00,
        [('json_data', 'S')])
    add('encryption request', 'clientbound', 'login',
        'EncryptionRequestPacket', 0x01,
        [('server_id', 'S'), ('public_key', 'BA'), ('verify_token', 'BA')])
    add('login success', 'clientbound', 'login', 'LoginSuccessPacket', 0x02,
        [('UUID', 'uuid16' if rel >= 735 else 'S'), ('Username', 'S')])
    add('login set compression', 'clientbound', 'login',
        'SetCompressionPacket', 0x03, [('threshold', 'VI')])
    add('login plugin request', 'clientbound', 'login',
        'PluginRequestPacket', 0x04,
        [('message_id', 'VI'), ('channel', 'S'), ('data', 'TB')],
        present=rel >= 393)
    # play
    add('cb keep alive', 'clientbound', 'play', 'KeepAlivePacket',
        ids['cb_keep_alive'], [('keep_alive_id', ka)])
    add('sb keep alive', 'serverbound', 'play', 'KeepAlivePacket',
        ids['sb_keep_alive'], [('keep_alive_id', ka)])
    add('join game', 'clientbound', 'play', 'JoinGamePacket',
        ids['cb_join_game'], join_game_layout(rel))
    add('cb chat', 'clientbound', 'play', 'ChatMessagePacket', ids['cb_chat'],
        [('json_data', 'S'), ('position', 'i8')] +
        ([('sender', 'uuid16')] if rel >= 735 else []))
    add('sb chat', 'serverbound', 'play', 'ChatPacket', ids['sb_chat'],
        [('message', 'S')])
    add('cb position and look', 'clientbound', 'play',
        'PlayerPositionAndLookPacket', ids['cb_pos_look'],
        [('x', 'f64'), ('y', 'f64'), ('z', 'f64'), ('yaw', 'f32'),
         ('pitch', 'f32'), ('flags', 'i8')] +
        ([('teleport_id', 'VI')] if rel >= 107 else []) +
        ([('dismount_vehicle', 'bool')] if rel >= 755 else []))
    add('sb position and look', 'serverbound', 'play',
        'PositionAndLookPacket', ids['sb_pos_look'],
        [('x', 'f64'), ('feet_y', 'f64'), ('z', 'f64'), ('yaw', 'f32'),
         ('pitch', 'f32'), ('on_ground', 'bool')])
    add('teleport confirm', 'serverbound', 'play', 'TeleportConfirmPacket',
        0x00, [('teleport_id', 'VI')], present=rel >= 107)
    add('play disconnect', 'clientbound', 'play', 'DisconnectPacket',
        ids['cb_disconnect'], [('json_data', 'S')])
    add('play set compression', 'clientbound', 'play', 'SetCompressionPacket',
        0x46, [('threshold', 'VI')], present=rel == 47)
    return P


def packet(rel, name):
    for p in core_packets(rel):
        if p['name'] == name:
            return p
    raise KeyError(name)


TAG_SPEC = {
    'VI': 'VarInt', 'S': 'String', 'BA': 'VarIntPrefixedByteArray',
    'TB': 'TrailingByteArray', 'u8': 'UnsignedByte', 'i8': 'Byte',
    'u16': 'UnsignedShort', 'i32': 'Integer', 'i64': 'Long', 'f32': 'Float',
    'f64': 'Double', 'bool': 'Boolean', 'uuid16': 'UUID', 'NBT': 'NBT',
    'SARR': ('PrefixedArray', 'VarInt', 'String'),
}


def encode_fields(layout, values):
    """values {attr: neutral value} -> bytes, using only vlib.wire/nbt."""
    from . import wire, nbt
    out = b''
    for attr, tag in layout:
        v = values[attr]
        if tag == 'VI':
            out += wire.varint(v)
        elif tag == 'S':
            out += wire.string(v)
        elif tag == 'BA':
            out += wire.varint_bytes(v)
        elif tag == 'TB':
            out += bytes(v)
        elif tag == 'u8':
            out += wire.uint(v, 8)
        elif tag == 'i8':
            out += wire.sint(v, 8)
        elif tag == 'u16':
            out += wire.uint(v, 16)
        elif tag == 'i32':
            out += wire.sint(v, 32)
        elif tag == 'i64':
            out += wire.sint(v, 64)
        elif tag == 'f32':
            out += wire.f32(v)
        elif tag == 'f64':
            out += wire.f64(v)
        elif tag == 'bool':
            out += wire.boolean(v)
        elif tag == 'uuid16':
            out += wire.uuid_bytes(v)
        elif tag == 'NBT':
            out += nbt.encode_root(v)
        elif tag == 'SARR':
            out += wire.varint(len(v)) + b''.join(wire.string(s) for s in v)
        else:
            raise ValueError(tag)
    return out


def decode_fields(layout, data):
    """bytes -> {attr: value} (NBT not supported: returns raw remainder)"""
    from . import wire
    pos = 0
    out = {}
    for attr, tag in layout:
        if tag == 'VI':
            v, pos = wire.read_varint(data, pos)
        elif tag == 'S':
            v, pos = wire.read_string(data, pos)
        elif tag == 'BA':
            v, pos = wire.read_varint_bytes(data, pos)
        elif tag == 'TB':
            v, pos = bytes(data[pos:]), len(data)
        elif tag in ('u8', 'u16'):
            v, pos = wire.read_uint(data, pos, int(tag[1:]))
        elif tag in ('i8', 'i32', 'i64'):
            v, pos = wire.read_sint(data, pos, int(tag[1:]))
        elif tag == 'f32':
            v, pos = wire.read_f32(data, pos)
        elif tag == 'f64':
            v, pos = wire.read_f64(data, pos)
        elif tag == 'bool':
            b, pos = wire.read_uint(data, pos, 8)
            v = b != 0
        elif tag == 'uuid16':
            if pos + 16 > len(data):
                raise wire.EOF('uuid')
            v, pos = wire.uuid_text(data[pos:pos + 16]), pos + 16
        elif tag == 'SARR':
            n, pos = wire.read_varint(data, pos)
            v = []
            for _ in range(n):
                s, pos = wire.read_string(data, pos)
                v.append(s)
        else:
            raise ValueError('cannot decode ' + tag)
        out[attr] = v
    if pos != len(data):
        raise wire.WireError('%d trailing bytes' % (len(data) - pos))
    return out
