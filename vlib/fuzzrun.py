"""Runs an atheris campaign (fuzz/fuzz_targets.py) as a subprocess and turns
a crash input into a failure of the calling check.  If atheris is not
available the campaign is skipped and evidence says so."""
import glob
import os
import shutil
import subprocess
import sys
import tempfile

from . import core


def campaign(ctx, target, component, runs, seeds=(), max_len=4096):
    deps = os.path.join(core.VERIF, '.deps')
    try:
        sys.path.insert(0, deps)
        import atheris  # noqa: F401
    except Exception:
        try:
            subprocess.run([sys.executable, '-m', 'pip', 'install', '-q',
                            '--no-index', '--find-links',
                            '/opt/veriftools/wheels', '--target', deps,
                            'atheris'], capture_output=True, timeout=300)
            import importlib
            importlib.invalidate_caches()
            import atheris  # noqa: F401,F811
        except Exception:
            ctx.label('fuzzer_unavailable')
            ctx.notes.append('atheris not importable: fuzz campaign %s '
                             'skipped (fuzzer: "unavailable")' % target)
            return
    work = tempfile.mkdtemp(prefix='fuzz_%s_' % target)
    try:
        total = 0
        for label, with_seeds in (('empty', False), ('seeded', True)):
            corpus = os.path.join(work, 'corpus_' + label)
            art = os.path.join(work, 'art_' + label) + os.sep
            os.makedirs(corpus)
            os.makedirs(art)
            if with_seeds:
                for i, sd in enumerate(seeds):
                    with open(os.path.join(corpus, 'seed%d' % i), 'wb') as f:
                        f.write(sd)
            cmd = [sys.executable,
                   os.path.join(core.VERIF, 'fuzz', 'fuzz_targets.py'),
                   target, '-runs=%d' % (runs // 2),
                   '-seed=%d' % (1 + ctx.seed % (2 ** 31 - 2)),
                   '-max_len=%d' % max_len, '-artifact_prefix=' + art,
                   '-print_final_stats=1', '-verbosity=0', corpus]
            env = dict(os.environ, VERIF_REPO=core.REPO)
            r = subprocess.run(cmd, capture_output=True, text=True, env=env)
            out = r.stderr + r.stdout
            n = 0
            for line in out.splitlines():
                if 'stat::number_of_executed_units' in line:
                    n = int(line.split(':')[-1].strip())
            total += n
            ctx.ev(n)
            ctx.label('fuzz_%s_%s_execs' % (target, label))
            ctx.labels['fuzz_%s_%s_execs' % (target, label)] += n - 1
            crashes = sorted(glob.glob(art + 'crash-*'))
            if r.returncode != 0 and not crashes and n == 0:
                raise core.HarnessError('fuzz target %s failed to run: %s'
                                        % (target, out[-800:]))
            for c in crashes[:3]:
                with open(c, 'rb') as f:
                    data = f.read()
                # replay in-process through the component -> JSON replay
                import importlib
                mod = importlib.import_module(
                    [m for m in sys.modules if m.startswith('props.c') and
                     getattr(sys.modules[m], 'PROPERTY', None) == ctx.prop][0])
                mod.COMPONENTS[component](ctx, {'input': data})
        ctx.sample({'fuzz_target': target, 'executions': total,
                    'corpora': ['empty', 'seeded']}, 'fuzz')
    finally:
        shutil.rmtree(work, ignore_errors=True)
