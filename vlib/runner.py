"""Check runner: tiers, sharding over processes, collect/shrink with
Hypothesis, known findings, replay files, evidence.

A property module (props/cNN_*.py) provides:

  PROPERTY   = 'C03'
  LEVEL      = 'exploration' | 'fault_enumeration'
  RULE       = text: how cases are generated and what makes one non-trivial
  ASSUMPTIONS = [text...]
  COMPONENTS = {name: oracle(ctx, case)}   # case: decoded explicit case;
                                           # used by replay and by corpus
  def tasks(tier): -> list of (task_name, function, kwargs)
       function(ctx, **kwargs) explores and records via ctx.
"""
import importlib
import json
import multiprocessing
import os
import sys
import time
import glob
import hashlib

from . import core
from .core import Ctx, HarnessError, enc, dec, derive_seed

NPROC = int(os.environ.get('VERIF_NPROC', '16'))


# --------------------------------------------------------------------------
# Hypothesis driver: phase 1 collect, phase 2 shrink per new signature

class _StopShrink(KeyboardInterrupt):
    pass


def hyp(ctx, name, strategy, body, max_examples, shrink_s=None,
        component=None):
    """Run body(ctx, value) over `strategy`.

    body records failures on ctx (it must not raise for oracle failures).
    Unexpected exceptions escaping body are harness errors.
    After the collect phase, every new failure signature is shrunk by
    re-running Hypothesis with "fails iff this signature occurs".
    """
    import hypothesis
    from hypothesis import given, settings, Phase, HealthCheck

    sd = derive_seed(ctx.seed, ctx.prop, ctx.task, name)
    before = set(ctx.failures)
    common = dict(database=None, deadline=None, report_multiple_bugs=False,
                  derandomize=False,
                  suppress_health_check=list(HealthCheck))

    @hypothesis.seed(sd)
    @settings(max_examples=max_examples, phases=[Phase.generate], **common)
    @given(strategy)
    def collect(x):
        body(ctx, x)

    collect()

    new = [s for s in ctx.failures if s not in before]
    if not new or os.environ.get('VERIF_NO_SHRINK'):
        return
    if shrink_s is None:
        shrink_s = 8 if ctx.quick else 60
    for sig in new[:3]:
        best = [None]
        deadline = time.monotonic() + shrink_s

        @hypothesis.seed(sd)
        @settings(max_examples=max_examples,
                  phases=[Phase.generate, Phase.shrink], **common)
        @given(strategy)
        def find(x):
            if time.monotonic() > deadline:
                raise _StopShrink()
            sub = Ctx(ctx.prop, ctx.tier, ctx.seed, ctx.task)
            body(sub, x)
            if sig in sub.failures:
                best[0] = sub.failures[sig]
                raise AssertionError('signature reproduced')

        try:
            find()
        except _StopShrink:
            pass
        except AssertionError:
            pass
        except BaseException as e:  # flaky etc.: keep unshrunk
            ctx.notes.append('shrink of %r ended with %s' % (sig, type(e)))
        if best[0] is not None:
            f = ctx.failures[sig]
            f.case, f.observed, f.expected = \
                best[0].case, best[0].observed, best[0].expected


def hyp_machine(ctx, name, machine_cls, max_examples, steps):
    """Run a RuleBasedStateMachine; the machine records failures on
    machine_cls.ctx (set here) and never raises for oracle failures."""
    import hypothesis
    from hypothesis import settings, Phase, HealthCheck
    from hypothesis.stateful import run_state_machine_as_test
    sd = derive_seed(ctx.seed, ctx.prop, ctx.task, name)
    machine_cls.ctx = ctx
    st = settings(max_examples=max_examples, stateful_step_count=steps,
                  database=None, deadline=None, report_multiple_bugs=False,
                  phases=[Phase.generate],
                  suppress_health_check=list(HealthCheck))
    run_state_machine_as_test(hypothesis.seed(sd)(machine_cls), settings=st)


# --------------------------------------------------------------------------

def load_prop(pid):
    pid = pid.upper()
    hits = glob.glob(os.path.join(core.VERIF, 'props', pid.lower() + '_*.py'))
    if len(hits) != 1:
        raise HarnessError('no unique module for %s: %r' % (pid, hits))
    name = os.path.basename(hits[0])[:-3]
    return importlib.import_module('props.' + name)


def setup_repo_import():
    import warnings
    warnings.filterwarnings('ignore')
    if core.REPO not in sys.path:
        sys.path.insert(0, core.REPO)
    import minecraft
    mf = os.path.realpath(minecraft.__file__)
    if not mf.startswith(os.path.realpath(core.REPO) + os.sep):
        raise HarnessError('minecraft imported from %s, not %s'
                           % (mf, core.REPO))


WIRING = {
    # private names the harness relies on, per property: if a refactor
    # removes one the check is inconclusive (exit 2), not a violation
    'vnet': ['minecraft.networking.connection:socket',
             'minecraft.networking.connection:select',
             'minecraft.networking.connection:NetworkingThread',
             'minecraft.networking.connection:NetworkingThread._run',
             'minecraft.networking.connection:Connection._connect',
             'minecraft.networking.connection:PacketReactor.read_packet',
             'minecraft.networking.connection:LoginReactor',
             'minecraft.networking.connection:PlayingReactor'],
    'sched': ['minecraft.networking.connection:deque',
              'minecraft.networking.connection:Connection.'
              '_start_network_thread'],
    'writer': ['minecraft.networking.connection:Connection._write_packet',
               'minecraft.networking.packets:PacketBuffer'],
}
USES = {'C01': ['vnet', 'writer'], 'C09': ['vnet'], 'C10': ['vnet'],
        'C11': ['vnet'], 'C12': ['vnet', 'sched', 'writer'],
        'C13': ['vnet'], 'C14': ['vnet'], 'C15': ['vnet'],
        'C16': ['vnet', 'sched'], 'C18': ['vnet']}


def check_wiring(pid):
    import importlib
    missing = []
    for group in USES.get(pid, []):
        for item in WIRING[group]:
            modname, path = item.split(':')
            try:
                obj = importlib.import_module(modname)
                for part in path.split('.'):
                    obj = getattr(obj, part)
            except (ImportError, AttributeError):
                missing.append(item)
    if pid in ('C01', 'C12', 'C16'):
        from minecraft.networking.connection import Connection
        c = Connection('localhost', allowed_versions={757})
        if not hasattr(c, '_write_lock'):
            missing.append('Connection()._write_lock')
    if missing:
        raise HarnessError('harness wiring: %s not found in this tree; the '
                           'check cannot observe the property (inconclusive)'
                           % ', '.join(missing))


def _run_task(args):
    pid, tier, seed, idx = args
    try:
        setup_repo_import()
        mod = load_prop(pid)
        name, fn, kw = mod.tasks(tier)[idx]
        ctx = Ctx(pid, tier, seed, name)
        fn(ctx, **kw)
        return ctx.export()
    except BaseException as e:
        return {'task': str(idx), 'harness_error': core.fmt_exc(e)}


def run_tasks(pid, tier, seed, mod):
    if hasattr(mod, 'prepare'):
        # computed once in the parent, inherited by the forked workers
        mod.prepare(tier)
    tl = mod.tasks(tier)
    n = len(tl)
    if n == 0:
        raise HarnessError('no tasks')
    wall_guard = float(os.environ.get('VERIF_WALL_GUARD',
                                      '300' if tier == 'quick' else '14400'))
    args = [(pid, tier, seed, i) for i in range(n)]
    if NPROC <= 1 or n == 1 or os.environ.get('VERIF_INPROC'):
        return [_run_task(a) for a in args]
    mpc = multiprocessing.get_context('fork')
    pool = mpc.Pool(min(NPROC, n), maxtasksperchild=1)
    try:
        res = pool.map_async(_run_task, args, chunksize=1)
        try:
            out = res.get(wall_guard)
        except multiprocessing.TimeoutError:
            raise HarnessError('wall-clock guard (%ss) expired: inconclusive'
                               % wall_guard)
    finally:
        pool.terminate()
        pool.join()
    return out


def merge(results):
    m = {'evaluations': 0, 'nontrivial': set(), 'labels': {}, 'samples': [],
         'failures': {}, 'excluded_known': {}, 'exhaustive': [], 'notes': [],
         'tasks': {}}
    m['harness_errors'] = []
    for r in results:
        if 'harness_error' in r:
            # decided in main(): inconclusive (exit 2) unless another task
            # found a violation that reproduces in a fresh process
            m['harness_errors'].append('task %s:\n%s' % (
                r['task'], r['harness_error']))
            continue
        m['evaluations'] += r['evaluations']
        m['nontrivial'] |= r['nontrivial']
        for k, v in r['labels'].items():
            m['labels'][k] = m['labels'].get(k, 0) + v
        for k, v in r['excluded_known'].items():
            m['excluded_known'][k] = m['excluded_known'].get(k, 0) + v
        m['samples'].extend(r['samples'])
        m['exhaustive'].extend(r['exhaustive'])
        m['notes'].extend(r['notes'])
        m['tasks'][r['task']] = {'evaluations': r['evaluations'],
                                 'wall_s': round(r['wall_s'], 2)}
        for f in r['failures']:
            sig = tuple(f['signature'])
            if sig in m['failures']:
                m['failures'][sig]['occurrences'] += f['occurrences']
            else:
                m['failures'][sig] = f
    return m


def pick_samples(samples, cap=12):
    by = {}
    for k, s in samples:
        by.setdefault(k, []).append(s)
    out = []
    i = 0
    while len(out) < cap and any(by.values()):
        for k in sorted(by):
            if by[k] and len(out) < cap:
                out.append({'kind': k, 'case': by[k].pop(0)} if k else
                           by[k].pop(0))
        i += 1
    return out


def write_evidence(pid, tier, seed, mod, m, wall, violations):
    cov = {
        'evaluations': m['evaluations'],
        'distinct_nontrivial': len(m['nontrivial']),
        'rule': mod.RULE,
        'samples': pick_samples(m['samples']),
        'labels': dict(sorted(m['labels'].items())),
        # only a module whose whole claimed domain is a finite space that
        # every run enumerates completely sets EXHAUSTIVE (C06)
        'exhaustive': bool(getattr(mod, 'EXHAUSTIVE', False)),
        'exhaustive_subdomains': sorted(set(m['exhaustive'])),
        'excluded_known': m['excluded_known'],
        'tasks': m['tasks'],
    }
    if m['notes']:
        cov['notes'] = m['notes'][:20]
    ev = {
        'property_id': pid, 'tier': tier, 'seed': seed, 'level': mod.LEVEL,
        'coverage': cov,
        'assumptions': list(getattr(mod, 'ASSUMPTIONS', [])),
        'wall_s': round(wall, 2), 'violations': violations,
    }
    d = os.environ.get('VERIF_EVIDENCE_DIR') or \
        os.path.join(core.VERIF, 'evidence')
    os.makedirs(d, exist_ok=True)
    tmp = os.path.join(d, '.%s.json.tmp' % pid)
    with open(tmp, 'w') as f:
        json.dump(ev, f, indent=1, sort_keys=True)
    os.replace(tmp, os.path.join(d, '%s.json' % pid))
    return ev


def write_replay(f):
    d = os.environ.get('VERIF_REPLAY_DIR') or \
        os.path.join(core.VERIF, 'replays')
    os.makedirs(d, exist_ok=True)
    h = hashlib.blake2b(json.dumps(f['signature']).encode(),
                        digest_size=5).hexdigest()
    p = os.path.join(d, '%s-%s.json' % (f['property'], h))
    with open(p, 'w') as fh:
        # no sort_keys: the order of the keys of a dict inside a case can
        # be part of the case (two dicts that are equal but print
        # differently)
        json.dump(f, fh, indent=1)
    return p


def standalone(pid, path, k):
    """Does this replay file reproduce in a fresh process?  True / False /
    None (not checked: VERIF_NO_REPLAY_CHECK, more than 8 files, error)."""
    if os.environ.get('VERIF_NO_REPLAY_CHECK') or k >= 8:
        return None
    import subprocess
    try:
        r = subprocess.run(
            [sys.executable, os.path.join(core.VERIF, 'check.py'), pid,
             '--replay', path], capture_output=True, text=True, timeout=120)
    except Exception:
        return None
    return {0: False, 1: True}.get(r.returncode)


def warm_up(pid, mod, comp, case, tier, seed):
    """Re-establish what a stored case depended on outside itself: run the
    same case under the protocol versions the shared connection context had
    carried before it (results discarded)."""
    if not isinstance(case, dict) or not case.get('_ctx_history'):
        return
    key = 'version' if 'version' in case else 'release'
    for v in case['_ctx_history']:
        scratch = Ctx(pid, tier, seed, 'warm-up')
        c = dict(case)
        c[key] = v
        try:
            mod.COMPONENTS[comp](scratch, c)
        except Exception:
            pass


def replay_case(pid, mod, tier, seed, rec):
    ctx = Ctx(pid, tier, seed, 'replay')
    comp = rec['component']
    if comp not in mod.COMPONENTS:
        raise HarnessError('unknown component %r' % comp)
    case = dec(rec['case'])
    warm_up(pid, mod, comp, case, tier, seed)
    mod.COMPONENTS[comp](ctx, case)
    return ctx


def run_corpus(pid, mod, tier, seed):
    """Replay committed regression cases; returns an exported ctx."""
    ctx = Ctx(pid, tier, seed, 'corpus')
    files = sorted(glob.glob(os.path.join(core.VERIF, 'corpus', pid,
                                          '*.json')))
    for p in files:
        with open(p) as f:
            rec = json.load(f)
        comp = rec['component']
        if comp not in mod.COMPONENTS:
            raise HarnessError('corpus %s: unknown component %r' % (p, comp))
        case = dec(rec['case'])
        warm_up(pid, mod, comp, case, tier, seed)
        mod.COMPONENTS[comp](ctx, case)
        ctx.label('corpus_case')
    return ctx.export()


def main(argv):
    if os.environ.get('PYTHONHASHSEED') != '0':
        os.environ['PYTHONHASHSEED'] = '0'
        os.execve(sys.executable, [sys.executable] + sys.argv, os.environ)
    if len(argv) < 2:
        print('usage: check.py <ID> quick|thorough | <ID> --replay <file>')
        return 2
    pid = argv[0].upper()
    seed = int(os.environ.get('VERIF_SEED', '1') or 1)
    t0 = time.monotonic()
    try:
        setup_repo_import()
        mod = load_prop(pid)
        if argv[1] == '--replay':
            with open(argv[2]) as f:
                rec = json.load(f)
            ctx = replay_case(pid, mod, 'quick', seed, rec)
            if ctx.failures:
                for f in ctx.failures.values():
                    p = write_replay(f.to_json())
                    print('clause=%s observed=%s expected=%s' % (
                        f.clause, f.observed, f.expected))
                    print('VIOLATION property=%s replay=%s' % (pid, p))
                return 1
            for k, n in ctx.excluded_known.items():
                print('KNOWN-FINDING: property=%s %s' % (pid, k))
            print('replay: no violation')
            return 0
        tier = argv[1]
        if tier not in ('quick', 'thorough'):
            raise HarnessError('bad tier %r' % tier)
        check_wiring(pid)
        results = [run_corpus(pid, mod, tier, seed)]
        results += run_tasks(pid, tier, seed, mod)
        m = merge(results)
        wall = time.monotonic() - t0
        viol = len(m['failures'])
        if m['harness_errors']:
            # A task of the harness broke down.  That alone is inconclusive
            # (exit 2).  Violations other tasks found are still reported if
            # at least one of them reproduces from its replay file in a
            # fresh process - a harness break-down elsewhere cannot have
            # produced that.
            confirmed = False
            for k, (sig, f) in enumerate(sorted(m['failures'].items())):
                if standalone(pid, write_replay(f), k) is True:
                    confirmed = True
                    break
            if not confirmed:
                raise HarnessError(m['harness_errors'][0])
            for h in m['harness_errors']:
                print('HARNESS-ERROR %s (other tasks report violations '
                      'that reproduce standalone): %s' % (pid, h),
                      file=sys.stderr)
            m['notes'].append('%d task(s) ended in a harness error; their '
                              'cases are not counted'
                              % len(m['harness_errors']))
        write_evidence(pid, tier, seed, mod, m, wall, viol)
        kf = {f.get('id', f.get('what')): f
              for f in core.known_findings().get('findings', [])
              if f.get('property') == pid}
        for k in sorted(kf):
            print('KNOWN-FINDING: property=%s %s (matched %d cases this run)'
                  % (pid, kf[k].get('what', k),
                     m['excluded_known'].get(k, 0)))
        print('%s %s seed=%d: evaluations=%d distinct_nontrivial=%d '
              'violations=%d wall=%.1fs' % (
                  pid, tier, seed, m['evaluations'], len(m['nontrivial']),
                  viol, wall))
        if viol:
            items = []
            for sig, f in sorted(m['failures'].items()):
                p = write_replay(f)
                items.append((standalone(pid, p, len(items)), sig, f, p))
            # replays that reproduce in a fresh process first
            items.sort(key=lambda t: (t[0] is not True, t[1]))
            for ok, sig, f, p in items:
                print('  clause=%s component=%s n=%d observed=%s expected=%s'
                      % (f['oracle_clause'], f['component'],
                         f['occurrences'], core.short(f['observed'], 200),
                         core.short(f['expected'], 200)))
                if ok is False:
                    print('  note: this replay file did not reproduce in a '
                          'fresh process (the failure depends on earlier '
                          'cases of the run or on randomness inside the '
                          'library); re-run the check to see it again')
                print('VIOLATION property=%s replay=%s' % (pid, p))
            return 1
        return 0
    except HarnessError as e:
        print('HARNESS-ERROR %s: %s' % (pid, e), file=sys.stderr)
        return 2
    except Exception as e:
        print('HARNESS-ERROR %s: %s' % (pid, core.fmt_exc(e)),
              file=sys.stderr)
        return 2
