"""Raw RSA with fixture keys + PKCS#1 v1.5 type-2 unpadding, and Java's
BigInteger(bytes).toString(16) reference.  No pyCraft code."""
import json
import os

_FIX = os.path.join(os.path.dirname(os.path.dirname(os.path.abspath(__file__))),
                    'fixtures')
_cache = {}


def key(bits):
    if bits not in _cache:
        with open(os.path.join(_FIX, 'rsa%d.json' % bits)) as f:
            k = json.load(f)
        _cache[bits] = {'bits': bits, 'n': int(k['n']), 'e': k['e'],
                        'd': int(k['d']), 'der': bytes.fromhex(k['der_hex'])}
    return _cache[bits]


class PaddingError(Exception):
    pass


def decrypt_pkcs1_v15(k, ciphertext):
    """-> message; raises PaddingError unless EM = 00 02 PS 00 M with PS at
    least 8 non-zero bytes and the ciphertext has modulus length."""
    klen = (k['n'].bit_length() + 7) // 8
    if len(ciphertext) != klen:
        raise PaddingError('ciphertext length %d != modulus length %d'
                           % (len(ciphertext), klen))
    c = int.from_bytes(ciphertext, 'big')
    if c >= k['n']:
        raise PaddingError('ciphertext >= modulus')
    em = pow(c, k['d'], k['n']).to_bytes(klen, 'big')
    if em[0] != 0 or em[1] != 2:
        raise PaddingError('not a type-2 block: %s' % em[:2].hex())
    try:
        z = em.index(0, 2)
    except ValueError:
        raise PaddingError('no separator')
    if z < 10:
        raise PaddingError('padding string shorter than 8 bytes')
    return em[z + 1:]


def java_hex(b):
    """new BigInteger(b).toString(16) for a non-empty byte string b."""
    b = bytes(b)
    neg = bool(b[0] & 0x80)
    if neg:
        # two's complement negation on the byte string: invert, add one
        inv = bytearray(x ^ 0xFF for x in b)
        i = len(inv) - 1
        while i >= 0:
            if inv[i] == 0xFF:
                inv[i] = 0
                i -= 1
            else:
                inv[i] += 1
                break
        b = bytes(inv)
    h = b.hex().lstrip('0') or '0'
    return ('-' if neg else '') + h


# ---- other valid DER encodings of the same public key (a server is free to
# send any of them; the session hash is over the bytes actually sent)

def _der_len(n):
    if n < 0x80:
        return bytes([n])
    b = n.to_bytes((n.bit_length() + 7) // 8, 'big')
    return bytes([0x80 | len(b)]) + b


def _der_tlv(tag, content):
    return bytes([tag]) + _der_len(len(content)) + content


def _der_read(data, pos):
    """-> (tag, content, next position)"""
    tag = data[pos]
    ln = data[pos + 1]
    pos += 2
    if ln & 0x80:
        k = ln & 0x7F
        ln = int.from_bytes(data[pos:pos + k], 'big')
        pos += k
    return tag, data[pos:pos + ln], pos + ln


def key_encodings(bits):
    """{'spki': the fixture (Java style), 'pkcs1': bare RSAPublicKey,
    'spki_no_null': SubjectPublicKeyInfo whose AlgorithmIdentifier omits the
    NULL parameters, 'spki_long_len': same key with a non-minimal length
    octet in the outer SEQUENCE (BER, not DER)}"""
    spki = key(bits)['der']
    tag, outer, _ = _der_read(spki, 0)
    assert tag == 0x30
    t1, alg, p = _der_read(outer, 0)
    t2, bitstr, _ = _der_read(outer, p)
    assert t1 == 0x30 and t2 == 0x03 and bitstr[0] == 0
    pkcs1 = bytes(bitstr[1:])
    t3, oid, _ = _der_read(alg, 0)
    assert t3 == 0x06
    no_null = _der_tlv(0x30, _der_tlv(0x30, _der_tlv(0x06, oid)) +
                       _der_tlv(0x03, bitstr))
    n = len(outer)
    lb = n.to_bytes(4, 'big')
    long_len = bytes([0x30, 0x84]) + lb + outer
    return {'spki': spki, 'pkcs1': pkcs1, 'spki_no_null': no_null,
            'spki_long_len': long_len}
