"""Raw RSA with fixture keys + PKCS#1 v1.5 type-2 unpadding, and Java's
BigInteger(bytes).toString(16) reference.  No pyCraft code."""
import json
import os

_FIX = os.path.join(os.path.dirname(os.path.dirname(os.path.abspath(__file__))),
                    'fixtures')
_cache = {}


def _factor(n, e, d):
    """p, q from a key pair (the textbook method: a non-trivial square root
    of 1 mod n out of e*d - 1)"""
    from math import gcd
    k = e * d - 1
    t = k
    while t % 2 == 0:
        t //= 2
    for g in range(2, 200):
        x = pow(g, t, n)
        while x not in (1, n - 1):
            y = pow(x, 2, n)
            if y == 1:
                p = gcd(x - 1, n)
                return p, n // p
            if y == n - 1:
                break
            x = y
    raise ValueError('could not factor the fixture modulus')


def _int_der(v):
    b = v.to_bytes(v.bit_length() // 8 + 1, 'big')
    return _der_tlv(0x02, b)


def key(bits):
    """bits: 1024 | 2048 (fixture keys, e = 65537), or '<bits>e<e>': the
    same modulus with another public exponent (3, 17, 257 ...; RSA does not
    prescribe F4) and the matching private exponent"""
    if isinstance(bits, str) and 'e' in bits and bits not in _cache:
        from math import gcd
        base = key(int(bits.split('e')[0]))
        e2 = int(bits.split('e')[1])
        p_, q_ = _factor(base['n'], base['e'], base['d'])
        lam = (p_ - 1) * (q_ - 1) // gcd(p_ - 1, q_ - 1)
        if gcd(e2, lam) != 1:
            raise ValueError('exponent %d does not suit the fixture key' % e2)
        d2 = pow(e2, -1, lam)
        pkcs1 = _der_tlv(0x30, _int_der(base['n']) + _int_der(e2))
        oid = bytes.fromhex('2a864886f70d010101')
        spki = _der_tlv(0x30, _der_tlv(0x30, _der_tlv(0x06, oid) +
                                       bytes([0x05, 0x00])) +
                        _der_tlv(0x03, b'\x00' + pkcs1))
        _cache[bits] = {'bits': bits, 'n': base['n'], 'e': e2, 'd': d2,
                        'der': spki}
    if bits not in _cache:
        with open(os.path.join(_FIX, 'rsa%d.json' % bits)) as f:
            k = json.load(f)
        _cache[bits] = {'bits': bits, 'n': int(k['n']), 'e': k['e'],
                        'd': int(k['d']), 'der': bytes.fromhex(k['der_hex'])}
    return _cache[bits]


class PaddingError(Exception):
    pass


def decrypt_pkcs1_v15(k, ciphertext):
    """-> message; raises PaddingError unless EM = 00 02 PS 00 M with PS at
    least 8 non-zero bytes and the ciphertext has modulus length."""
    klen = (k['n'].bit_length() + 7) // 8
    if len(ciphertext) != klen:
        raise PaddingError('ciphertext length %d != modulus length %d'
                           % (len(ciphertext), klen))
    c = int.from_bytes(ciphertext, 'big')
    if c >= k['n']:
        raise PaddingError('ciphertext >= modulus')
    em = pow(c, k['d'], k['n']).to_bytes(klen, 'big')
    if em[0] != 0 or em[1] != 2:
        raise PaddingError('not a type-2 block: %s' % em[:2].hex())
    try:
        z = em.index(0, 2)
    except ValueError:
        raise PaddingError('no separator')
    if z < 10:
        raise PaddingError('padding string shorter than 8 bytes')
    return em[z + 1:]


def java_hex(b):
    """new BigInteger(b).toString(16) for a non-empty byte string b."""
    b = bytes(b)
    neg = bool(b[0] & 0x80)
    if neg:
        # two's complement negation on the byte string: invert, add one
        inv = bytearray(x ^ 0xFF for x in b)
        i = len(inv) - 1
        while i >= 0:
            if inv[i] == 0xFF:
                inv[i] = 0
                i -= 1
            else:
                inv[i] += 1
                break
        b = bytes(inv)
    h = b.hex().lstrip('0') or '0'
    return ('-' if neg else '') + h


# ---- other valid DER encodings of the same public key (a server is free to
# send any of them; the session hash is over the bytes actually sent)

def _der_len(n):
    if n < 0x80:
        return bytes([n])
    b = n.to_bytes((n.bit_length() + 7) // 8, 'big')
    return bytes([0x80 | len(b)]) + b


def _der_tlv(tag, content):
    return bytes([tag]) + _der_len(len(content)) + content


def _der_read(data, pos):
    """-> (tag, content, next position)"""
    tag = data[pos]
    ln = data[pos + 1]
    pos += 2
    if ln & 0x80:
        k = ln & 0x7F
        ln = int.from_bytes(data[pos:pos + k], 'big')
        pos += k
    return tag, data[pos:pos + ln], pos + ln


def key_encodings(bits):
    """{'spki': the fixture (Java style), 'pkcs1': bare RSAPublicKey,
    'spki_no_null': SubjectPublicKeyInfo whose AlgorithmIdentifier omits the
    NULL parameters, 'spki_long_len': same key with a non-minimal length
    octet in the outer SEQUENCE (BER, not DER)}"""
    spki = key(bits)['der']
    tag, outer, _ = _der_read(spki, 0)
    assert tag == 0x30
    t1, alg, p = _der_read(outer, 0)
    t2, bitstr, _ = _der_read(outer, p)
    assert t1 == 0x30 and t2 == 0x03 and bitstr[0] == 0
    pkcs1 = bytes(bitstr[1:])
    t3, oid, _ = _der_read(alg, 0)
    assert t3 == 0x06
    no_null = _der_tlv(0x30, _der_tlv(0x30, _der_tlv(0x06, oid)) +
                       _der_tlv(0x03, bitstr))
    n = len(outer)
    lb = n.to_bytes(4, 'big')
    long_len = bytes([0x30, 0x84]) + lb + outer
    return {'spki': spki, 'pkcs1': pkcs1, 'spki_no_null': no_null,
            'spki_long_len': long_len}
