"""Minimal NBT: neutral trees, an independent reference encoder, conversion
to/from pynbt objects (pynbt is a third-party dependency of pyCraft, not
pyCraft code) and a Hypothesis generator.

Neutral node = (tagname, value); list value = (elem_tagname, [values]);
compound value = {name: node} (insertion ordered)."""
from . import wire

IDS = {'byte': 1, 'short': 2, 'int': 3, 'long': 4, 'float': 5, 'double': 6,
       'byte_array': 7, 'string': 8, 'list': 9, 'compound': 10,
       'int_array': 11, 'long_array': 12}


def _name(s):
    b = wire.utf8(s)      # strings are restricted to BMP without NUL, where
    return wire.uint(len(b), 16) + b   # Java modified UTF-8 == UTF-8


def payload(tag, v):
    if tag == 'byte':
        return wire.sint(v, 8)
    if tag == 'short':
        return wire.sint(v, 16)
    if tag == 'int':
        return wire.sint(v, 32)
    if tag == 'long':
        return wire.sint(v, 64)
    if tag == 'float':
        return wire.f32(v)
    if tag == 'double':
        return wire.f64(v)
    if tag == 'string':
        return _name(v)
    if tag == 'byte_array':
        return wire.sint(len(v), 32) + bytes(v)     # elements 0..255
    if tag == 'int_array':
        return wire.sint(len(v), 32) + b''.join(wire.sint(x, 32) for x in v)
    if tag == 'long_array':
        return wire.sint(len(v), 32) + b''.join(wire.sint(x, 64) for x in v)
    if tag == 'list':
        et, items = v
        return bytes([IDS[et]]) + wire.sint(len(items), 32) + \
            b''.join(payload(et, x) for x in items)
    if tag == 'compound':
        out = b''
        for name, (t, x) in v.items():
            out += bytes([IDS[t]]) + _name(name) + payload(t, x)
        return out + b'\x00'
    raise ValueError(tag)


def encode_root(compound_value, name=''):
    return b'\x0a' + _name(name) + payload('compound', compound_value)


def to_pynbt(tag, v):
    import pynbt
    C = {'byte': pynbt.TAG_Byte, 'short': pynbt.TAG_Short,
         'int': pynbt.TAG_Int, 'long': pynbt.TAG_Long,
         'float': pynbt.TAG_Float, 'double': pynbt.TAG_Double,
         'string': pynbt.TAG_String, 'byte_array': pynbt.TAG_Byte_Array,
         'int_array': pynbt.TAG_Int_Array,
         'long_array': pynbt.TAG_Long_Array, 'list': pynbt.TAG_List,
         'compound': pynbt.TAG_Compound}
    if tag == 'list':
        et, items = v
        return pynbt.TAG_List(C[et], [to_pynbt(et, x) for x in items])
    if tag == 'compound':
        return pynbt.TAG_Compound({n: to_pynbt(t, x)
                                   for n, (t, x) in v.items()})
    if tag == 'byte_array':
        return C[tag](bytearray(v))
    if tag.endswith('_array'):
        return C[tag](list(v))
    return C[tag](v)


def root_to_pynbt_dict(compound_value):
    """what NBT.send expects: a mapping name -> tag"""
    return {n: to_pynbt(t, x) for n, (t, x) in compound_value.items()}


def from_pynbt(tag):
    import pynbt
    N = {pynbt.TAG_Byte: 'byte', pynbt.TAG_Short: 'short',
         pynbt.TAG_Int: 'int', pynbt.TAG_Long: 'long',
         pynbt.TAG_Float: 'float', pynbt.TAG_Double: 'double',
         pynbt.TAG_String: 'string', pynbt.TAG_Byte_Array: 'byte_array',
         pynbt.TAG_Int_Array: 'int_array',
         pynbt.TAG_Long_Array: 'long_array'}
    if isinstance(tag, pynbt.TAG_Compound):
        return ('compound', {n: from_pynbt(t) for n, t in tag.items()})
    if isinstance(tag, pynbt.TAG_List):
        et = None
        for k, nm in list(N.items()) + [(pynbt.TAG_List, 'list'),
                                        (pynbt.TAG_Compound, 'compound')]:
            if tag.type_ is k:
                et = nm
        return ('list', (et, [from_pynbt(x)[1] for x in tag]))
    for k, nm in N.items():
        if type(tag) is k:
            v = tag.value
            if nm.endswith('_array'):
                v = list(v)
            return (nm, v)
    raise ValueError('unknown tag %r' % (tag,))


def strategy(max_leaves=8):
    from hypothesis import strategies as st
    names = st.text('abcdefgh_:é世', min_size=0, max_size=8)
    f32 = st.integers(0, 2 ** 32 - 1).map(
        lambda w: wire.float_bits_to_value(w, 32)).filter(lambda x: x == x)
    f64 = st.floats(allow_nan=False)
    scalar = {
        'byte': st.integers(-128, 127), 'short': st.integers(-2**15, 2**15-1),
        'int': st.integers(-2 ** 31, 2 ** 31 - 1),
        'long': st.integers(-2 ** 63, 2 ** 63 - 1), 'float': f32,
        'double': f64, 'string': names,
        'byte_array': st.lists(st.integers(0, 255), max_size=5),
        'int_array': st.lists(st.integers(-2 ** 31, 2 ** 31 - 1), max_size=4),
        'long_array': st.lists(st.integers(-2 ** 63, 2 ** 63 - 1),
                               max_size=3),
    }
    leaf = st.sampled_from(sorted(scalar)).flatmap(
        lambda t: st.tuples(st.just(t), scalar[t]))

    def extend(inner):
        comp = st.dictionaries(names, inner, max_size=4).map(
            lambda d: ('compound', d))
        # lists are homogeneous: choose an element tag then values of it
        lst = st.sampled_from(sorted(scalar)).flatmap(
            lambda t: st.lists(scalar[t], max_size=4).map(
                lambda xs: ('list', (t, xs))))
        lst_c = st.lists(st.dictionaries(names, inner, max_size=3),
                         max_size=3).map(lambda xs: ('list', ('compound', xs)))
        return st.one_of(comp, lst, lst_c)
    node = st.recursive(leaf, extend, max_leaves=max_leaves)
    return st.dictionaries(names, node, max_size=5)
