"""Harness-owned thread schedule (stateless model checking in the style of
CHESS): all participating threads are real Python threads but only the
holder of the baton runs.  At every yield point the running thread hands the
baton to the thread the schedule names next.

schedule: list of small ints.  At a decision point the runnable threads are
ordered [current (if runnable), others in creation order after current];
choice c picks index c % len(options).  Beyond the end of the schedule the
default policy applies: continue the current thread, except at 'idle' points
(a select() that found nothing) where the baton rotates - this makes the
completion policy fair.  A non-zero choice while the current thread is
runnable is a preemption.
"""
import sys
import threading


# yield kinds that change shared state; only these reset the idle counter
EFFECT = {'send', 'append', 'popleft', 'shutdown', 'close', 'thread-start',
          'op', 'connect', 'join', 'file_close'}


class SchedAbort(BaseException):
    pass


class TState(object):
    def __init__(self, name, index):
        self.name = name
        self.index = index
        self.status = 'ready'        # ready | blocked | done
        self.waiting_on = None
        self.thread = None
        self.idle_run = 0
        self.exc = None


class Scheduler(object):
    def __init__(self, schedule=(), step_budget=60000, idle_limit=40,
                 fine=False, fine_files=('networking/connection.py',
                                         'packets/packet.py')):
        self.schedule = list(schedule)
        self.pos = 0
        self.cv = threading.Condition()
        self.states = []             # creation order
        self.by_ident = {}
        self.current = None
        self.steps = 0
        self.step_budget = step_budget
        self.idle_limit = idle_limit
        self.aborted = None          # reason
        self.deadlock = None
        self.decisions = []          # (n_options, choice, preemptive?)
        self.trace = []
        self.preemptions = 0
        self.fine = fine
        self.fine_files = fine_files
        self.finished = threading.Event()
        self.quiesced = False
        self.timeout_diag = None

    # ---- registration
    def register(self, name, thread=None):
        with self.cv:
            st = TState(name, len(self.states))
            st.thread = thread
            self.states.append(st)
            return st

    def _me(self):
        return self.by_ident.get(threading.get_ident())

    def enter(self, st):
        """called by a participating thread at the very start of its run"""
        self.by_ident[threading.get_ident()] = st
        with self.cv:
            while self.current is not st and not self.aborted:
                self.cv.wait()
            if self.aborted:
                raise SchedAbort(self.aborted)
        if self.fine:
            sys.settrace(self._tracer)

    def _tracer(self, frame, event, arg):
        fn = frame.f_code.co_filename
        if any(fn.endswith(x) for x in self.fine_files):
            return self._line
        return None

    def _line(self, frame, event, arg):
        if event == 'line' and not self.aborted:
            self.yield_point('line')
        return self._line

    # ---- choice
    def _runnable(self):
        return [s for s in self.states if s.status == 'ready']

    def _options(self, me):
        r = self._runnable()
        if not r:
            return []
        if me is not None and me.status == 'ready':
            others = [s for s in r if s is not me]
            k = me.index
            others.sort(key=lambda s: (s.index - k - 1) % (len(self.states)))
            return [me] + others
        k = me.index if me is not None else -1
        r.sort(key=lambda s: (s.index - k - 1) % (len(self.states)))
        return r

    def _choose(self, me, kind):
        opts = self._options(me)
        if not opts:
            return None
        cur_runnable = me is not None and me.status == 'ready'
        if len(opts) == 1:
            return opts[0]            # no decision: consumes no choice
        if kind == 'idle' and cur_runnable:
            # a poll that found nothing: always let the next thread run
            # (fair rotation); not a decision point, consumes no choice
            return opts[1]
        if self.pos < len(self.schedule):
            c = self.schedule[self.pos] % len(opts)
            self.pos += 1
            from_schedule = True
        else:
            from_schedule = False
            if cur_runnable and kind == 'idle' and len(opts) > 1:
                c = 1                 # fair rotation at idle points
            else:
                c = 0
        pre = cur_runnable and c != 0 and kind != 'idle'
        self.decisions.append((len(opts), c, pre, kind, cur_runnable))
        if pre:
            self.preemptions += 1
        return opts[c]

    def _handoff(self, me, nxt):
        """give the baton to nxt and wait until it comes back to me"""
        if nxt is me:
            return
        self.current = nxt
        self.cv.notify_all()
        if me is None or me.status == 'done':
            return
        while self.current is not me and not self.aborted:
            self.cv.wait()
        if self.aborted:
            raise SchedAbort(self.aborted)

    # ---- yield points
    def yield_point(self, kind):
        me = self._me()
        if me is None:
            return                    # a thread outside the scenario
        with self.cv:
            if self.aborted:
                raise SchedAbort(self.aborted)
            self.steps += 1
            if self.steps > self.step_budget:
                self._abort('step budget exceeded (non-termination)')
                raise SchedAbort(self.aborted)
            if kind == 'idle':
                me.idle_run += 1
                if self._all_quiescent():
                    self.quiesced = True
                    self._abort('quiescent')
                    raise SchedAbort(self.aborted)
            elif kind in EFFECT:
                me.idle_run = 0
            self.trace.append((me.name, kind))
            nxt = self._choose(me, kind)
            self._handoff(me, nxt)

    def _all_quiescent(self):
        """every unfinished thread is only idling (polling select)"""
        live = [s for s in self.states if s.status != 'done']
        return bool(live) and all(
            s.status == 'ready' and s.idle_run >= self.idle_limit
            for s in live)

    def block(self, reason):
        """mark the current thread blocked and run something else; returns
        when it has been made ready again and rescheduled"""
        me = self._me()
        if me is None:
            return False
        with self.cv:
            if self.aborted:
                raise SchedAbort(self.aborted)
            me.status = 'blocked'
            me.waiting_on = reason
            self.trace.append((me.name, 'block:%s' % (reason[0],)))
            nxt = self._choose(me, 'block')
            if nxt is None:
                self.deadlock = [(s.name, s.waiting_on) for s in self.states
                                 if s.status == 'blocked']
                self._abort('deadlock')
                raise SchedAbort(self.aborted)
            self.current = nxt
            self.cv.notify_all()
            while (self.current is not me or me.status != 'ready') and \
                    not self.aborted:
                self.cv.wait()
            if self.aborted:
                raise SchedAbort(self.aborted)
        return True

    def join_state(self, st):
        """block the calling participating thread until st is done"""
        self.yield_point('join')
        while st.status != 'done':
            self.block(('join', st))

    def wake(self, pred):
        with self.cv:
            for s in self.states:
                if s.status == 'blocked' and pred(s.waiting_on):
                    s.status = 'ready'
                    s.waiting_on = None

    def finish(self, st, exc=None):
        with self.cv:
            st.status = 'done'
            st.exc = exc
            for s in self.states:
                if s.status == 'blocked' and s.waiting_on == ('join', st):
                    s.status = 'ready'
                    s.waiting_on = None
            if all(s.status == 'done' for s in self.states):
                self.finished.set()
                self.current = None
                self.cv.notify_all()
                return
            if self.aborted:
                self.cv.notify_all()
                return
            nxt = self._choose(st, 'finish')
            if nxt is None:
                self.deadlock = [(s.name, s.waiting_on) for s in self.states
                                 if s.status == 'blocked']
                self._abort('deadlock')
                return
            self.current = nxt
            self.cv.notify_all()

    def _abort(self, reason):
        self.aborted = reason
        self.cv.notify_all()
        self.finished.set()

    # ---- running a scenario
    def spawn(self, fn, name):
        st = self.register(name)

        def run():
            exc = None
            try:
                self.enter(st)
                fn()
            except SchedAbort:
                pass
            except BaseException as e:
                exc = e
            finally:
                sys.settrace(None)
                self.finish(st, exc)
        t = threading.Thread(target=run, name=name, daemon=True)
        st.thread = t
        t.start()
        return st

    def run(self, timeout=60.0):
        """start the scenario (first registered thread gets the baton) and
        wait for completion.  Returns 'done' | 'quiescent' | 'deadlock' |
        'budget' | 'timeout'."""
        with self.cv:
            first = self._choose(None, 'start')
            if first is None:
                return 'done'
            self.current = first
            self.cv.notify_all()
        ok = self.finished.wait(timeout)
        if not ok:
            with self.cv:
                self.timeout_diag = {
                    'current': getattr(self.current, 'name', None),
                    'states': [(s.name, s.status, str(s.waiting_on)[:60])
                               for s in self.states],
                    'steps': self.steps, 'trace_tail': self.trace[-12:]}
                self._abort('harness timeout')
            return 'timeout'
        if self.aborted == 'quiescent':
            return 'quiescent'
        if self.aborted == 'deadlock':
            return 'deadlock'
        if self.aborted:
            return 'budget' if 'budget' in self.aborted else self.aborted
        return 'done'

    def join_all(self, timeout=10.0):
        for s in self.states:
            if s.thread is not None and s.thread.ident is not None:
                s.thread.join(timeout)
        return [s.name for s in self.states
                if s.thread is not None and s.thread.is_alive()]


class SchedRLock(object):
    """Re-entrant lock whose blocking is visible to the scheduler."""

    def __init__(self, sched, name='write_lock'):
        self.sched = sched
        self.name = name
        self.owner = None
        self.count = 0
        self.acquisitions = []        # (thread name) in order

    def acquire(self, blocking=True, timeout=-1):
        s = self.sched
        me = s._me()
        if me is None or s.aborted:
            # non-participating (harness main thread) or tear-down
            self.count += 1
            return True
        s.yield_point('lock')
        while self.owner is not None and self.owner is not me:
            s.block(('lock', self))
        self.owner = me
        self.count += 1
        self.acquisitions.append(me.name)
        return True

    def release(self):
        s = self.sched
        me = s._me()
        self.count -= 1
        if me is None or s.aborted:
            return
        if self.count == 0:
            self.owner = None
            s.wake(lambda w: w == ('lock', self))
            s.yield_point('unlock')

    __enter__ = acquire

    def __exit__(self, *a):
        self.release()


def make_deque(sched):
    from collections import deque as real_deque

    class SchedDeque(real_deque):
        def append(self, x):
            sched.yield_point('append')
            real_deque.append(self, x)

        def popleft(self):
            # popping from an empty queue changes nothing: not an effect
            sched.yield_point('popleft' if len(self) else 'popleft-empty')
            return real_deque.popleft(self)
    return SchedDeque


def install_thread_hooks(world, sched, C):
    """NetworkingThread subclass whose start/run/join are scheduler-aware.
    Must be called inside vnet.installed(world) (which already replaced
    C.NetworkingThread by a registering subclass)."""
    Base = C.NetworkingThread
    from . import vnet

    class SNT(Base):
        def start(self):
            self._st = sched.register('net%d' % len(
                [s for s in sched.states if s.name.startswith('net')]), self)
            Base.start(self)          # it waits for the baton in run()
            sched.yield_point('thread-start')

        def run(self):
            exc = None
            try:
                sched.enter(self._st)
                Base.run(self)
            except (SchedAbort, vnet.KillThread, vnet.BlockedForever):
                pass
            except BaseException as e:
                exc = e
                raise
            finally:
                sys.settrace(None)
                sched.finish(self._st, exc)

        def join(self, timeout=None):
            me = sched._me()
            st = getattr(self, '_st', None)
            if me is None or st is None or sched.aborted:
                return Base.join(self, timeout if timeout is not None
                                 else 5.0)
            sched.yield_point('join')
            while st.status != 'done':
                sched.block(('join', st))

        def is_alive(self):
            st = getattr(self, '_st', None)
            if st is not None and sched._me() is not None:
                return st.status != 'done'
            return Base.is_alive(self)
    SNT.__name__ = 'NetworkingThread'
    C.NetworkingThread = SNT
    return SNT


def enumerate_schedules(run_one, max_preemptions, limit=None, shard=(0, 1),
                        should_stop=None):
    """Depth-first enumeration of schedules with at most max_preemptions
    preemptions.  run_one(schedule) -> decisions list
    [(n_options, choice, preemptive, kind, cur_runnable)...].
    Yields nothing; calls run_one for each schedule.  Returns the number of
    schedules executed and whether the enumeration was complete."""
    stack = [[]]
    count = 0
    complete = True
    nroot = [0]
    while stack:
        s = stack.pop()
        decisions = run_one(s)
        count += 1
        if limit is not None and count >= limit:
            complete = not stack
            break
        if should_stop is not None and should_stop():
            complete = False
            break
        pre = sum(1 for d in decisions[:len(s)] if d[2])
        # children: deviate at a decision point beyond the prefix
        for i in range(len(s), len(decisions)):
            n, c, p, kind, cur = decisions[i]
            for alt in range(n):
                if alt == c:
                    continue
                costs = 1 if (cur and kind != 'idle') else 0
                # preemptions already spent in s + taken by default choices
                # between len(s) and i (default choices never preempt)
                if pre + costs > max_preemptions:
                    continue
                child = s + [d[1] for d in decisions[len(s):i]] + [alt]
                if not s:
                    # shard the subtrees below the root
                    nroot[0] += 1
                    if nroot[0] % shard[1] != shard[0]:
                        continue
                stack.append(child)
    return count, complete
